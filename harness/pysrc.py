"""Source translator: Python AST of small pure functions of bellows/ash.py -> Gallina (coq/gen/GenAshFn.v).

Unlike gen.py's table generators (which read *data* out of the imported modules), this one reads the *source
text* of the functions that carry the byte-level logic of the ASH codec and emits a Gallina function per
Python function.  The hand-written model (coq/model/AshCodec.v) is then proved equal to the emitted
functions (coq/proofs/AshSrc_proofs.v), so an edit of one of these functions either changes the emitted
term (and the equality proof is re-checked against it) or leaves the supported subset (and the translator
refuses, naming the construct).

Supported subset (anything else raises GenError):
  byte loops      locals initialised with bytearray() / True / False / int literal; one `for x in <param>` or
                  `for _ in range(<param>)`; body of assignments (also augmented), out.append(e),
                  out.extend([e, ...]), if/elif/else, raise, continue; an optional `if <cond>: raise` after
                  the loop; `return <local>`
  expressions     int literals, names, Reserved.X (value read from the live enum), ^ & | >> <<, == != on ints,
                  `in` / `not in` RESERVED_BYTES, not / and / or on booleans
  comprehension   `assert len(a) <= len(B)` ; `return bytes([x op y for x, y in zip(a, B)])`
  frame classes   to_bytes: self.append_crc(bytes([ctrl, field...]) [+ self._randomize(self.<field>)]);
                  from_bytes: control, data = cls._unwrap(data) ... return cls(field=<expr over control>, ...)
  parse_frame     the order of the class list
"""
from __future__ import annotations

import ast
import functools
import inspect
import pathlib
import textwrap

from gen import GenError


class Tr:
    """expression / statement translator; `types` maps a variable to 'N' | 'bool' | 'bytes'"""

    def __init__(self, where: str, consts: dict, types: dict):
        self.where = where
        self.consts = consts            # dotted name -> int
        self.types = dict(types)

    def refuse(self, node, why="unsupported construct"):
        src = ast.unparse(node) if isinstance(node, ast.AST) else str(node)
        raise GenError(self.where, f"{why}: `{src[:80]}`")

    # ---- expressions -----------------------------------------------------------------------------
    def ty(self, e) -> str:
        if isinstance(e, ast.Constant):
            if isinstance(e.value, bool):
                return "bool"
            if isinstance(e.value, int):
                return "N"
        if isinstance(e, ast.Name):
            if e.id in self.types:
                return self.types[e.id]
            self.refuse(e, "unknown name")
        if isinstance(e, ast.Attribute):
            return "N"
        if isinstance(e, ast.BinOp):
            return "N"
        if isinstance(e, (ast.Compare, ast.BoolOp)):
            return "bool"
        if isinstance(e, ast.UnaryOp) and isinstance(e.op, ast.Not):
            return "bool"
        self.refuse(e)

    def ex(self, e) -> str:
        if isinstance(e, ast.Constant):
            if isinstance(e.value, bool):
                return "true" if e.value else "false"
            if isinstance(e.value, int) and e.value >= 0:
                return str(e.value)
            self.refuse(e, "constant")
        if isinstance(e, ast.Name):
            if e.id in self.types:
                return e.id
            if e.id in self.consts:
                return str(self.consts[e.id])
            self.refuse(e, "unknown name")
        if isinstance(e, ast.Attribute):
            dotted = ast.unparse(e)
            if dotted in self.consts:
                return str(self.consts[dotted])
            self.refuse(e, "unknown attribute")
        if isinstance(e, ast.BinOp):
            ops = {ast.BitXor: "N.lxor", ast.BitAnd: "N.land", ast.BitOr: "N.lor", ast.RShift: "N.shiftr", ast.LShift: "N.shiftl"}
            if type(e.op) not in ops:
                self.refuse(e, "operator")
            if self.ty(e.left) != "N" or self.ty(e.right) != "N":
                self.refuse(e, "non-integer operand")
            return f"({ops[type(e.op)]} {self.ex(e.left)} {self.ex(e.right)})"
        if isinstance(e, ast.UnaryOp) and isinstance(e.op, ast.Not):
            return f"(negb {self.cond(e.operand)})"
        if isinstance(e, ast.BoolOp):
            op = "&&" if isinstance(e.op, ast.And) else "||"
            return "(" + f" {op} ".join(self.cond(v) for v in e.values) + ")"
        if isinstance(e, ast.Compare):
            if len(e.ops) != 1:
                self.refuse(e, "chained comparison")
            op, rhs = e.ops[0], e.comparators[0]
            if isinstance(op, (ast.In, ast.NotIn)):
                if not (isinstance(rhs, ast.Name) and rhs.id == "RESERVED_BYTES"):
                    self.refuse(e, "membership in something other than RESERVED_BYTES")
                t = f"(mem_N {self.ex(e.left)} RESERVED_BYTES)"
                return t if isinstance(op, ast.In) else f"(negb {t})"
            if isinstance(op, (ast.Eq, ast.NotEq)):
                if self.ty(e.left) != "N" or self.ty(rhs) != "N":
                    self.refuse(e, "comparison of non-integers")
                t = f"({self.ex(e.left)} =? {self.ex(rhs)})"
                return t if isinstance(op, ast.Eq) else f"(negb {t})"
            self.refuse(e, "comparison operator")
        self.refuse(e)

    def cond(self, e) -> str:
        if self.ty(e) == "bool":
            return self.ex(e)
        # Python truthiness of an int
        return f"(negb ({self.ex(e)} =? 0))"

    # ---- statements (continuation style; `rest` is duplicated into both branches of an if) -------
    def stmts(self, body: list, state: list, loopvar: str | None) -> str:
        if not body:
            return "Some (" + ", ".join(state) + ")"
        s, rest = body[0], body[1:]
        if isinstance(s, ast.Expr) and isinstance(s.value, ast.Constant) and isinstance(s.value.value, str):
            return self.stmts(rest, state, loopvar)
        if isinstance(s, ast.Expr) and isinstance(s.value, ast.Call) and ast.unparse(s.value.func).split(".")[0] in ("LOGGER", "_LOGGER"):
            return self.stmts(rest, state, loopvar)
        if isinstance(s, ast.Raise):
            return "None"
        if isinstance(s, ast.Continue):
            return "Some (" + ", ".join(state) + ")"
        if isinstance(s, ast.Pass):
            return self.stmts(rest, state, loopvar)
        if isinstance(s, (ast.Assign, ast.AugAssign)):
            if isinstance(s, ast.Assign):
                if len(s.targets) != 1 or not isinstance(s.targets[0], ast.Name):
                    self.refuse(s, "assignment target")
                name, val = s.targets[0].id, s.value
            else:
                if not isinstance(s.target, ast.Name):
                    self.refuse(s, "assignment target")
                name, val = s.target.id, ast.BinOp(left=ast.Name(id=s.target.id, ctx=ast.Load()), op=s.op, right=s.value)
            t = self.ty(val)
            if name in self.types and self.types[name] != t:
                self.refuse(s, "variable changes type")
            term = self.ex(val)
            saved = dict(self.types)
            self.types[name] = t
            out = f"let {name} := {term} in\n{self.stmts(rest, state, loopvar)}"
            self.types = saved if name not in saved else self.types
            return out
        if isinstance(s, ast.Expr) and isinstance(s.value, ast.Call) and isinstance(s.value.func, ast.Attribute) \
                and isinstance(s.value.func.value, ast.Name) and self.types.get(s.value.func.value.id) == "bytes":
            tgt, meth, args = s.value.func.value.id, s.value.func.attr, s.value.args
            if meth == "append" and len(args) == 1 and self.ty(args[0]) == "N":
                return f"let {tgt} := {tgt} ++ [{self.ex(args[0])}] in\n{self.stmts(rest, state, loopvar)}"
            if meth == "extend" and len(args) == 1 and isinstance(args[0], (ast.List, ast.Tuple)):
                items = "; ".join(self.ex(a) for a in args[0].elts)
                return f"let {tgt} := {tgt} ++ [{items}] in\n{self.stmts(rest, state, loopvar)}"
            self.refuse(s, "method call")
        if isinstance(s, ast.If):
            a = self.stmts(list(s.body) + rest, state, loopvar)
            b = self.stmts(list(s.orelse) + rest, state, loopvar)
            return f"if {self.cond(s.test)} then\n{textwrap.indent(a, '  ')}\nelse\n{textwrap.indent(b, '  ')}"
        self.refuse(s)


def _fn_ast(fn) -> ast.FunctionDef:
    fn = getattr(fn, "__func__", fn)
    src = textwrap.dedent(inspect.getsource(fn))
    tree = ast.parse(src)
    node = tree.body[0]
    if not isinstance(node, ast.FunctionDef):
        raise GenError(getattr(fn, "__qualname__", str(fn)), "not a plain function")
    return node


def byte_loop(fn, coq_name: str, consts: dict) -> str:
    """translate a byte-loop function; result type option (list N)"""
    node = _fn_ast(fn)
    where = f"{fn.__qualname__} (source)"
    params = [a.arg for a in node.args.args if a.arg not in ("self", "cls")]
    if len(params) != 1 or node.args.kwonlyargs or node.args.vararg or node.args.kwarg:
        raise GenError(where, "expected exactly one parameter")
    param = params[0]
    body = [s for s in node.body if not (isinstance(s, ast.Expr) and isinstance(s.value, ast.Constant))]
    tr = Tr(where, consts, {})
    inits = []       # (name, type, term)
    i = 0
    while i < len(body) and isinstance(body[i], ast.Assign):
        s = body[i]
        if len(s.targets) != 1 or not isinstance(s.targets[0], ast.Name):
            tr.refuse(s, "initialisation")
        nm, v = s.targets[0].id, s.value
        if isinstance(v, ast.Call) and isinstance(v.func, ast.Name) and v.func.id == "bytearray" and not v.args:
            inits.append((nm, "bytes", "[]"))
        elif isinstance(v, ast.Constant) and isinstance(v.value, bool):
            inits.append((nm, "bool", "true" if v.value else "false"))
        elif isinstance(v, ast.Constant) and isinstance(v.value, int) and v.value >= 0:
            inits.append((nm, "N", str(v.value)))
        else:
            tr.refuse(s, "initialisation")
        i += 1
    if i >= len(body) or not isinstance(body[i], ast.For):
        raise GenError(where, "expected a for loop after the initialisations")
    loop = body[i]
    if loop.orelse or not isinstance(loop.target, ast.Name):
        tr.refuse(loop, "loop form")
    state = [n for n, _, _ in inits]
    for n, t, _ in inits:
        tr.types[n] = t
    over_range = False
    if isinstance(loop.iter, ast.Name) and loop.iter.id == param:
        tr.types[loop.target.id] = "N"
    elif isinstance(loop.iter, ast.Call) and isinstance(loop.iter.func, ast.Name) and loop.iter.func.id == "range" \
            and len(loop.iter.args) == 1 and isinstance(loop.iter.args[0], ast.Name) and loop.iter.args[0].id == param:
        over_range = True
    else:
        tr.refuse(loop.iter, "loop iterable")
    step_body = tr.stmts(list(loop.body), state, loop.target.id)
    # after the loop
    post = body[i + 1:]
    post_checks = []
    while post and isinstance(post[0], ast.If):
        s = post[0]
        if s.orelse or len(s.body) != 1 or not isinstance(s.body[0], ast.Raise):
            tr.refuse(s, "statement after the loop")
        post_checks.append(tr.cond(s.test))
        post = post[1:]
    if len(post) != 1 or not isinstance(post[0], ast.Return) or not isinstance(post[0].value, ast.Name) \
            or tr.types.get(post[0].value.id) != "bytes":
        raise GenError(where, "expected `return <bytearray local>` at the end")
    ret = post[0].value.id
    coqty = {"bytes": "list N", "N": "N", "bool": "bool"}
    sty = " * ".join(coqty[t] for _, t, _ in inits)
    pat = ", ".join(state)
    init = ", ".join(t for _, _, t in inits)
    fin = f"Some {ret}"
    for c in reversed(post_checks):
        fin = f"if {c} then None else {fin}"
    if over_range:
        step = (f"Definition {coq_name}_step (s : option ({sty})) : option ({sty}) :=\n"
                f"  match s with None => None | Some ({pat}) =>\n{textwrap.indent(step_body, '    ')}\n  end.\n")
        run = (f"Definition {coq_name} ({param} : nat) : option (list N) :=\n"
               f"  match Nat.iter {param} {coq_name}_step (Some ({init})) with\n"
               f"  | None => None\n  | Some ({pat}) => {fin}\n  end.\n")
    else:
        step = (f"Definition {coq_name}_step (s : option ({sty})) ({loop.target.id} : N) : option ({sty}) :=\n"
                f"  match s with None => None | Some ({pat}) =>\n{textwrap.indent(step_body, '    ')}\n  end.\n")
        run = (f"Definition {coq_name} ({param} : list N) : option (list N) :=\n"
               f"  match fold_left {coq_name}_step {param} (Some ({init})) with\n"
               f"  | None => None\n  | Some ({pat}) => {fin}\n  end.\n")
    return f"(* from the source of {fn.__qualname__} *)\n{step}{run}\n"


def zip_comprehension(fn, coq_name: str, consts: dict, seq_name: str) -> str:
    """assert len(a) <= len(SEQ); return bytes([x op y for x, y in zip(a, SEQ)])"""
    node = _fn_ast(fn)
    where = f"{fn.__qualname__} (source)"
    tr = Tr(where, consts, {})
    params = [a.arg for a in node.args.args if a.arg not in ("self", "cls")]
    if len(params) != 1:
        raise GenError(where, "expected exactly one parameter")
    p = params[0]
    body = [s for s in node.body if not (isinstance(s, ast.Expr) and isinstance(s.value, ast.Constant))]
    if len(body) != 2 or not isinstance(body[0], ast.Assert) or not isinstance(body[1], ast.Return):
        raise GenError(where, "expected `assert ...; return ...`")
    if ast.unparse(body[0].test) != f"len({p}) <= len({seq_name})":
        tr.refuse(body[0], "assertion")
    r = body[1].value
    ok = (isinstance(r, ast.Call) and isinstance(r.func, ast.Name) and r.func.id == "bytes" and len(r.args) == 1
          and isinstance(r.args[0], ast.ListComp) and len(r.args[0].generators) == 1)
    if not ok:
        tr.refuse(body[1], "return form")
    comp = r.args[0]
    g = comp.generators[0]
    if g.ifs or g.is_async or ast.unparse(g.iter) != f"zip({p}, {seq_name})" or not isinstance(g.target, ast.Tuple) \
            or len(g.target.elts) != 2 or not all(isinstance(x, ast.Name) for x in g.target.elts):
        tr.refuse(comp, "comprehension form")
    a, b = (x.id for x in g.target.elts)
    tr.types[a] = tr.types[b] = "N"
    elt = tr.ex(comp.elt)
    return (f"(* from the source of {fn.__qualname__} *)\n"
            f"Fixpoint {coq_name}_zip (l1 l2 : list N) : list N :=\n"
            f"  match l1, l2 with\n  | {a} :: l1', {b} :: l2' => {elt} :: {coq_name}_zip l1' l2'\n  | _, _ => []\n  end.\n"
            f"Definition {coq_name} ({p} : list N) : option (list N) :=\n"
            f"  if (List.length {p} <=? List.length {seq_name})%nat then Some ({coq_name}_zip {p} {seq_name}) else None.\n\n")


def frame_class(cls, consts: dict) -> tuple[str, dict]:
    """control-byte / header expressions of to_bytes and the field extraction of from_bytes"""
    import dataclasses
    name = cls.__name__
    fields = [f.name for f in dataclasses.fields(cls)]
    out = []
    info = {"fields": fields}
    # ---- to_bytes
    node = _fn_ast(cls.to_bytes)
    where = f"{cls.to_bytes.__qualname__} (source)"
    tr = Tr(where, dict(consts, **{"self.MASK_VALUE": int(cls.MASK_VALUE)}), {})
    body = [s for s in node.body if not (isinstance(s, ast.Expr) and isinstance(s.value, ast.Constant))]
    if len(body) != 1 or not isinstance(body[0], ast.Return):
        raise GenError(where, "expected a single return")
    r = body[0].value
    if not (isinstance(r, ast.Call) and ast.unparse(r.func) == "self.append_crc" and len(r.args) == 1 and not r.keywords):
        tr.refuse(r, "expected self.append_crc(...)")
    arg = r.args[0]
    payload_field = None
    if isinstance(arg, ast.BinOp) and isinstance(arg.op, ast.Add):
        rhs = arg.right
        if not (isinstance(rhs, ast.Call) and ast.unparse(rhs.func) == "self._randomize" and len(rhs.args) == 1
                and isinstance(rhs.args[0], ast.Attribute) and ast.unparse(rhs.args[0].value) == "self"):
            tr.refuse(rhs, "expected self._randomize(self.<field>)")
        payload_field = rhs.args[0].attr
        arg = arg.left
    if not (isinstance(arg, ast.Call) and isinstance(arg.func, ast.Name) and arg.func.id == "bytes" and len(arg.args) == 1
            and isinstance(arg.args[0], ast.List)):
        tr.refuse(arg, "expected bytes([...])")
    used = []

    class SelfFields(ast.NodeTransformer):
        def visit_Attribute(self, n):
            if isinstance(n.value, ast.Name) and n.value.id == "self" and n.attr in fields:
                if n.attr not in used:
                    used.append(n.attr)
                return ast.copy_location(ast.Name(id=n.attr, ctx=ast.Load()), n)
            return n
    elts = [SelfFields().visit(e) for e in arg.args[0].elts]
    for f in fields:
        tr.types[f] = "N"
    header = "[" + "; ".join(tr.ex(e) for e in elts) + "]"
    hdr_fields = [f for f in fields if f != payload_field]
    for f in used:
        if f == payload_field:
            raise GenError(where, "payload field used in the header")
    args = " ".join(f"({f} : N)" for f in hdr_fields)
    out.append(f"(* from the source of {cls.to_bytes.__qualname__}: bytes before the CRC"
               f"{' (followed by the randomised ' + payload_field + ')' if payload_field else ''} *)\n"
               f"Definition py_{name}_header {args} : list N := {header}.\n")
    info["payload"] = payload_field
    info["hdr_fields"] = hdr_fields
    # ---- from_bytes
    fb = cls.from_bytes
    node = _fn_ast(fb)
    where = f"{fb.__func__.__qualname__} (source)"
    tr = Tr(where, consts, {"control": "N"})
    body = [s for s in node.body if not (isinstance(s, ast.Expr) and isinstance(s.value, ast.Constant))]
    if not body or _dump(ast.unparse(body[0])) != _dump("control, data = cls._unwrap(data)"):
        raise GenError(where, f"expected `control, data = cls._unwrap(data)` first, got `{ast.unparse(body[0]) if body else ''}`")
    info["from_bytes_src"] = "\n".join(ast.unparse(s) for s in body)
    ret = body[-1]
    if isinstance(ret, ast.Return) and isinstance(ret.value, ast.Call) and ast.unparse(ret.value.func) == "cls" \
            and len(body) == 2 and ret.value.keywords and not ret.value.args:
        ctl = []
        for kw in ret.value.keywords:
            if kw.arg == payload_field:
                if ast.unparse(kw.value) != "cls._randomize(data)":
                    tr.refuse(kw.value, "payload extraction")
                continue
            ctl.append((kw.arg, tr.ex(kw.value)))
        if [k for k, _ in ctl] != hdr_fields:
            raise GenError(where, f"fields {[k for k, _ in ctl]} differ from the dataclass fields {hdr_fields}")
        out.append(f"(* from the source of {fb.__func__.__qualname__}: fields taken from the control byte *)\n"
                   f"Definition py_{name}_fields (control : N) : list N := [" + "; ".join(t for _, t in ctl) + "].\n")
        info["control_only"] = True
    else:
        info["control_only"] = False
    return "".join(out) + "\n", info


RSTACK_FROM_BYTES = """(control, data) = cls._unwrap(data)
if len(data) != 2:
    raise ParsingError(f'Invalid data length for RSTACK frame: {data!r}')
version = data[0]
if version != 2:
    raise ParsingError(f'Invalid version for RSTACK frame: {data!r}')
reset_code = t.NcpResetCode(data[1])
return cls(version=version, reset_code=reset_code)"""
RST_FROM_BYTES = """(control, data) = cls._unwrap(data)
if data:
    raise ParsingError(f'Invalid data for RST frame: {data!r}')
return cls()"""
UNWRAP_SRC = """if len(data) < 3:
    raise ParsingError(f'Frame is too short: {data!r}')
computed_crc = binascii.crc_hqx(data[:-2], 65535).to_bytes(2, 'big')
if computed_crc != data[-2:]:
    raise ParsingError(f'Invalid CRC bytes in frame {data!r}: expected {computed_crc.hex()}, got {data[-2:].hex()}')
return (data[0], data[1:-2])"""
APPEND_CRC_SRC = "return data + binascii.crc_hqx(data, 65535).to_bytes(2, 'big')"
PARSE_FRAME_SRC = """control_byte = data[0]
for frame in [{classes}]:
    if control_byte & frame.MASK == frame.MASK_VALUE:
        return frame.from_bytes(data)
else:
    raise ParsingError(f'Could not determine frame type: {{data!r}}')"""


class _StripLogs(ast.NodeTransformer):
    """log calls and docstrings carry no behaviour the models speak of: a pinned comparison ignores them"""

    def _clean(self, body):
        out = []
        for s in body:
            if isinstance(s, ast.Expr) and isinstance(s.value, ast.Constant) and isinstance(s.value.value, str):
                continue
            if isinstance(s, ast.Expr) and isinstance(s.value, ast.Call) and ast.unparse(s.value.func).split(".")[0] in ("LOGGER", "_LOGGER"):
                continue
            out.append(s)
        return out or [ast.Pass()]

    def generic_visit(self, node):
        super().generic_visit(node)
        for f in ("body", "orelse", "finalbody"):
            v = getattr(node, f, None)
            if isinstance(v, list) and v and isinstance(v[0], ast.stmt):
                setattr(node, f, self._clean(v) if f == "body" else [x for x in self._clean(v) if not isinstance(x, ast.Pass)] )
        return node


def _dump(src: str) -> str:
    tree = ast.parse(textwrap.dedent(src))
    return ast.dump(_StripLogs().visit(tree))


def _norm_body(fn) -> str:
    node = _fn_ast(fn)
    body = [s for s in node.body if not (isinstance(s, ast.Expr) and isinstance(s.value, ast.Constant))]
    return "\n".join(ast.unparse(s) for s in body)


def gen_ash_fn() -> str:
    import bellows.ash as ash

    consts = {f"Reserved.{m.name}": int(m) for m in ash.Reserved}
    out = ["(* GENERATED by harness/pysrc.py from the SOURCE TEXT of bellows/ash.py in /repo's working tree -- do not edit *)\n"
           "From Coq Require Import NArith Arith List Bool String.\nImport ListNotations.\nRequire Import BV.gen.GenAsh.\nOpen Scope N_scope.\n\n"
           "Definition RESERVED_BYTES : list N := map snd RESERVED.\n"
           "Definition mem_N (x : N) (l : list N) : bool := existsb (N.eqb x) l.\n\n"]
    out.append(byte_loop(ash.generate_random_sequence, "py_generate_random_sequence", consts))
    out.append(byte_loop(ash.AshProtocol._stuff_bytes, "py_stuff_bytes", consts))
    out.append(byte_loop(ash.AshProtocol._unstuff_bytes, "py_unstuff_bytes", consts))
    out.append(zip_comprehension(ash.DataFrame._randomize, "py_randomize", consts, "PSEUDO_RANDOM_DATA_SEQUENCE"))
    # how the module-level sequence is produced
    src = inspect.getsource(ash)
    if "\nPSEUDO_RANDOM_DATA_SEQUENCE = generate_random_sequence(256)\n" not in src:
        raise GenError("PSEUDO_RANDOM_DATA_SEQUENCE", "is no longer `generate_random_sequence(256)`")
    out.append("Definition py_sequence_length : nat := 256.\n\n")
    classes = [ash.DataFrame, ash.AckFrame, ash.NakFrame, ash.RstFrame, ash.RStackFrame, ash.ErrorFrame]
    infos = {}
    for cls in classes:
        txt, info = frame_class(cls, consts)
        infos[cls.__name__] = info
        out.append(txt)
    # the parts whose shape the hand model mirrors directly: pinned by their normalised source
    if ash.ErrorFrame.to_bytes is not ash.RStackFrame.to_bytes or \
            ash.ErrorFrame.from_bytes.__func__ is not ash.RStackFrame.from_bytes.__func__:
        raise GenError("ErrorFrame", "no longer shares RStackFrame's to_bytes / from_bytes")
    pinned = [
        ("RStackFrame.from_bytes", infos["RStackFrame"]["from_bytes_src"], RSTACK_FROM_BYTES),
        ("RstFrame.from_bytes", infos["RstFrame"]["from_bytes_src"], RST_FROM_BYTES),
        ("AshFrame._unwrap", _norm_body(ash.AshFrame._unwrap), UNWRAP_SRC),
        ("AshFrame.append_crc", _norm_body(ash.AshFrame.append_crc), APPEND_CRC_SRC),
    ]
    order = ["DataFrame", "AckFrame", "NakFrame", "RstFrame", "RStackFrame", "ErrorFrame"]
    pf = _norm_body(ash.parse_frame)
    want = None
    tree = _fn_ast(ash.parse_frame)
    for n in ast.walk(tree):
        if isinstance(n, ast.For) and isinstance(n.iter, ast.List):
            order = [ast.unparse(e) for e in n.iter.elts]
            want = PARSE_FRAME_SRC.format(classes=", ".join(order))
    if want is None:
        raise GenError("parse_frame", "class list not found")
    pinned.append(("parse_frame", pf, want))
    for nm, got, exp in pinned:
        if _dump(got) != _dump(exp):
            raise GenError(nm, "source differs from the form the model mirrors:\n" + got)
    out.append("(* parse_frame: the order in which the frame classes are tried *)\n"
               "Definition py_parse_order : list string := [" + "; ".join(f'"{c}"%string' for c in order) + "].\n")
    return "".join(out)


# ==================================================================================================
# EZSP frame headers (EZSPv4 / v5 / v8 ._ezsp_frame_tx / _ezsp_frame_rx)
# ==================================================================================================
def _header_tx(cls, tag: str) -> str:
    fn = cls.__dict__.get("_ezsp_frame_tx")
    if fn is None:
        raise GenError(f"{cls.__name__}._ezsp_frame_tx", "not defined by this class")
    node = _fn_ast(fn)
    where = f"{cls.__name__}._ezsp_frame_tx (source)"
    body = [s for s in node.body if not (isinstance(s, ast.Expr) and isinstance(s.value, ast.Constant))]
    idvars, lists = set(), {}
    tr = Tr(where, {}, {"seq": "N", "id": "N"})

    def elem(e):
        if ast.unparse(e) == "self._seq":
            return "seq"
        if isinstance(e, ast.BinOp) and isinstance(e.op, ast.BitAnd) and ast.unparse(e.left) == "self._seq" \
                and isinstance(e.right, ast.Constant) and isinstance(e.right.value, int):
            return f"(N.land seq {e.right.value})"
        if isinstance(e, ast.Constant) and isinstance(e.value, int) and 0 <= e.value < 256:
            return str(e.value)
        if isinstance(e, ast.Name) and e.id in idvars:
            return "id"
        if isinstance(e, ast.Subscript) and isinstance(e.value, ast.Name) and e.value.id in lists.get("__cmd", ()) \
                and isinstance(e.slice, ast.Constant) and e.slice.value == 0:
            return "id"
        tr.refuse(e, "header element")

    def expr(e):
        if isinstance(e, ast.Call) and isinstance(e.func, ast.Name) and e.func.id == "bytes" and len(e.args) == 1:
            a = e.args[0]
            if isinstance(a, ast.List):
                return "[" + "; ".join(elem(x) for x in a.elts) + "]"
            if isinstance(a, ast.Name) and a.id in lists:
                return lists[a.id]
            tr.refuse(e, "bytes(...) argument")
        if isinstance(e, ast.BinOp) and isinstance(e.op, ast.Add):
            return f"({expr(e.left)} ++ {expr(e.right)})"
        if isinstance(e, ast.Call) and ast.unparse(e.func) == "t.uint16_t(cmd_id).serialize" and "cmd_id" in idvars and not e.args:
            return "(le_bytes 2 id)"        # zigpy uint16_t: two bytes, little endian (lib/EzspTypes.v)
        tr.refuse(e, "header expression")

    for s in body[:-1]:
        src = ast.unparse(s)
        if src == "cmd_id = self.COMMANDS[name][0]":
            idvars.add("cmd_id")
        elif src == "c = self.COMMANDS[name]":
            lists.setdefault("__cmd", set()).add("c")
        elif isinstance(s, ast.Assign) and len(s.targets) == 1 and isinstance(s.targets[0], ast.Name) and isinstance(s.value, ast.List):
            lists[s.targets[0].id] = "[" + "; ".join(elem(x) for x in s.value.elts) + "]"
        else:
            tr.refuse(s, "statement")
    if not isinstance(body[-1], ast.Return):
        tr.refuse(body[-1], "expected return")
    return (f"(* from the source of {cls.__name__}._ezsp_frame_tx *)\n"
            f"Definition py_{tag}_header_tx (seq id : N) : list N := {expr(body[-1].value)}.\n")


def _header_rx(cls, tag: str) -> str:
    fn = cls.__dict__.get("_ezsp_frame_rx")
    if fn is None:
        raise GenError(f"{cls.__name__}._ezsp_frame_rx", "not defined by this class")
    node = _fn_ast(fn)
    where = f"{cls.__name__}._ezsp_frame_rx (source)"
    tr = Tr(where, {}, {})
    body = [s for s in node.body if not (isinstance(s, ast.Expr) and isinstance(s.value, ast.Constant))]

    def idx(e, var="data"):
        """data[k] -> k ; data[k:] -> ('from', k)"""
        if isinstance(e, ast.Subscript) and isinstance(e.value, ast.Name) and e.value.id == var:
            sl = e.slice
            if isinstance(sl, ast.Constant) and isinstance(sl.value, int) and sl.value >= 0:
                return sl.value
            if isinstance(sl, ast.Slice) and sl.upper is None and sl.step is None and isinstance(sl.lower, ast.Constant) \
                    and isinstance(sl.lower.value, int) and sl.lower.value >= 0:
                return ("from", sl.lower.value)
        tr.refuse(e, "subscript form")

    if len(body) == 1 and isinstance(body[0], ast.Return) and isinstance(body[0].value, ast.Tuple) and len(body[0].value.elts) == 3:
        a, b, c = (idx(e) for e in body[0].value.elts)
        if not (isinstance(a, int) and isinstance(b, int) and isinstance(c, tuple)):
            tr.refuse(body[0], "return form")
        need = max(a, b) + 1
        return (f"(* from the source of {cls.__name__}._ezsp_frame_rx *)\n"
                f"Definition py_{tag}_header_rx (data : list N) : option (N * N * list N) :=\n"
                f"  if (List.length data <? {need})%nat then None   (* IndexError *)\n"
                f"  else Some (nth {a} data 0, nth {b} data 0, skipn {c[1]} data).\n")
    want = ["seq, data = (data[0], data[3:])", "frame_id, data = t.uint16_t.deserialize(data)", "return (seq, frame_id, data)"]
    if len(body) == 3 and isinstance(body[0], ast.Assign) and isinstance(body[0].value, ast.Tuple) \
            and _dump(ast.unparse(body[1])) == _dump(want[1]) and _dump(ast.unparse(body[2])) == _dump(want[2]) \
            and ast.unparse(body[0].targets[0]) in ("seq, data", "(seq, data)") and len(body[0].value.elts) == 2:
        a, c = (idx(e) for e in body[0].value.elts)
        if not (isinstance(a, int) and isinstance(c, tuple)):
            tr.refuse(body[0], "assignment form")
        return (f"(* from the source of {cls.__name__}._ezsp_frame_rx; uint16_t.deserialize: two bytes, little endian, ValueError when short *)\n"
                f"Definition py_{tag}_header_rx (data : list N) : option (N * N * list N) :=\n"
                f"  if (List.length data <? {a + 1})%nat then None\n"
                f"  else let seq := nth {a} data 0 in let data := skipn {c[1]} data in\n"
                f"       if (List.length data <? 2)%nat then None\n"
                f"       else Some (seq, le_value (firstn 2 data), skipn 2 data).\n")
    raise GenError(where, "unsupported body:\n" + "\n".join(ast.unparse(s) for s in body))


def gen_ezsp_fn() -> str:
    import bellows.ezsp.v4 as v4
    import bellows.ezsp.v5 as v5
    import bellows.ezsp.v8 as v8
    out = ["(* GENERATED by harness/pysrc.py from the SOURCE TEXT of bellows/ezsp/v{4,5,8}/__init__.py -- do not edit *)\n"
           "From Coq Require Import NArith Arith List Bool.\nImport ListNotations.\nRequire Import BV.lib.EzspTypes BV.model.EzspCodec.\nOpen Scope N_scope.\n\n"]
    for cls, tag in ((v4.EZSPv4, "v4"), (v5.EZSPv5, "v5"), (v8.EZSPv8, "v8")):
        out.append(_header_tx(cls, tag))
        out.append(_header_rx(cls, tag))
        out.append("\n")
    return "".join(out)


# ==================================================================================================
# ASH receive-side methods of AshProtocol (synchronous, state in self attributes, effects = calls)
# ==================================================================================================
ASH_STATE = [("_rx_seq", "rx_seq", "N"), ("_tx_seq", "tx_seq", "N"), ("_ncp_state", "failed", "bool"), ("_ncp_reset_code", "code", "N")]
NONE_CODE = 256       # self._ncp_reset_code = None (reset codes are bytes)


class MethodTr(Tr):
    """statements of a synchronous AshProtocol method: self attributes are state variables, recognised calls
    append an effect, calls of other translated methods are inlined as calls of their Gallina counterpart"""

    def __init__(self, where, consts, params, known_methods):
        types = {c: t for _, c, t in ASH_STATE}
        types.update({p: t for p, t in params.items()})
        super().__init__(where, consts, types)
        self.types["eff"] = "effs"
        self.known = known_methods

    def norm(self, e):
        """frame.<field> -> <field>; self._attr -> state variable"""
        attrs = {a: c for a, c, _ in ASH_STATE}

        class N(ast.NodeTransformer):
            def visit_Attribute(s, n):
                s.generic_visit(n)
                if isinstance(n.value, ast.Name) and n.value.id == "frame":
                    return ast.copy_location(ast.Name(id=n.attr, ctx=ast.Load()), n)
                if isinstance(n.value, ast.Name) and n.value.id == "self" and n.attr in attrs:
                    return ast.copy_location(ast.Name(id=attrs[n.attr], ctx=ast.Load()), n)
                return n
        return N().visit(e)

    def ex(self, e):
        if isinstance(e, ast.BinOp) and isinstance(e.op, (ast.Add, ast.Mod)):
            if self.ty(e.left) != "N" or self.ty(e.right) != "N":
                self.refuse(e, "non-integer operand")
            op = "N.add" if isinstance(e.op, ast.Add) else "N.modulo"
            return f"({op} {self.ex(e.left)} {self.ex(e.right)})"
        if isinstance(e, ast.Constant) and e.value is None:
            return str(NONE_CODE)
        return super().ex(e)

    def ty(self, e):
        if isinstance(e, ast.Constant) and e.value is None:
            return "N"
        return super().ty(e)

    def effect(self, call: ast.Call):
        """Gallina term for a recognised effect call, or ('inline', name, args)"""
        f = ast.unparse(call.func)
        kw = {k.arg: k.value for k in call.keywords}

        def frame_term(c):
            if not (isinstance(c, ast.Call) and isinstance(c.func, ast.Name) and c.func.id in ("AckFrame", "NakFrame") and not c.args):
                self.refuse(c, "frame constructor")
            k = {x.arg: x.value for x in c.keywords}
            if set(k) != {"res", "ncp_ready", "ack_num"}:
                self.refuse(c, "frame constructor fields")
            ctor = "Ack" if c.func.id == "AckFrame" else "Nak"
            return f"({ctor} {self.ex(k['res'])} {self.ex(k['ncp_ready'])} {self.ex(k['ack_num'])})"
        if f == "self._write_frame" and len(call.args) == 1:
            if not kw:
                return f"PWrite {frame_term(call.args[0])}"
            if set(kw) == {"prefix"} and ast.unparse(kw["prefix"]) == "(Reserved.CANCEL,)":
                return f"PWriteCancel {frame_term(call.args[0])}"
        if f == "self._ezsp_protocol.data_received" and len(call.args) == 1 and not kw and ast.unparse(call.args[0]) == "ezsp_frame":
            return "PUp ezsp_frame"
        if f == "self._ezsp_protocol.reset_received" and len(call.args) == 1 and not kw:
            return f"PResetUp {self.ex(call.args[0])}"
        if f == "self._change_ack_timeout" and len(call.args) == 1 and ast.unparse(call.args[0]) == "T_RX_ACK_INIT":
            return "PAckTimeoutInit"
        if f == "self._cancel_pending_data_frames" and len(call.args) == 1 and isinstance(call.args[0], ast.Call):
            c = call.args[0]
            cf = ast.unparse(c.func)
            ck = {x.arg: x.value for x in c.keywords}
            if cf == "NotAcked" and set(ck) == {"frame"} and not c.args:
                return "PCancelPending CNotAcked"
            if cf == "NcpFailure" and set(ck) == {"code"} and not c.args:
                return f"PCancelPending (CFailure {self.ex(ck['code'])})"
        if f == "self._handle_ack" and len(call.args) == 1 and ast.unparse(call.args[0]) == "frame":
            return "PHandleAck ack_num"
        if f.startswith("self.") and f[5:] in self.known and not kw:
            return ("inline", f[5:], [self.ex(a) for a in call.args])
        self.refuse(call, "call with no modelled effect")

    def stmts(self, body, state, loopvar=None):
        if not body:
            return "(" + ", ".join(state) + ")"
        s, rest = body[0], body[1:]
        if isinstance(s, ast.Expr) and isinstance(s.value, ast.Constant):
            return self.stmts(rest, state)
        if isinstance(s, ast.Pass):
            return self.stmts(rest, state)
        if isinstance(s, ast.Expr) and isinstance(s.value, ast.Call):
            if ast.unparse(s.value.func).startswith("_LOGGER."):
                return self.stmts(rest, state)
            eff = self.effect(s.value)
            if isinstance(eff, tuple):
                _, name, args = eff
                return (f"let '({', '.join(state)}) := py_{name}_k ({', '.join(state)}) {' '.join(args)} in\n"
                        f"{self.stmts(rest, state)}")
            return f"let eff := eff ++ [{eff}] in\n{self.stmts(rest, state)}"
        if isinstance(s, ast.Assign) and len(s.targets) == 1 and isinstance(s.targets[0], ast.Name):
            name = s.targets[0].id
            if name not in self.types:
                self.refuse(s, "assignment to an unknown variable")
            if name == "failed":
                v = ast.unparse(s.value)
                if v not in ("NcpState.FAILED", "NcpState.CONNECTED"):
                    self.refuse(s, "state value")
                return f"let failed := {'true' if v.endswith('FAILED') else 'false'} in\n{self.stmts(rest, state)}"
            if self.ty(s.value) != self.types[name]:
                self.refuse(s, "type of the assigned value")
            return f"let {name} := {self.ex(s.value)} in\n{self.stmts(rest, state)}"
        if isinstance(s, ast.If):
            a = self.stmts(list(s.body) + rest, state)
            b = self.stmts(list(s.orelse) + rest, state)
            return f"if {self.cond(s.test)} then\n{textwrap.indent(a, '  ')}\nelse\n{textwrap.indent(b, '  ')}"
        self.refuse(s)


FRAME_PARAMS = {
    "DataFrame": [("frm_num", "N"), ("re_tx", "N"), ("ack_num", "N"), ("ezsp_frame", "payload")],
    "AckFrame": [("res", "N"), ("ncp_ready", "N"), ("ack_num", "N")],
    "NakFrame": [("res", "N"), ("ncp_ready", "N"), ("ack_num", "N")],
    "RstFrame": [],
    "RStackFrame": [("version", "N"), ("reset_code", "N")],
    "ErrorFrame": [("version", "N"), ("reset_code", "N")],
}
FRAME_CTOR = {"DataFrame": "Data", "AckFrame": "Ack", "NakFrame": "Nak", "RstFrame": "Rst", "RStackFrame": "Rstack", "ErrorFrame": "Error"}


def _method(cls, name, params, consts, known):
    fn = cls.__dict__[name]
    node = _fn_ast(fn)
    where = f"{cls.__name__}.{name} (source)"
    got = [a.arg for a in node.args.args if a.arg != "self"]
    coqty = {"N": "N", "payload": "list N"}
    if got != ["frame"]:
        params = [(p, "N") for p in got]
    tr = MethodTr(where, consts, dict(params), known)
    state = [c for _, c, _ in ASH_STATE] + ["eff"]
    term = tr.stmts([tr.norm(s) for s in node.body], state)
    args = " ".join(f"({p} : {coqty[t]})" for p, t in params)
    sty = "N * N * bool * N * list py_eff"
    return (f"(* from the source of {cls.__name__}.{name} *)\n"
            f"Definition py_{name}_k (s : {sty}) {args} : {sty} :=\n"
            f"  let '({', '.join(state)}) := s in\n{textwrap.indent(term, '  ')}.\n\n")


def gen_ash_rx_fn() -> str:
    import bellows.ash as ash

    consts = {f"Reserved.{m.name}": int(m) for m in ash.Reserved}
    P = ash.AshProtocol
    out = ["(* GENERATED by harness/pysrc.py from the SOURCE TEXT of AshProtocol's receive-side methods -- do not edit *)\n"
           "From Coq Require Import NArith Arith List Bool.\nImport ListNotations.\nRequire Import BV.gen.GenAsh BV.model.AshCodec.\nOpen Scope N_scope.\n\n"
           "(* effects: calls made by the methods, in order *)\n"
           "Inductive cancel_kind := CNotAcked | CFailure (code : N).\n"
           "Inductive py_eff :=\n| PWrite (f : frame) | PWriteCancel (f : frame)      (* self._write_frame(frame [, prefix=(CANCEL,)]) *)\n"
           "| PUp (payload : list N) | PResetUp (code : N)          (* self._ezsp_protocol.data_received / reset_received *)\n"
           "| PAckTimeoutInit                                       (* self._change_ack_timeout(T_RX_ACK_INIT) *)\n"
           "| PCancelPending (k : cancel_kind)                      (* self._cancel_pending_data_frames(NotAcked(..) | NcpFailure(code=..)) *)\n"
           "| PHandleAck (ack_num : N).                             (* self._handle_ack(frame) *)\n"
           f"(* state: (_rx_seq, _tx_seq, _ncp_state is FAILED, _ncp_reset_code with None = {NONE_CODE}, effects so far) *)\n\n"]
    known = []
    order = [("_enter_failed_state", None), ("data_frame_received", "DataFrame"), ("ack_frame_received", "AckFrame"),
             ("nak_frame_received", "NakFrame"), ("rst_frame_received", "RstFrame"), ("rstack_frame_received", "RStackFrame"),
             ("error_frame_received", "ErrorFrame")]
    for name, fcls in order:
        out.append(_method(P, name, FRAME_PARAMS[fcls] if fcls else [], consts, known))
        known.append(name)
    # frame_received: the isinstance chain
    node = _fn_ast(P.frame_received)
    body = [s for s in node.body if not (isinstance(s, ast.Expr) and (isinstance(s.value, ast.Constant) or ast.unparse(s.value).startswith("_LOGGER.")))]
    if len(body) != 1 or not isinstance(body[0], ast.If):
        raise GenError("AshProtocol.frame_received", "expected a single if/elif chain")
    branches = []
    cur = body[0]
    while True:
        t = cur.test
        if not (isinstance(t, ast.Call) and ast.unparse(t.func) == "isinstance" and ast.unparse(t.args[0]) == "frame"):
            raise GenError("AshProtocol.frame_received", f"unexpected test `{ast.unparse(t)}`")
        fcls = ast.unparse(t.args[1])
        calls = []
        for s in cur.body:
            if not (isinstance(s, ast.Expr) and isinstance(s.value, ast.Call) and ast.unparse(s.value.args[0] if s.value.args else s.value) == "frame"
                    and ast.unparse(s.value.func).startswith("self.")):
                raise GenError("AshProtocol.frame_received", f"unexpected statement `{ast.unparse(s)}`")
            calls.append(ast.unparse(s.value.func)[5:])
        branches.append((fcls, calls))
        if len(cur.orelse) == 1 and isinstance(cur.orelse[0], ast.If):
            cur = cur.orelse[0]
        else:
            if not (len(cur.orelse) == 1 and isinstance(cur.orelse[0], ast.Raise)):
                raise GenError("AshProtocol.frame_received", "the chain must end in `raise`")
            break
    if sorted(b[0] for b in branches) != sorted(FRAME_CTOR):
        raise GenError("AshProtocol.frame_received", f"classes handled: {[b[0] for b in branches]}")
    # isinstance order matters only if one class derives from another
    classes = {n: getattr(ash, n) for n in FRAME_CTOR}
    for i, (a, _) in enumerate(branches):
        for b, _ in branches[i + 1:]:
            if issubclass(classes[b], classes[a]):
                raise GenError("AshProtocol.frame_received", f"{b} is a subclass of {a}, which is tested first")
    lines = []
    for fcls, calls in branches:
        ps = FRAME_PARAMS[fcls]
        pat = FRAME_CTOR[fcls] + "".join(" " + p for p, _ in ps)
        term = "s"
        for c in calls:
            if c == "_handle_ack":
                term = f"(let '(rx_seq, tx_seq, failed, code, eff) := {term} in (rx_seq, tx_seq, failed, code, eff ++ [PHandleAck ack_num]))"
            elif c in known:
                term = f"(py_{c}_k {term}{''.join(' ' + p for p, _ in ps)})"
            else:
                raise GenError("AshProtocol.frame_received", f"call of unknown method {c}")
        lines.append(f"  | {pat} => {term}")
    out.append("(* from the source of AshProtocol.frame_received: the isinstance chain *)\n"
               "Definition py_frame_received (st : N * N * bool * N) (f : frame) : N * N * bool * N * list py_eff :=\n"
               "  let '(rx0, tx0, failed0, code0) := st in\n  let s := (rx0, tx0, failed0, code0, @nil py_eff) in\n  match f with\n"
               + "\n".join(lines) + "\n  end.\n")
    # _handle_ack and _cancel_pending_data_frames are pinned (dict / future operations)
    pins = [("AshProtocol._handle_ack", _norm_body(P._handle_ack), """
for ack_num_offset in range(-TX_K, 0):
    ack_num = (frame.ack_num + ack_num_offset) % 8
    fut = self._pending_data_frames.get(ack_num)
    if fut is None or fut.done():
        continue
    self._pending_data_frames[ack_num].set_result(True)"""),
            ("AshProtocol._cancel_pending_data_frames", _norm_body(P._cancel_pending_data_frames), """
for fut in self._pending_data_frames.values():
    if not fut.done():
        fut.set_exception(exc)""")]
    for nm, got, exp in pins:
        if _dump(got) != _dump(exp):
            raise GenError(nm, "source differs from the form the model mirrors:\n" + got)
    return "".join(out)


# ==================================================================================================
# Gateway (bellows/uart.py) and the EZSP facade's failure handling (bellows/ezsp/__init__.py)
# ==================================================================================================
GW_STATE = ["r_attr", "r_fut", "s_attr", "s_fut", "t_open", "running", "has_gw", "app_cb", "eff"]
GW_FUT = {"_reset_future": ("r_attr", "r_fut"), "_startup_reset_future": ("s_attr", "s_fut")}


class GwTr:
    """synchronous methods of Gateway / EZSP over one joint state; futures are (attribute is not None, state of the
    future object); `_connection_done_future` (threaded mode bookkeeping) and log calls are skipped"""

    def __init__(self, cls_name, where, params, methods):
        self.cls, self.where, self.params, self.methods = cls_name, where, params, methods

    def refuse(self, node, why="unsupported construct"):
        raise GenError(self.where, f"{why}: `{ast.unparse(node)[:90]}`")

    def fut_of(self, e):
        if isinstance(e, ast.Attribute) and isinstance(e.value, ast.Name) and e.value.id == "self" and e.attr in GW_FUT and self.cls == "Gateway":
            return GW_FUT[e.attr]
        return None

    def cond(self, t):
        src = ast.unparse(t)
        if isinstance(t, ast.BoolOp) and isinstance(t.op, ast.And):
            return "(" + " && ".join(self.cond(v) for v in t.values) + ")"
        if isinstance(t, ast.UnaryOp) and isinstance(t.op, ast.Not):
            return f"(negb {self.cond(t.operand)})"
        f = self.fut_of(t)
        if f:
            return f[0]                                   # a Future object is truthy: the attribute is not None
        if isinstance(t, ast.Call) and isinstance(t.func, ast.Attribute) and t.func.attr == "done" and not t.args:
            f = self.fut_of(t.func.value)
            if f:
                return f"(negb (is_pend {f[1]}))"
        if isinstance(t, ast.Compare) and len(t.ops) == 1 and isinstance(t.comparators[0], ast.Constant) and t.comparators[0].value is None:
            f = self.fut_of(t.left)
            if f and isinstance(t.ops[0], ast.IsNot):
                return f[0]
            if f and isinstance(t.ops[0], ast.Is):
                return f"(negb {f[0]})"
            if src == "exc is None" and "has_exc" in self.params:
                return "(negb has_exc)"
        if src == "code is not t.NcpResetCode.RESET_SOFTWARE" and "code" in self.params:
            return "(negb (code =? RESET_SOFTWARE))"
        if src == "len(self._callbacks) > 1" and self.cls == "EZSP":
            return "app_cb"
        if src == "self._gw" and self.cls == "EZSP":
            return "has_gw"
        self.refuse(t, "condition")

    def ghost(self, s):
        src = ast.unparse(s)
        return "_connection_done_future" in src or src.startswith(("LOGGER.", "_LOGGER.")) or src.startswith("reason = ")

    def stmts(self, body):
        done = "(" + ", ".join(GW_STATE) + ")"
        if not body:
            return done
        s, rest = body[0], body[1:]
        if isinstance(s, ast.Expr) and isinstance(s.value, ast.Constant):
            return self.stmts(rest)
        if self.ghost(s):
            return self.stmts(rest)
        if isinstance(s, ast.Return) and s.value is None:
            return done
        if isinstance(s, ast.If):
            a = self.stmts(list(s.body) + rest)
            b = self.stmts(list(s.orelse) + rest)
            return f"if {self.cond(s.test)} then\n{textwrap.indent(a, '  ')}\nelse\n{textwrap.indent(b, '  ')}"
        if isinstance(s, ast.Assign) and len(s.targets) == 1:
            f = self.fut_of(s.targets[0])
            if f and isinstance(s.value, ast.Constant) and s.value.value is None:
                return f"let {f[0]} := false in\n{self.stmts(rest)}"
            if ast.unparse(s) == "self._gw = None" and self.cls == "EZSP":
                return f"let has_gw := false in\n{self.stmts(rest)}"
            self.refuse(s, "assignment")
        if isinstance(s, ast.Expr) and isinstance(s.value, ast.Call):
            c = s.value
            fn = ast.unparse(c.func)
            if isinstance(c.func, ast.Attribute) and c.func.attr in ("set_result", "set_exception"):
                f = self.fut_of(c.func.value)
                if f and c.func.attr == "set_result" and ast.unparse(c.args[0]) == "True":
                    return f"let {f[1]} := FOk in\n{self.stmts(rest)}"
                if f and c.func.attr == "set_exception" and ast.unparse(c.args[0]) == "reason":
                    return f"let {f[1]} := FExn in\n{self.stmts(rest)}"
            call = None
            if self.cls == "Gateway":
                if fn == "self._application.enter_failed_state" and len(c.args) == 1:
                    call = ("EZSP_enter_failed_state", "PAppFailed")
                elif fn == "self._application.connection_lost" and ast.unparse(c.args[0]) == "exc":
                    call = ("EZSP_connection_lost", "PAppFailed")
                elif fn == "self.connection_lost" and len(c.args) == 1 and isinstance(c.args[0], ast.Call) \
                        and ast.unparse(c.args[0].func) == "ConnectionResetError":
                    return (f"let '({', '.join(GW_STATE)}) := py_Gateway_connection_lost_k ({', '.join(GW_STATE)}) true in\n"
                            f"{self.stmts(rest)}")
                elif fn == "self._transport.close" and not c.args:
                    return f"let eff := eff ++ [PTransportClose] in\nlet t_open := false in\n{self.stmts(rest)}"
            else:
                if fn == "self.enter_failed_state" and len(c.args) == 1:
                    call = ("EZSP_enter_failed_state", None)
                elif fn == "self.close" and not c.args:
                    call = ("EZSP_close", None)
                elif fn == "self.stop_ezsp" and not c.args:
                    call = ("EZSP_stop_ezsp", None)
                elif fn == "self._gw.close" and not c.args:
                    call = ("Gateway_close", None)
                elif fn == "self._ezsp_event.clear" and not c.args:
                    return f"let running := false in\n{self.stmts(rest)}"
                elif fn == "self.handle_callback" and ast.unparse(c.args[0]) == "'_reset_controller_application'":
                    return f"let eff := eff ++ [PResetRequest] in\n{self.stmts(rest)}"
            if call:
                name, pre = call
                if name not in self.methods:
                    self.refuse(s, f"call of {name} before it is translated")
                out = ""
                if pre:
                    out += f"let eff := eff ++ [{pre}] in\n"
                return (out + f"let '({', '.join(GW_STATE)}) := py_{name}_k ({', '.join(GW_STATE)}) in\n{self.stmts(rest)}")
        self.refuse(s)


def gen_gateway_fn() -> str:
    import bellows.ezsp as E
    import bellows.uart as U
    out = ["(* GENERATED by harness/pysrc.py from the SOURCE TEXT of bellows/uart.py (Gateway) and of the failure handling of\n"
           "   bellows/ezsp/__init__.py (EZSP) -- do not edit *)\n"
           "From Coq Require Import NArith List Bool.\nImport ListNotations.\nRequire Import BV.gen.GenAsh BV.model.Gateway.\nOpen Scope N_scope.\n\n"
           "Inductive gw_eff := PAppFailed | PResetRequest | PTransportClose.\n"
           "(* state: (_reset_future is not None, its future; _startup_reset_future is not None, its future; transport open;\n"
           "   _ezsp_event set; _gw is not None; an application callback is registered; effects so far) *)\n"
           "Definition gw_state := (bool * fstate * bool * fstate * bool * bool * bool * bool * list gw_eff)%type.\n\n"]
    plan = [("Gateway", U.Gateway, "close", []), ("EZSP", E.EZSP, "stop_ezsp", []), ("EZSP", E.EZSP, "close", []),
            ("EZSP", E.EZSP, "enter_failed_state", ["error"]), ("EZSP", E.EZSP, "connection_lost", ["exc"]),
            ("Gateway", U.Gateway, "reset_received", ["code"]), ("Gateway", U.Gateway, "error_received", ["code"]),
            ("Gateway", U.Gateway, "connection_lost", ["exc"]), ("Gateway", U.Gateway, "eof_received", []),
            ("Gateway", U.Gateway, "_reset_cleanup", ["future"])]
    methods = []
    for cname, cls, name, want in plan:
        fn = cls.__dict__[name]
        node = _fn_ast(fn)
        got = [a.arg for a in node.args.args if a.arg != "self"]
        if got != want:
            raise GenError(f"{cname}.{name}", f"parameters {got}, expected {want}")
        params = {}
        sig = ""
        if cname == "Gateway" and name in ("reset_received", "error_received"):
            params["code"] = "N"
            sig = " (code : N)"
        if cname == "Gateway" and name == "connection_lost":
            params["has_exc"] = "bool"
            sig = " (has_exc : bool)"
        tr = GwTr(cname, f"{cname}.{name} (source)", params, methods)
        term = tr.stmts(list(node.body))
        out.append(f"(* from the source of {cname}.{name} *)\n"
                   f"Definition py_{cname}_{name}_k (s : gw_state){sig} : gw_state :=\n"
                   f"  let '({', '.join(GW_STATE)}) := s in\n{textwrap.indent(term, '  ')}.\n\n")
        methods.append(f"{cname}_{name}")
    return "".join(out)


# ==================================================================================================
# Multicast.subscribe / unsubscribe (bellows/multicast.py): coroutines with ONE await -- the awaited result is a
# parameter of the emitted function (an answer: status | the call raised)
# ==================================================================================================
class McTr:
    """host side of one subscribe / unsubscribe call.  State variables: subs (the _multicast dict as an association
    list group -> index), avail (the _available set as a list), entry_id / entry_ep (fields of the local `entry`),
    idx, status.  Result: (subs, avail, ret, write) with write = Some (idx, multicastId, endpoint) if the table write
    was issued."""

    OUT = "(subs, avail, {ret}, write)"

    def __init__(self, where):
        self.where = where

    def refuse(self, node, why="unsupported construct"):
        raise GenError(self.where, f"{why}: `{ast.unparse(node)[:100]}`")

    def ret(self, value):
        v = ast.unparse(value)
        if v == "t.sl_Status.OK":
            return self.OUT.format(ret="RStatus sl_OK")
        if v == "t.sl_Status.INVALID_INDEX":
            return self.OUT.format(ret="RStatus INVALID_INDEX")
        if v == "status[0]":
            return self.OUT.format(ret="RStatus status")
        self.refuse(value, "return value")

    def skip(self, s):
        src = ast.unparse(s)
        return src.startswith("LOGGER.") or (isinstance(s, ast.Expr) and isinstance(s.value, ast.Constant))

    def stmts(self, body):
        if not body:
            raise GenError(self.where, "control reaches the end of the coroutine without a return")
        s, rest = body[0], body[1:]
        src = ast.unparse(s)
        if self.skip(s):
            return self.stmts(rest)
        if isinstance(s, ast.Return):
            return self.ret(s.value)
        if isinstance(s, ast.Raise) and s.exc is None:
            return self.OUT.format(ret="RRaised")
        # if group_id in self._multicast: ...
        if isinstance(s, ast.If) and ast.unparse(s.test) == "group_id in self._multicast" and not s.orelse:
            return (f"match lookup group_id subs with\n| Some _ =>\n{textwrap.indent(self.stmts(list(s.body)), '    ')}\n"
                    f"| None =>\n{textwrap.indent(self.stmts(rest), '    ')}\nend")
        # try: idx = self._available.pop()  except KeyError: ...
        if isinstance(s, ast.Try) and len(s.body) == 1 and ast.unparse(s.body[0]) == "idx = self._available.pop()" \
                and len(s.handlers) == 1 and ast.unparse(s.handlers[0].type) == "KeyError" and not s.orelse and not s.finalbody:
            return (f"match pick choice avail with\n| None =>\n{textwrap.indent(self.stmts(list(s.handlers[0].body)), '    ')}\n"
                    f"| Some idx =>\n    let avail := remove_idx idx avail in\n{textwrap.indent(self.stmts(rest), '    ')}\nend")
        # try: entry, idx = self._multicast[group_id]  except KeyError: ...
        if isinstance(s, ast.Try) and len(s.body) == 1 and _dump(ast.unparse(s.body[0])) == _dump("entry, idx = self._multicast[group_id]") \
                and len(s.handlers) == 1 and ast.unparse(s.handlers[0].type) == "KeyError" and not s.orelse and not s.finalbody:
            return (f"match lookup group_id subs with\n| None =>\n{textwrap.indent(self.stmts(list(s.handlers[0].body)), '    ')}\n"
                    f"| Some idx =>\n    let entry_id := group_id in\n{textwrap.indent(self.stmts(rest), '    ')}\nend")
        if src == "entry = t.EmberMulticastTableEntry()":
            return self.stmts(rest)
        m = {"entry.endpoint = t.uint8_t(1)": "let entry_ep := 1 in", "entry.endpoint = t.uint8_t(0)": "let entry_ep := 0 in",
             "entry.multicastId = t.EmberMulticastId(group_id)": "let entry_id := group_id in",
             "entry.networkIndex = t.uint8_t(0)": None,
             "self._available.add(idx)": "let avail := set_add idx avail in",
             "self._multicast[entry.multicastId] = (entry, idx)": "let subs := dict_set entry_id idx subs in",
             "self._multicast.pop(group_id)": "let subs := dict_del group_id subs in"}
        if src in m:
            return (m[src] + "\n" if m[src] else "") + self.stmts(rest)
        # the await, guarded or not
        AWAIT = "status = await self._ezsp.setMulticastTableEntry(idx, entry)"
        if isinstance(s, ast.Try) and len(s.body) == 1 and ast.unparse(s.body[0]) == AWAIT and len(s.handlers) == 1 \
                and ast.unparse(s.handlers[0].type) == "BaseException" and not s.orelse and not s.finalbody:
            on_exc = self.stmts(list(s.handlers[0].body))
            return (f"let write := Some (idx, entry_id, entry_ep) in\nmatch a with\n| Ans status =>\n{textwrap.indent(self.stmts(rest), '    ')}\n"
                    f"| _ =>\n{textwrap.indent(on_exc, '    ')}\nend")
        if src == AWAIT:
            return (f"let write := Some (idx, entry_id, entry_ep) in\nmatch a with\n| Ans status =>\n{textwrap.indent(self.stmts(rest), '    ')}\n"
                    f"| _ => {self.OUT.format(ret='RRaised')}\nend")
        if isinstance(s, ast.If) and ast.unparse(s.test) == "t.sl_Status.from_ember_status(status[0]) != t.sl_Status.OK" and not s.orelse:
            return (f"if negb (status_ok status) then\n{textwrap.indent(self.stmts(list(s.body)), '  ')}\nelse\n"
                    f"{textwrap.indent(self.stmts(rest), '  ')}")
        self.refuse(s)


def gen_multicast_fn() -> str:
    import bellows.multicast as M
    out = ["(* GENERATED by harness/pysrc.py from the SOURCE TEXT of bellows/multicast.py -- do not edit *)\n"
           "From Coq Require Import NArith List Bool.\nImport ListNotations.\nRequire Import BV.gen.GenStatus BV.model.Status BV.model.Multicast.\nOpen Scope N_scope.\n\n"
           "(* one call on the host side: the dict / set before, the element set.pop() returns (subscribe), the outcome of the\n"
           "   awaited table write; result: dict, set, what the call reports, the write issued (index, multicastId, endpoint) *)\n\n"]
    for name, extra in (("subscribe", " (choice : N)"), ("unsubscribe", "")):
        fn = M.Multicast.__dict__[name]
        node = _fn_ast_async(fn)
        got = [a.arg for a in node.args.args if a.arg != "self"]
        if got != ["group_id"]:
            raise GenError(f"Multicast.{name}", f"parameters {got}")
        tr = McTr(f"Multicast.{name} (source)")
        term = tr.stmts(list(node.body))
        out.append(f"(* from the source of Multicast.{name} *)\n"
                   f"Definition py_{name} (subs : list (N * N)) (avail : list N) (group_id : N){extra} (a : answer)\n"
                   f"  : list (N * N) * list N * ret * option (N * N * N) :=\n"
                   f"  let write := @None (N * N * N) in\n{textwrap.indent(term, '  ')}.\n\n")
    return "".join(out)


def _fn_ast_async(fn):
    src = textwrap.dedent(inspect.getsource(fn))
    node = ast.parse(src).body[0]
    if not isinstance(node, ast.AsyncFunctionDef):
        raise GenError(getattr(fn, "__qualname__", str(fn)), "not a coroutine function")
    return node


# ==================================================================================================
# ControllerApplication._watchdog_feed / _get_free_buffers: awaits in sequence inside try/except/else;
# each awaited keep-alive command's outcome is a parameter (a1 for the first, a2 for the free-buffer read)
# ==================================================================================================
class WdTr:
    """state: failures (self._watchdog_failures), feeds (self._watchdog_feed_counter); cmds: keep-alive commands issued,
    in order.  An await `k` is translated as: append the command; if its answer is a raising one (timeout / EZSP error)
    continue with the except handler, otherwise with the rest of the try body; the counter bookkeeping
    (self.state.counters ...) carries no control flow and is skipped."""

    def __init__(self, where):
        self.where = where
        self.nawait = 0

    def refuse(self, node, why="unsupported construct"):
        raise GenError(self.where, f"{why}: `{ast.unparse(node)[:100]}`")

    GHOST = ("counters = self.state.counters[COUNTERS_EZSP]", "counters.reset()", "LOGGER.", "cnt = counters[COUNTER_EZSP_BUFFERS]",
             "cnt._raw_value = free_buffers", "cnt._last_reset_value = 0", "self.state.counters[COUNTERS_CTRL][COUNTER_WATCHDOG].increment()")

    def ghost(self, s):
        src = ast.unparse(s)
        if isinstance(s, ast.Expr) and isinstance(s.value, ast.Constant):
            return True
        if isinstance(s, ast.For) and ast.unparse(s.iter) == "current_counters.items()":
            return True
        if isinstance(s, ast.If) and ast.unparse(s.test) in ("remainder == 0", "free_buffers is not None") \
                and all(self.ghost(x) for x in s.body) and not s.orelse:
            return True
        return any(src.startswith(g) for g in self.GHOST)

    def body(self, stmts, handler, orelse):
        """stmts inside the try; handler / orelse are Gallina terms for `except` and `else`"""
        if not stmts:
            return orelse
        s, rest = stmts[0], stmts[1:]
        src = ast.unparse(s)
        if self.ghost(s):
            return self.body(rest, handler, orelse)
        if isinstance(s, ast.If) and src.startswith("if self._ezsp.ezsp_version == 4:"):
            a = self.body(list(s.body) + rest, handler, orelse)
            b = self.body(list(s.orelse) + rest, handler, orelse)
            return f"if v =? 4 then\n{textwrap.indent(a, '  ')}\nelse\n{textwrap.indent(b, '  ')}"
        if src == "self._watchdog_feed_counter += 1":
            return f"let feeds := feeds + 1 in\n{self.body(rest, handler, orelse)}"
        if _dump(src) == _dump("remainder = self._watchdog_feed_counter % EZSP_COUNTERS_CLEAR_IN_WATCHDOG_PERIODS"):
            return f"let remainder := feeds mod clear_period in\n{self.body(rest, handler, orelse)}"
        if isinstance(s, ast.If) and ast.unparse(s.test) == "remainder > 0" and len(s.body) == 1 and len(s.orelse) == 1:
            a = self.body(list(s.body) + rest, handler, orelse)
            b = self.body(list(s.orelse) + rest, handler, orelse)
            return f"if 0 <? remainder then\n{textwrap.indent(a, '  ')}\nelse\n{textwrap.indent(b, '  ')}"
        aw = {"await self._ezsp.nop()": "KNop", "current_counters = await self._ezsp.read_counters()": "KReadCounters",
              "current_counters = await self._ezsp.read_and_clear_counters()": "KReadAndClearCounters",
              "free_buffers = await self._get_free_buffers()": "KGetValue"}
        if src in aw:
            k = aw[src]
            ans = "a2" if k == "KGetValue" else "a1"
            return (f"let cmds := cmds ++ [{k}] in\nif ans_raises {ans} then\n{textwrap.indent(handler, '  ')}\nelse\n"
                    f"{textwrap.indent(self.body(rest, handler, orelse), '  ')}")
        self.refuse(s)

    def handler(self, stmts):
        if not stmts:
            return "(failures, feeds, false, cmds)"
        s, rest = stmts[0], stmts[1:]
        src = ast.unparse(s)
        if self.ghost(s):
            return self.handler(rest)
        if src == "self._watchdog_failures += 1":
            return f"let failures := failures + 1 in\n{self.handler(rest)}"
        if isinstance(s, ast.If) and ast.unparse(s.test) == "self._watchdog_failures > MAX_WATCHDOG_FAILURES" and not s.orelse:
            inner = [x for x in s.body if not self.ghost(x)]
            if len(inner) != 1 or not (isinstance(inner[0], ast.Raise) and inner[0].exc is None):
                self.refuse(s, "body of the give-up test")
            return (f"if max_failures <? failures then (failures, feeds, true, cmds)\nelse\n{textwrap.indent(self.handler(rest), '  ')}")
        self.refuse(s)


def gen_watchdog_fn() -> str:
    import bellows.zigbee.application as A
    C = A.ControllerApplication
    node = _fn_ast_async(C.__dict__["_watchdog_feed"])
    where = "ControllerApplication._watchdog_feed (source)"
    body = [s for s in _StripLogs()._clean(node.body) if not isinstance(s, ast.Pass)]      # docstring and log calls carry no behaviour
    if len(body) != 1 or not isinstance(body[0], ast.Try) or body[0].finalbody or len(body[0].handlers) != 1:
        raise GenError(where, "expected a single try/except/else")
    t = body[0]
    if _dump(ast.unparse(t.handlers[0].type)) != _dump("(asyncio.TimeoutError, EzspError)"):
        raise GenError(where, f"exceptions caught: {ast.unparse(t.handlers[0].type)}")
    if [ast.unparse(x) for x in t.orelse] != ["self._watchdog_failures = 0"]:
        raise GenError(where, "else branch is not `self._watchdog_failures = 0`")
    tr = WdTr(where)
    handler = tr.handler(list(t.handlers[0].body))
    term = tr.body(list(t.body), handler, "let failures := 0 in\n(failures, feeds, false, cmds)")
    # _get_free_buffers: one getValue; a status other than success gives None (no exception)
    gfb = _norm_body(C.__dict__["_get_free_buffers"]) if False else None
    fn = C.__dict__["_get_free_buffers"]
    nb = "\n".join(ast.unparse(s) for s in _fn_ast_async(fn).body if not (isinstance(s, ast.Expr) and isinstance(s.value, ast.Constant)))
    want = """
(status, value) = await self._ezsp.getValue(valueId=t.EzspValueId.VALUE_FREE_BUFFERS)
if status != t.EzspStatus.SUCCESS:
    return None
buffers = int.from_bytes(value, byteorder='little')
LOGGER.debug('Free buffers status %s, value: %s', status, buffers)
return buffers"""
    if _dump(nb) != _dump(want):
        raise GenError("ControllerApplication._get_free_buffers", "source differs from the form the model mirrors:\n" + nb)
    return ("(* GENERATED by harness/pysrc.py from the SOURCE TEXT of ControllerApplication._watchdog_feed -- do not edit *)\n"
            "From Coq Require Import NArith List Bool.\nImport ListNotations.\nRequire Import BV.model.Watchdog.\nOpen Scope N_scope.\n\n"
            "(* an awaited keep-alive command raises (asyncio.TimeoutError / EzspError) or returns; _get_free_buffers returns\n"
            "   None for a status other than success, which is not an exception *)\n"
            "Definition ans_raises (a : ans) : bool := match a with ATimeout | AEzspError => true | _ => false end.\n\n"
            "(* from the source of ControllerApplication._watchdog_feed: (failures, feed counter) before, protocol version, the\n"
            "   answers to the first keep-alive command and to the free-buffer read; result: failures, feed counter, whether the\n"
            "   feed re-raised, the keep-alive commands issued *)\n"
            "Definition py_watchdog_feed (max_failures clear_period : N) (v : N) (failures feeds : N) (a1 a2 : ans)\n"
            "  : N * N * bool * list kcmd :=\n  let cmds := @nil kcmd in\n" + textwrap.indent(term, "  ") + ".\n")


# ==================================================================================================
# EZSP bring-up (bellows/ezsp/__init__.py): startup_reset / reset / version / _switch_protocol_version / _command /
# start_ezsp / stop_ezsp / connect / __init__.  Coroutines: the outcome of every await is an oracle parameter of the
# emitted function (the value a command returns -- for `version` the protocol version the NCP reports --, a time-out,
# another exception); the effects are the gateway reset handshake, the wait for a spontaneous start-up reset, the
# construction of a protocol handler object and every command (name, argument, VERSION of the handler object whose
# bound method was called).  A method may raise: every emitted function returns (state, ORet value | OExn exception)
# and a call site continues with the rest of the block or with the enclosing `except` / the caller.
#
# Supported subset (anything else raises GenError):
#   statements   docstrings / LOGGER calls (dropped); `self._ezsp_version = e`; `<local> = e`;
#                `self._protocol = self._BY_VERSION[e](self.handle_callback, self._gw)` (dict lookup: KeyError);
#                `self._protocol = <module>.<Class>(self.handle_callback, self._gw)`; `self._ezsp_event.set()/.clear()`;
#                `command = getattr(self._protocol, name)`; `return await command(*args, **kwargs)`;
#                `[x, _, _ =] await self._command("<name>", <key>=e)`; `[await] self.<translated method>(e, ...)`;
#                `await self._gw.reset()`; `await self._gw.wait_for_startup_reset()`;
#                `async with asyncio_timeout(<int constant>): ...`; `try: ... except asyncio.TimeoutError: ... [else: ...]`;
#                `if/elif/else`; `raise EzspError(...)`; `pass`; `return`
#   expressions  int literals, locals, int constants of the module (EZSP_LATEST, v4.EZSPv4.VERSION: emitted as named
#                definitions with the live value), `self._ezsp_version`, properties of EZSP whose getter is a single
#                `return e` (inlined), `self._ezsp_event.is_set()`, == != < <= > >=, `[not] in self._BY_VERSION`,
#                not / and / or; `self.is_tcp_serial_port` is a parameter (it depends on the device path only)
# ==================================================================================================
BU_STATE = ["ezsp_v", "handler", "running", "eff"]
BU_S = ", ".join(BU_STATE)
BU_NO_HANDLER = 0       # self._protocol is None (no protocol version 0 exists; checked)
BU_EXN = {"asyncio.TimeoutError": "XTimeout", "EzspError": "XEzspError"}


class BuTr:
    """one method of EZSP over the state (self._ezsp_version, VERSION of self._protocol, self._ezsp_event is set,
    effects so far).  `sigs` describes the methods translated so far: name -> (is_async, [(param, type)], [oracle kinds])"""

    def __init__(self, where, ctx, sigs, is_async, extra):
        self.where, self.ctx, self.sigs, self.is_async, self.extra = where, ctx, sigs, is_async, extra
        self.sites = {}          # id(await node) -> oracle names
        self.oracles = []        # (name, kind) in source order
        self.timeout = None

    def refuse(self, node, why="unsupported construct"):
        src = ast.unparse(node) if isinstance(node, ast.AST) else str(node)
        raise GenError(self.where, f"{why}: `{src[:100]}`")

    # ---- await sites -> oracle parameters (by source position, not by visiting order of the translation) ----------
    def await_kinds(self, call):
        if not isinstance(call, ast.Call):
            self.refuse(call, "await of something that is not a call")
        f = ast.unparse(call.func)
        if f == "self._gw.reset":
            return ["r"]
        if f == "self._gw.wait_for_startup_reset":
            return ["w"]
        if f == "command":
            return ["a"]
        if f.startswith("self.") and f[5:] in self.sigs:
            if not self.sigs[f[5:]][0]:
                self.refuse(call, "await of a synchronous method")
            return list(self.sigs[f[5:]][2])
        self.refuse(call, "await with no modelled outcome")

    def scan_awaits(self, node):
        tr = self
        count = {}

        class V(ast.NodeVisitor):
            def visit_Await(s, n):
                names = []
                for k in tr.await_kinds(n.value):
                    count[k] = count.get(k, 0) + 1
                    names.append(f"{k}{count[k]}")
                    tr.oracles.append((names[-1], k))
                tr.sites[id(n)] = names
                s.generic_visit(n)
        V().visit(node)

    # ---- expressions ------------------------------------------------------------------------------------------------
    def const(self, e):
        """an int constant of the module, by its dotted name; emitted as a named definition"""
        dotted = ast.unparse(e)
        obj = self.ctx["module"]
        try:
            for part in dotted.split("."):
                obj = getattr(obj, part)
        except AttributeError:
            self.refuse(e, "unknown name")
        if isinstance(obj, bool) or not isinstance(obj, int) or obj < 0:
            self.refuse(e, "module constant that is not a non-negative int")
        name = "py_" + dotted.replace(".", "_")
        self.ctx["consts"][name] = int(obj)
        return name

    def prop(self, e, env, seen=()):
        """self.<property>: the getter's `return e`, inlined"""
        cls = self.ctx["cls"]
        p = cls.__dict__.get(e.attr)
        if not isinstance(p, property) or e.attr in seen:
            return None
        node = _fn_ast(p.fget)
        body = _StripLogs().visit(node).body
        if len(body) != 1 or not isinstance(body[0], ast.Return) or body[0].value is None:
            raise GenError(f"EZSP.{e.attr} (source)", "the getter is not a single `return <expression>`")
        save = self.where
        self.where = f"EZSP.{e.attr} (source)"
        out = self.ex(body[0].value, {}, seen + (e.attr,))
        self.where = save
        return out

    def ex(self, e, env, seen=()):
        """(term, type) with type in N | bool | string"""
        if isinstance(e, ast.Constant):
            if isinstance(e.value, bool):
                return ("true" if e.value else "false"), "bool"
            if isinstance(e.value, int) and e.value >= 0:
                return str(e.value), "N"
            if isinstance(e.value, str) and '"' not in e.value:
                return f'"{e.value}"%string', "string"
            self.refuse(e, "constant")
        if isinstance(e, ast.Name):
            if e.id in env:
                if env[e.id] not in ("N", "bool", "string"):
                    self.refuse(e, f"use of a value that is not modelled ({env[e.id]})")
                return f"l_{e.id}", env[e.id]
            return self.const(e), "N"
        if isinstance(e, ast.Attribute):
            src = ast.unparse(e)
            if src == "self._ezsp_version":
                return "ezsp_v", "N"
            if src == "self.is_tcp_serial_port" and "tcp" in self.extra:
                return "tcp", "bool"
            if isinstance(e.value, ast.Name) and e.value.id == "self":
                p = self.prop(e, env, seen)
                if p is None:
                    self.refuse(e, "attribute of self that is not modelled")
                return p
            return self.const(e), "N"
        if isinstance(e, ast.Call) and ast.unparse(e) == "self._ezsp_event.is_set()":
            return "running", "bool"
        if isinstance(e, ast.UnaryOp) and isinstance(e.op, ast.Not):
            return f"(negb {self.cond(e.operand, env, seen)})", "bool"
        if isinstance(e, ast.BoolOp):
            op = " && " if isinstance(e.op, ast.And) else " || "
            return "(" + op.join(self.cond(v, env, seen) for v in e.values) + ")", "bool"
        if isinstance(e, ast.Compare):
            if len(e.ops) != 1:
                self.refuse(e, "chained comparison")
            op, rhs = e.ops[0], e.comparators[0]
            if isinstance(op, (ast.In, ast.NotIn)):
                if ast.unparse(rhs) != "self._BY_VERSION":
                    self.refuse(e, "membership in something other than self._BY_VERSION")
                t = f"(py_in {self.num(e.left, env, seen)} py_BY_VERSION_keys)"
                return (t if isinstance(op, ast.In) else f"(negb {t})"), "bool"
            a, b = self.num(e.left, env, seen), self.num(rhs, env, seen)
            forms = {ast.Eq: f"({a} =? {b})", ast.NotEq: f"(negb ({a} =? {b}))", ast.Lt: f"({a} <? {b})", ast.LtE: f"({a} <=? {b})",
                     ast.Gt: f"({b} <? {a})", ast.GtE: f"({b} <=? {a})"}
            if type(op) not in forms:
                self.refuse(e, "comparison operator")
            return forms[type(op)], "bool"
        self.refuse(e)

    def num(self, e, env, seen=()):
        t, ty = self.ex(e, env, seen)
        if ty != "N":
            self.refuse(e, "expected an integer")
        return t

    def cond(self, e, env, seen=()):
        t, ty = self.ex(e, env, seen)
        if ty != "bool":
            self.refuse(e, "expected a boolean (truthiness of other values is not translated)")
        return t

    # ---- exceptions ---------------------------------------------------------------------------------------------------
    def throw(self, exn, hs, env, dynamic=False):
        """hs: stack of (set of caught exceptions, continuation of the handler)"""
        if not hs:
            return f"({BU_S}, OExn {exn})"
        catch, hk = hs[-1]
        if not dynamic:
            return hk(env) if exn in catch else self.throw(exn, hs[:-1], env)
        arms = " | ".join(sorted(catch))
        return (f"match {exn} with\n| {arms} =>\n{textwrap.indent(hk(env), '    ')}\n| _ =>\n"
                f"{textwrap.indent(self.throw(exn, hs[:-1], env, True), '    ')}\nend")

    def awaited(self, oracle, k_val, hs, env):
        """the outcome of an await of something outside the translated methods"""
        return (f"match {oracle} with\n| AVal v =>\n{textwrap.indent(k_val, '    ')}\n"
                f"| ATimeoutError =>\n{textwrap.indent(self.throw('XTimeout', hs, env), '    ')}\n"
                f"| AOtherError =>\n{textwrap.indent(self.throw('XOther', hs, env), '    ')}\nend")

    # ---- calls of translated methods ----------------------------------------------------------------------------------
    def call(self, c, awaited, site, env):
        """Gallina application for self.<method>(...) -> term"""
        name = ast.unparse(c.func)[5:]
        is_async, params, kinds = self.sigs[name]
        if is_async != awaited:
            self.refuse(c, "coroutine called without await" if is_async else "await of a synchronous method")
        if name == "_command":
            # self._command("<name>", <the command's single request field>=e)
            if len(c.args) != 1 or not (isinstance(c.args[0], ast.Constant) and isinstance(c.args[0].value, str)) or len(c.keywords) != 1:
                self.refuse(c, "command call form")
            cmd, kw = c.args[0].value, c.keywords[0]
            for v, pcls in self.ctx["by_version"]:
                tx = pcls.COMMANDS.get(cmd, (None, None, None))[1]
                if not isinstance(tx, dict) or list(tx) != [kw.arg]:
                    self.refuse(c, f"EZSPv{v}.COMMANDS[{cmd!r}] does not take exactly the field {kw.arg}")
            self.ctx["commands"].add(cmd)
            args = [f'"{cmd}"%string', self.num(kw.value, env)]
        else:
            if c.keywords or len(c.args) != len(params):
                self.refuse(c, "arguments")
            args = []
            for a, (_, ty) in zip(c.args, params):
                t, got = self.ex(a, env)
                if got != ty:
                    self.refuse(a, f"argument type {got}, expected {ty}")
                args.append(t)
        names = self.sites[site] if awaited else []
        if len(names) != len(kinds):
            self.refuse(c, "await outcomes")
        return " ".join([f"py_EZSP_{name}_k ({BU_S})"] + args + names)

    def after_call(self, app, bind, k, hs, env):
        ok = (f"let l_{bind} := v in\n" if bind else "") + k(dict(env, **({bind: "N"} if bind else {})))
        return (f"let '({BU_S}, out) := {app} in\nmatch out with\n| OExn e =>\n{textwrap.indent(self.throw('e', hs, env, True), '    ')}\n"
                f"| ORet v =>\n{textwrap.indent(ok, '    ')}\nend")

    # ---- statements (continuation style) --------------------------------------------------------------------------------
    def seq(self, body, k, hs, env):
        if not body:
            return k(env)
        s, rest = body[0], body[1:]

        def nxt(env2):
            return self.seq(rest, k, hs, env2)
        src = ast.unparse(s)
        if isinstance(s, ast.Pass):
            return nxt(env)
        if isinstance(s, ast.Return):
            if s.value is None:
                return f"({BU_S}, ORet 0)"
            # return await command(*args, **kwargs)
            if isinstance(s.value, ast.Await) and _dump(ast.unparse(s.value.value)) == _dump("command(*args, **kwargs)") \
                    and env.get("command") == "handler" and env.get("args") == "argv" and env.get("kwargs") == "argv":
                (o,) = self.sites[id(s.value)]
                return (f"let eff := eff ++ [BCommand l_name l_arg l_command] in\n"
                        + self.awaited(o, f"({BU_S}, ORet v)", hs, env))
            self.refuse(s, "return value")
        if isinstance(s, ast.Raise):
            if isinstance(s.exc, ast.Call) and ast.unparse(s.exc.func) in BU_EXN and s.cause is None:
                return self.throw(BU_EXN[ast.unparse(s.exc.func)], hs, env)
            self.refuse(s, "raise")
        if isinstance(s, ast.If):
            a = self.seq(list(s.body), nxt, hs, env)
            b = self.seq(list(s.orelse), nxt, hs, env)
            return f"if {self.cond(s.test, env)} then\n{textwrap.indent(a, '  ')}\nelse\n{textwrap.indent(b, '  ')}"
        if isinstance(s, ast.Try):
            if s.finalbody or len(s.handlers) != 1 or s.handlers[0].name is not None or s.handlers[0].type is None \
                    or ast.unparse(s.handlers[0].type) not in BU_EXN:
                self.refuse(s, "try form")
            caught = {BU_EXN[ast.unparse(s.handlers[0].type)]}
            hbody = list(s.handlers[0].body)
            # exceptions of the handler and of the else block are not caught by this try
            hs2 = hs + [(caught, lambda env2: self.seq(hbody, nxt, hs, env2))]
            return self.seq(list(s.body), lambda env2: self.seq(list(s.orelse), nxt, hs, env2), hs2, env)
        if isinstance(s, ast.AsyncWith):
            if len(s.items) != 1 or s.items[0].optional_vars is not None or not self.is_async:
                self.refuse(s, "async with form")
            ce = s.items[0].context_expr
            if not (isinstance(ce, ast.Call) and ast.unparse(ce.func) == "asyncio_timeout" and len(ce.args) == 1 and not ce.keywords) \
                    or self.timeout is not None:
                self.refuse(s, "context manager")
            limit = self.const(ce.args[0])
            self.timeout = limit

            def leave(env2):
                self.timeout = None
                return nxt(env2)
            try:
                return self.seq(list(s.body), leave, hs, env)
            finally:
                self.timeout = None
        if isinstance(s, ast.Assign):
            if len(s.targets) != 1:
                self.refuse(s, "assignment")
            tgt, val = s.targets[0], s.value
            tsrc = ast.unparse(tgt)
            if tsrc == "self._ezsp_version":
                return f"let ezsp_v := {self.num(val, env)} in\n{nxt(env)}"
            if tsrc == "self._protocol":
                if not (isinstance(val, ast.Call) and not val.keywords and [ast.unparse(a) for a in val.args] == ["self.handle_callback", "self._gw"]):
                    self.refuse(s, "protocol handler construction")
                ctor = val.func
                if isinstance(ctor, ast.Subscript) and ast.unparse(ctor.value) == "self._BY_VERSION":
                    key = self.num(ctor.slice, env)
                    ok = f"let handler := cv in\nlet eff := eff ++ [BNewHandler cv] in\n{nxt(env)}"
                    return (f"match py_get {key} py_BY_VERSION with\n| Some cv =>\n{textwrap.indent(ok, '    ')}\n"
                            f"| None =>\n{textwrap.indent(self.throw('XKeyError', hs, env), '    ')}\nend")
                obj = self.ctx["module"]
                try:
                    for part in ast.unparse(ctor).split("."):
                        obj = getattr(obj, part)
                except AttributeError:
                    self.refuse(s, "unknown class")
                if not (isinstance(obj, type) and issubclass(obj, self.ctx["handler_base"])):
                    self.refuse(s, "not a protocol handler class")
                cv = self.const(ast.Attribute(value=ctor, attr="VERSION", ctx=ast.Load()))
                return f"let handler := {cv} in\nlet eff := eff ++ [BNewHandler {cv}] in\n{nxt(env)}"
            if isinstance(tgt, ast.Name):
                # command = getattr(self._protocol, name): the bound method of the handler object in use
                if _dump(src) == _dump("command = getattr(self._protocol, name)") and env.get("name") == "string":
                    body2 = nxt(dict(env, command="handler"))
                    return (f"if handler =? {BU_NO_HANDLER} then\n{textwrap.indent(self.throw('XNoHandler', hs, env), '  ')}\nelse\n"
                            f"  let l_command := handler in\n{textwrap.indent(body2, '  ')}")
                if env.get(tgt.id, "N") != "N":
                    self.refuse(s, "variable changes type")
                return f"let l_{tgt.id} := {self.num(val, env)} in\n{nxt(dict(env, **{tgt.id: 'N'}))}"
            if isinstance(tgt, ast.Tuple) and all(isinstance(x, ast.Name) for x in tgt.elts) and isinstance(val, ast.Await) \
                    and isinstance(val.value, ast.Call) and ast.unparse(val.value.func) == "self._command":
                app = self.call(val.value, True, id(val), env)
                cmd = val.value.args[0].value
                # the first response field is the value the oracle stands for; the others must stay unused
                first = tgt.elts[0].id
                for v, pcls in self.ctx["by_version"]:
                    rx = pcls.COMMANDS[cmd][2]
                    if not isinstance(rx, dict) or len(rx) != len(tgt.elts):
                        self.refuse(s, f"EZSPv{v}.COMMANDS[{cmd!r}] does not answer with {len(tgt.elts)} fields")
                    self.ctx["answers"].setdefault(cmd, set()).add(list(rx)[0])
                env2 = dict(env, **{x.id: "an unmodelled response field" for x in tgt.elts[1:]})
                return self.after_call(app, first, nxt, hs, env2)
            self.refuse(s, "assignment")
        if isinstance(s, ast.Expr):
            v = s.value
            awaited = isinstance(v, ast.Await)
            c = v.value if awaited else v
            if not isinstance(c, ast.Call):
                self.refuse(s)
            f = ast.unparse(c.func)
            if awaited and not self.is_async:
                self.refuse(s, "await in a synchronous method")
            if f in ("self._ezsp_event.set", "self._ezsp_event.clear") and not awaited and not c.args and not c.keywords:
                b = "true" if f.endswith(".set") else "false"
                return f"let running := {b} in\nlet eff := eff ++ [BRunning {b}] in\n{nxt(env)}"
            if awaited and f == "self._gw.reset" and not c.args and not c.keywords:
                (o,) = self.sites[id(v)]
                return f"let eff := eff ++ [BReset] in\n{self.awaited(o, nxt(env), hs, env)}"
            if awaited and f == "self._gw.wait_for_startup_reset" and not c.args and not c.keywords:
                (o,) = self.sites[id(v)]
                lim = f"(Some {self.timeout})" if self.timeout else "None"
                return f"let eff := eff ++ [BWaitStartupReset {lim}] in\n{self.awaited(o, nxt(env), hs, env)}"
            if f.startswith("self.") and f[5:] in self.sigs:
                return self.after_call(self.call(c, awaited, id(v), env), None, nxt, hs, env)
            self.refuse(s, "call with no modelled effect")
        self.refuse(s)


def _bu_method(ctx, sigs, name, want, params, extra=()):
    """translate EZSP.<name>; `params`: [(python parameter, emitted name, type)]"""
    cls = ctx["cls"]
    fn = cls.__dict__[name]
    src = textwrap.dedent(inspect.getsource(fn))
    node = ast.parse(src).body[0]
    is_async = isinstance(node, ast.AsyncFunctionDef)
    where = f"EZSP.{name} (source)"
    if node.decorator_list:
        raise GenError(where, "decorated")
    a = node.args
    got = [x.arg for x in a.posonlyargs + a.args] + (["*" + a.vararg.arg] if a.vararg else []) \
        + [x.arg for x in a.kwonlyargs] + (["**" + a.kwarg.arg] if a.kwarg else [])
    if got != ["self"] + want or a.defaults or any(d is not None for d in a.kw_defaults):
        raise GenError(where, f"parameters {got}, expected {['self'] + want}")
    tr = BuTr(where, ctx, sigs, is_async, extra)
    node = _StripLogs().visit(node)
    tr.scan_awaits(node)
    env = {}
    sig = []
    for py, _coq, ty in params:
        env[py] = ty
    if name == "_command":
        env.update(name="string", args="argv", kwargs="argv")
        sig = [("l_name", "string"), ("l_arg", "N")]
    else:
        sig = [(f"l_{py}", {"N": "N"}[ty]) for py, _coq, ty in params]
    sig += [(x, "bool") for x in extra]
    term = tr.seq(list(node.body), lambda env2: f"({BU_S}, ORet 0)", [], env)
    args = "".join(f" ({n} : {t})" for n, t in sig) + "".join(f" ({o} : await_ans)" for o, _ in tr.oracles)
    sigs[name] = (is_async, [(py, ty) for py, _c, ty in params] + [(x, "bool") for x in extra], [k for _, k in tr.oracles])
    return (f"(* from the source of EZSP.{name} *)\n"
            f"Definition py_EZSP_{name}_k (s : bu_state){args} : bu_result :=\n"
            f"  let '({BU_S}) := s in\n{textwrap.indent(term, '  ')}.\n\n")


def gen_bringup_fn() -> str:
    import bellows.ezsp as E
    import bellows.ezsp.protocol as P
    cls = E.EZSP
    by_version = [(int(k), v) for k, v in cls._BY_VERSION.items()]
    for k, pcls in by_version:
        if isinstance(k, bool) or not (isinstance(pcls, type) and issubclass(pcls, P.ProtocolHandler)) or not isinstance(pcls.VERSION, int) \
                or int(pcls.VERSION) == BU_NO_HANDLER or k == BU_NO_HANDLER:
            raise GenError("EZSP._BY_VERSION", f"entry {k!r}: {pcls!r}")
    if isinstance(E.EZSP_LATEST, bool) or not isinstance(E.EZSP_LATEST, int):
        raise GenError("bellows.ezsp.EZSP_LATEST", f"not an int: {E.EZSP_LATEST!r}")
    ctx = {"module": E, "cls": cls, "consts": {"py_EZSP_LATEST": int(E.EZSP_LATEST)}, "by_version": by_version, "commands": set(), "answers": {}, "handler_base": P.ProtocolHandler}
    sigs = {}
    fns = []
    fns.append(_bu_method(ctx, sigs, "stop_ezsp", [], []))
    fns.append(_bu_method(ctx, sigs, "start_ezsp", [], []))
    fns.append(_bu_method(ctx, sigs, "_switch_protocol_version", ["version"], [("version", "version", "N")]))
    fns.append(_bu_method(ctx, sigs, "_command", ["name", "*args", "**kwargs"], []))
    fns.append(_bu_method(ctx, sigs, "version", [], []))
    fns.append(_bu_method(ctx, sigs, "reset", [], []))
    fns.append(_bu_method(ctx, sigs, "startup_reset", [], [], extra=("tcp",)))
    # the commands issued: their id is the same in every handler class, the oracle stands for the first response field
    if ctx["commands"] != {"version"} or ctx["answers"] != {"version": {"protocolVersion"}}:
        raise GenError("EZSP bring-up", f"commands issued {sorted(ctx['commands'])}, answers read {ctx['answers']}")
    ids = {int(pcls.COMMANDS["version"][0]) for _, pcls in by_version}
    if len(ids) != 1:
        raise GenError("COMMANDS['version']", f"different ids {sorted(ids)}")
    # ---- connect: the handler in use before the first negotiation; __init__: the state before connect ----------------
    node = _StripLogs().visit(_fn_ast_async(cls.__dict__["connect"]))
    body = list(node.body)
    want = ["assert self._gw is None", "self._gw = await bellows.uart.connect(self._config, self, use_thread=use_thread)"]
    if len(body) != 3 or [_dump(ast.unparse(s)) for s in body[:2]] != [_dump(w) for w in want]:
        raise GenError("EZSP.connect (source)", "expected `assert self._gw is None; self._gw = await bellows.uart.connect(...); "
                       "self._protocol = <handler class>(...)`:\n" + "\n".join(ast.unparse(s) for s in body))
    tr = BuTr("EZSP.connect (source)", ctx, sigs, True, ())
    term = tr.seq(body[2:], lambda env2: f"({BU_S}, ORet 0)", [], {})
    fns.append("(* from the source of EZSP.connect (after `self._gw = await bellows.uart.connect(...)`, whose failure leaves no object) *)\n"
               f"Definition py_EZSP_connect_k (s : bu_state) : bu_result :=\n  let '({BU_S}) := s in\n{textwrap.indent(term, '  ')}.\n\n")
    init = _StripLogs().visit(_fn_ast(cls.__dict__["__init__"]))
    found = {}
    for n in ast.walk(init):
        tgts = n.targets if isinstance(n, ast.Assign) else [n.target] if isinstance(n, (ast.AugAssign, ast.AnnAssign)) else []
        for tg in tgts:
            for x in ast.walk(tg):
                if isinstance(x, ast.Attribute) and ast.unparse(x) in ("self._ezsp_version", "self._protocol", "self._ezsp_event"):
                    if ast.unparse(x) in found or n not in init.body or not isinstance(n, ast.Assign) or len(n.targets) != 1 or x is not tg:
                        raise GenError("EZSP.__init__ (source)", f"`{ast.unparse(n)}`: expected one plain top-level assignment of {ast.unparse(x)}")
                    found[ast.unparse(x)] = n.value
    if set(found) != {"self._ezsp_version", "self._protocol", "self._ezsp_event"}:
        raise GenError("EZSP.__init__ (source)", f"assignments found: {sorted(found)}")
    tr = BuTr("EZSP.__init__ (source)", ctx, sigs, False, ())
    v0 = tr.num(found["self._ezsp_version"], {})
    if not (isinstance(found["self._protocol"], ast.Constant) and found["self._protocol"].value is None):
        tr.refuse(found["self._protocol"], "initial protocol handler")
    if ast.unparse(found["self._ezsp_event"]) != "asyncio.Event()":
        tr.refuse(found["self._ezsp_event"], "initial event")
    # no other method of the class replaces the handler, changes the version or sets / clears the event
    writers = {"_ezsp_version": {"__init__", "_switch_protocol_version"}, "_protocol": {"__init__", "connect", "_switch_protocol_version"},
               "_ezsp_event": {"__init__", "start_ezsp", "stop_ezsp"}}
    cnode = ast.parse(textwrap.dedent(inspect.getsource(cls))).body[0]
    for m in cnode.body:
        if not isinstance(m, (ast.FunctionDef, ast.AsyncFunctionDef)):
            continue
        for n in ast.walk(m):
            if isinstance(n, ast.Attribute) and isinstance(n.value, ast.Name) and n.value.id == "self" and n.attr in writers:
                stored = isinstance(n.ctx, (ast.Store, ast.Del))
                if n.attr == "_ezsp_event":
                    stored = True       # any use other than is_set() in the property
                    if m.name == "is_ezsp_running":
                        stored = False
                if stored and m.name not in writers[n.attr]:
                    raise GenError(f"EZSP.{m.name} (source)", f"writes self.{n.attr}, which only {sorted(writers[n.attr])} are translated to do")
            if isinstance(n, ast.Call) and ast.unparse(n.func) in ("setattr", "delattr", "vars") or \
                    (isinstance(n, ast.Attribute) and n.attr == "__dict__"):
                raise GenError(f"EZSP.{m.name} (source)", "indirect attribute access")
    # ---- the handler object's sequence number (bellows/ezsp/protocol.py): initial value, successor, frame built first ---
    hinit = _StripLogs().visit(_fn_ast(P.ProtocolHandler.__dict__["__init__"]))
    seq_init = [n for n in ast.walk(hinit) if isinstance(n, (ast.Assign, ast.AugAssign)) and "self._seq" in
                [ast.unparse(t) for t in (n.targets if isinstance(n, ast.Assign) else [n.target])]]
    if len(seq_init) != 1 or seq_init[0] not in hinit.body or not isinstance(seq_init[0], ast.Assign) \
            or not isinstance(seq_init[0].value, ast.Constant) or type(seq_init[0].value.value) is not int or seq_init[0].value.value < 0:
        raise GenError("ProtocolHandler.__init__ (source)", "expected one top-level `self._seq = <int>`")
    hcmd = _StripLogs().visit(_fn_ast_async(P.ProtocolHandler.__dict__["command"]))
    seq_sets = [n for n in ast.walk(hcmd) if isinstance(n, (ast.Assign, ast.AugAssign)) and "self._seq" in
                [ast.unparse(t) for t in (n.targets if isinstance(n, ast.Assign) else [n.target])]]
    if len(seq_sets) != 1 or not isinstance(seq_sets[0], ast.Assign) or len(seq_sets[0].targets) != 1:
        raise GenError("ProtocolHandler.command (source)", "expected exactly one assignment of self._seq")
    blocks = [n.body for n in ast.walk(hcmd) if isinstance(getattr(n, "body", None), list) and seq_sets[0] in n.body]
    blk = blocks[0]
    i = blk.index(seq_sets[0])
    before = [ast.unparse(x) for x in blk[:i]]
    if "data = self._ezsp_frame(name, *args, **kwargs)" not in before:
        raise GenError("ProtocolHandler.command (source)", "the frame is no longer built before the sequence number advances (same block)")
    mt = MethodTr("ProtocolHandler.command (source)", {}, {"seq": "N"}, [])
    seq_next = mt.ex(ast.parse(ast.unparse(seq_sets[0].value).replace("self._seq", "seq"), mode="eval").body)
    for c in (P.ProtocolHandler,) + tuple(p for _, p in by_version):
        for klass in c.__mro__:
            if klass is not P.ProtocolHandler and ("command" in klass.__dict__ or "_seq" in klass.__dict__ or "_ezsp_frame" in klass.__dict__):
                raise GenError(f"{klass.__name__}", "overrides command / _ezsp_frame / _seq of ProtocolHandler")
    consts = "".join(f"Definition {n} : N := {v}.\n" for n, v in sorted(ctx["consts"].items()))
    head = ("(* GENERATED by harness/pysrc.py from the SOURCE TEXT of bellows/ezsp/__init__.py (EZSP bring-up) -- do not edit *)\n"
            "From Coq Require Import NArith List Bool String.\nImport ListNotations.\nOpen Scope N_scope.\n\n"
            "(* what a method may raise: asyncio.TimeoutError, EzspError, KeyError (dict lookup), AttributeError (getattr on None),\n"
            "   any other exception out of an awaited call *)\n"
            "Inductive bu_exn := XTimeout | XEzspError | XKeyError | XNoHandler | XOther.\n"
            "(* the outcome of an await of something outside the translated methods: its value (for the command `version`: the\n"
            "   first response field, protocolVersion), asyncio.TimeoutError, another exception *)\n"
            "Inductive await_ans := AVal (v : N) | ATimeoutError | AOtherError.\n"
            "Inductive bu_eff :=\n"
            "| BReset                                  (* await self._gw.reset(): the ASH reset handshake *)\n"
            "| BWaitStartupReset (limit : option N)    (* await self._gw.wait_for_startup_reset() [under asyncio_timeout(limit)] *)\n"
            "| BNewHandler (version : N)               (* self._protocol = <handler class with this VERSION>(self.handle_callback, self._gw) *)\n"
            "| BRunning (b : bool)                     (* self._ezsp_event.set() / .clear() *)\n"
            "| BCommand (name : string) (arg handler : N).  (* await <handler object>.<name>(<field>=arg); handler = its VERSION *)\n"
            "Inductive bu_out := ORet (v : N) | OExn (e : bu_exn).     (* returned (0 for None) | raised *)\n"
            f"(* state: self._ezsp_version, VERSION of self._protocol ({BU_NO_HANDLER} = None), self._ezsp_event is set, effects so far *)\n"
            "Definition bu_state := (N * N * bool * list bu_eff)%type.\n"
            "Definition bu_result := (N * N * bool * list bu_eff * bu_out)%type.\n\n"
            "Definition py_in (x : N) (keys : list N) : bool := existsb (N.eqb x) keys.\n"
            "Fixpoint py_get (x : N) (d : list (N * N)) : option N :=\n"
            "  match d with [] => None | (k, v) :: d' => if x =? k then Some v else py_get x d' end.\n\n"
            "(* EZSP._BY_VERSION of the live class: key -> VERSION of the handler class stored under it, in dict order *)\n"
            "Definition py_BY_VERSION : list (N * N) := [" + "; ".join(f"({k}, {int(p.VERSION)})" for k, p in by_version) + "].\n"
            "Definition py_BY_VERSION_keys : list N := map fst py_BY_VERSION.\n"
            "(* int constants of the live module the methods name *)\n" + consts +
            f"(* COMMANDS[\"version\"][0], the same in every handler class; its request is the single field desiredProtocolVersion *)\n"
            f"Definition py_version_cmd_id : N := {ids.pop()}.\n"
            "(* ProtocolHandler.__init__: self._seq = ...; ProtocolHandler.command: the frame is built, then self._seq = ... *)\n"
            f"Definition py_handler_seq_init : N := {seq_init[0].value.value}.\n"
            f"Definition py_handler_seq_next (seq : N) : N := {seq_next}.\n\n"
            f"(* from the source of EZSP.__init__: the assignments of _ezsp_version, _protocol (None), _ezsp_event (a new Event) *)\n"
            f"Definition py_EZSP_init : bu_state := ({v0}, {BU_NO_HANDLER}, false, []).\n\n")
    return head + "".join(fns)




# ==================================================================================================
# ProtocolHandler (bellows/ezsp/protocol.py): __call__, _get_command_priority, _ezsp_frame, command, the
# COMMANDS_BY_ID comprehension of __init__; and EZSP.frame_received (bellows/ezsp/__init__.py), the caller of __call__
# ==================================================================================================
class _Pop:
    """marker in a statement list: control leaves the innermost `try` / `with` normally"""


def _ph_clean(node):
    """strip log calls and docstrings, then remove what only fed them: an `if` with a side-effect-free test whose
    branches are empty, and an assignment of a side-effect-free value to a local that is never read.  Returns the
    cleaned body and the removed statements (listed in the emitted comment)."""
    node = _StripLogs().visit(node)
    removed = []

    def pure_test(e):
        return isinstance(e, ast.Name) or ast.unparse(e) == "self._send_semaphore.locked()"

    def pure_value(e):
        return isinstance(e, (ast.Constant, ast.Name)) or ast.unparse(e) == "time.monotonic()"

    def empty(body):
        return all(isinstance(x, ast.Pass) for x in body)

    changed = True
    while changed:
        changed = False
        loaded = {n.id for n in ast.walk(node) if isinstance(n, ast.Name) and isinstance(n.ctx, ast.Load)}
        for parent in ast.walk(node):
            for f in ("body", "orelse"):
                body = getattr(parent, f, None)
                if not (isinstance(body, list) and body and isinstance(body[0], ast.stmt)):
                    continue
                new = []
                for s in body:
                    if isinstance(s, ast.If) and empty(s.body) and empty(s.orelse) and pure_test(s.test):
                        removed.append(f"if {ast.unparse(s.test)}: <log>")
                        changed = True
                    elif isinstance(s, ast.Assign) and len(s.targets) == 1 and isinstance(s.targets[0], ast.Name) \
                            and s.targets[0].id not in loaded and pure_value(s.value):
                        removed.append(ast.unparse(s))
                        changed = True
                    elif isinstance(s, ast.Pass) and len(body) > 1:
                        changed = True
                    else:
                        new.append(s)
                if f == "body" and not new:
                    new = [ast.Pass()]
                setattr(parent, f, new)
    return list(node.body), removed


class PhTr:
    """statements of a ProtocolHandler / EZSP method.  State variables (`self._seq` -> seq, `self._awaiting` -> awaiting)
    and the effect list `eff` are threaded through; a statement list is translated in continuation style; `try` /
    `with` push an entry on the handler stack `hs`; a raise is resolved against that stack at translation time when
    the exception is known (exception values: see EXC), with `is_Exception e` when it is the outcome of a call."""

    # exception value -> (classes of an except clause that certainly catch it, classes that might: refused; None = any)
    EXC = {
        "XHeader": ({"Exception", "BaseException"}, None),                     # IndexError / ValueError of _ezsp_frame_rx / _tx
        "XKeyError": ({"KeyError", "LookupError", "Exception", "BaseException"}, set()),
        "XDeserialize": ({"Exception", "BaseException"}, None),
        "XSerialize": ({"Exception", "BaseException"}, None),
        "XAssertion": ({"AssertionError", "Exception", "BaseException"}, set()),
        "XInvalidState": ({"asyncio.InvalidStateError", "Exception", "BaseException"}, set()),
        "XSend": ({"Exception", "BaseException"}, None),
        "XTimeout": ({"asyncio.TimeoutError", "TimeoutError", "Exception", "BaseException"}, {"OSError"}),
        "XCancelled": ({"asyncio.CancelledError", "BaseException"}, set()),
    }

    def __init__(self, where, state, mode):
        self.where, self.state, self.mode = where, list(state), mode     # mode: 'method' | 'value' (returns bytes, no state)

    def refuse(self, node, why="unsupported construct"):
        src = ast.unparse(node) if isinstance(node, ast.AST) else str(node)
        raise GenError(self.where, f"{why}: `{src[:100]}`")

    # ---- leaving the function ---------------------------------------------------------------------
    def _exits(self, hs, down_to=0):
        return "".join(f"let eff := eff ++ [{h[1]}] in\n" for h in reversed(hs[down_to:]) if h[0] == "exit")

    def final(self, ret, hs):
        if self.mode == "value":
            return ret
        return self._exits(hs) + "(" + ", ".join(self.state + [ret]) + ")"

    def final_raise(self, exc, hs):
        if self.mode == "value":
            return f"Exn {exc}"
        return self._exits(hs) + "(" + ", ".join(self.state + [f"PyRaise {exc}"]) + ")"

    def catches(self, types, exc, node):
        if types is None:
            return True
        sure, maybe = self.EXC[exc]
        if any(t in sure for t in types):
            return True
        if maybe is None or any(t in maybe for t in types):
            self.refuse(node, f"cannot decide whether this clause catches {exc}")
        return False

    def raise_(self, exc, hs, node):
        """a raise of the known exception value `exc` under the handler stack hs"""
        for i in range(len(hs) - 1, -1, -1):
            h = hs[i]
            if h[0] != "except":
                continue
            _, handlers, rest, try_node = h
            for types, hbody in handlers:
                if self.catches(types, exc, try_node):
                    return self._exits(hs, i + 1) + self.stmts(list(hbody) + rest, hs[:i], {"cur": exc, "present": frozenset()})
        return self.final_raise(exc, hs)

    def raise_dyn(self, var, hs, node):
        """a raise of the exception value held by the Gallina variable `var` (the outcome of a call / of an await)"""
        for i in range(len(hs) - 1, -1, -1):
            h = hs[i]
            if h[0] != "except":
                continue
            _, handlers, rest, try_node = h
            if len(handlers) != 1 or handlers[0][0] != ["Exception"]:
                self.refuse(try_node, "only `except Exception` is supported around a call whose exception is not known statically")
            caught = self._exits(hs, i + 1) + self.stmts(list(handlers[0][1]) + rest, hs[:i], {"cur": None, "present": frozenset()})
            return (f"if is_Exception {var} then\n{textwrap.indent(caught, '  ')}\nelse\n"
                    f"{textwrap.indent(self.final_raise(var, hs), '  ')}")
        return self.final_raise(var, hs)

    # ---- expressions --------------------------------------------------------------------------------
    def ex(self, e):
        src = ast.unparse(e)
        if isinstance(e, ast.Name):
            return e.id
        if src == "self._seq" and "seq" in self.state:
            return "seq"
        if isinstance(e, ast.Constant) and isinstance(e.value, int) and not isinstance(e.value, bool) and e.value >= 0:
            return str(e.value)
        if isinstance(e, ast.Constant) and isinstance(e.value, str) and '"' not in e.value:
            return f'"{e.value}"%string'
        if isinstance(e, ast.BinOp) and isinstance(e.op, (ast.Add, ast.Mod)):
            op = "+" if isinstance(e.op, ast.Add) else "mod"
            return f"({self.ex(e.left)} {op} {self.ex(e.right)})"
        if isinstance(e, ast.Tuple):
            return "(" + ", ".join(self.ex(x) for x in e.elts) + ")"
        self.refuse(e, "expression")

    def cond(self, t):
        src = ast.unparse(t)
        if isinstance(t, ast.UnaryOp) and isinstance(t.op, ast.Not):
            if src == "not data":
                return "is_empty data"                        # truthiness of bytes
            return f"negb ({self.cond(t.operand)})"
        if src == "self._protocol is None":
            return "negb has_protocol"
        if isinstance(t, ast.Compare) and len(t.ops) == 1 and isinstance(t.ops[0], (ast.Eq, ast.NotEq)):
            a, b = t.left, t.comparators[0]
            is_str = any(isinstance(x, ast.Constant) and isinstance(x.value, str) for x in (a, b))
            c = f"String.eqb {self.ex(a)} {self.ex(b)}" if is_str else f"{self.ex(a)} =? {self.ex(b)}"
            return c if isinstance(t.ops[0], ast.Eq) else f"negb ({c})"
        self.refuse(t, "condition")

    @staticmethod
    def _names(target, n=None):
        """names of a tuple-unpacking target"""
        if isinstance(target, ast.Tuple) and all(isinstance(x, ast.Name) for x in target.elts) and (n is None or len(target.elts) == n):
            return [x.id for x in target.elts]
        return None

    # ---- statements ---------------------------------------------------------------------------------
    def stmts(self, body, hs, env):
        ind = lambda txt, k=2: textwrap.indent(txt, " " * k)
        if not body:
            if self.mode == "value":
                raise GenError(self.where, "control reaches the end of the function without a return")
            return self.final("PyNone", hs)
        s, rest = body[0], body[1:]
        go = lambda: self.stmts(rest, hs, env)
        if isinstance(s, _Pop):
            pre = f"let eff := eff ++ [{hs[-1][1]}] in\n" if hs[-1][0] == "exit" else ""
            return pre + self.stmts(rest, hs[:-1], env)
        if isinstance(s, ast.Pass):
            return go()
        src = ast.unparse(s)
        # ---- return / raise / assert
        if isinstance(s, ast.Return):
            if s.value is None:
                return self.final("PyNone", hs)
            if self.mode == "value" and isinstance(s.value, ast.BinOp) and isinstance(s.value.op, ast.Add):
                return self.final(f"Ok ({self.ex(s.value.left)} ++ {self.ex(s.value.right)})", hs)      # bytes + bytes
            self.refuse(s, "return value")
        if isinstance(s, ast.Raise):
            if s.exc is None and s.cause is None and env["cur"]:
                return self.raise_(env["cur"], hs, s)
            self.refuse(s, "raise")
        if isinstance(s, ast.Assert) and s.msg is None:
            return (f"if {self.cond(s.test)} then\n{ind(go())}\nelse   (* AssertionError *)\n{ind(self.raise_('XAssertion', hs, s))}")
        # ---- try / except
        if isinstance(s, ast.Try):
            if s.orelse or s.finalbody or not s.handlers:
                self.refuse(s, "try with else / finally")
            handlers = []
            for h in s.handlers:
                if h.name is not None:
                    self.refuse(s, "except ... as name")
                if h.type is None:
                    types = None
                elif isinstance(h.type, ast.Tuple):
                    types = [ast.unparse(x) for x in h.type.elts]
                else:
                    types = [ast.unparse(h.type)]
                handlers.append((types, list(h.body)))
            return self.stmts(list(s.body) + [_Pop()] + rest, hs + (("except", handlers, rest, s),), env)
        # ---- if
        if isinstance(s, ast.If):
            t = s.test
            # membership in the _awaiting dict, followed by the unpacking of the entry
            if isinstance(t, ast.Compare) and len(t.ops) == 1 and isinstance(t.ops[0], ast.In) \
                    and ast.unparse(t.comparators[0]) == "self._awaiting" and "awaiting" in self.state:
                key = ast.unparse(t.left)
                first = s.body[0]
                names = self._names(first.targets[0], 3) if isinstance(first, ast.Assign) and len(first.targets) == 1 else None
                v = ast.unparse(first.value) if isinstance(first, ast.Assign) else ""
                if names is None or v not in (f"self._awaiting.pop({key})", f"self._awaiting[{key}]"):
                    self.refuse(first, "expected the unpacking of the entry found by the membership test")
                popped = v.startswith("self._awaiting.pop")
                env_in = dict(env, present=env["present"] if popped else env["present"] | {key})
                a = self.stmts(list(s.body[1:]) + rest, hs, env_in)
                if popped:
                    a = f"let awaiting := dict_del {self.ex(t.left)} awaiting in\n" + a
                b = self.stmts(list(s.orelse) + rest, hs, env)
                return (f"match dict_get {self.ex(t.left)} awaiting with\n| Some ({', '.join(names)}) =>\n{ind(a, 4)}\n"
                        f"| None =>\n{ind(b, 4)}\nend")
            # the two codecs of zigpy / bellows.types (modelled by model/EzspCodec.v over the flattened schemas)
            if _dump(src) == _dump("if isinstance(rx_schema, dict):\n    result, data = t.deserialize_dict(data, rx_schema)\n"
                                   "    result = list(result.values())\nelse:\n    result, data = rx_schema.deserialize(data)"):
                return (f"match py_deserialize schemas rx_schema data with\n| None =>\n{ind(self.raise_('XDeserialize', hs, s), 4)}\n"
                        f"| Some (result, data) =>\n{ind(go(), 4)}\nend")
            if _dump(src) == _dump("if isinstance(tx_schema, dict):\n    data = t.serialize_dict(args, kwargs, tx_schema)\n"
                                   "else:\n    data = tx_schema(*args, **kwargs).serialize()"):
                return (f"match py_serialize schemas tx_schema args with\n| None =>\n{ind(self.raise_('XSerialize', hs, s), 4)}\n"
                        f"| Some data =>\n{ind(go(), 4)}\nend")
            a = self.stmts(list(s.body) + rest, hs, env)
            b = self.stmts(list(s.orelse) + rest, hs, env)
            return f"if {self.cond(t)} then\n{ind(a)}\nelse\n{ind(b)}"
        # ---- assignments
        if isinstance(s, ast.Assign) and len(s.targets) == 1:
            tgt, val = s.targets[0], s.value
            v = ast.unparse(val)
            names = self._names(tgt)
            if names and v == "self._ezsp_frame_rx(data)" and len(names) == 3:
                return (f"match frame_rx data with\n| None =>\n{ind(self.raise_('XHeader', hs, s), 4)}\n"
                        f"| Some ({', '.join(names)}) =>\n{ind(go(), 4)}\nend")
            if names and len(names) == 3 and isinstance(val, ast.Subscript) and ast.unparse(val.value) == "self.COMMANDS_BY_ID":
                return (f"match dict_get {self.ex(val.slice)} COMMANDS_BY_ID with\n| None =>\n{ind(self.raise_('XKeyError', hs, s), 4)}\n"
                        f"| Some ({', '.join(names)}) =>\n{ind(go(), 4)}\nend")
            if isinstance(tgt, ast.Name) and isinstance(val, ast.Subscript) and isinstance(val.slice, ast.Constant) and val.slice.value == 0 \
                    and isinstance(val.value, ast.Subscript) and ast.unparse(val.value.value) == "self.COMMANDS_BY_ID":
                return (f"match dict_get {self.ex(val.value.slice)} COMMANDS_BY_ID with\n| None =>\n{ind(self.raise_('XKeyError', hs, s), 4)}\n"
                        f"| Some ({tgt.id}, _, _) =>\n{ind(go(), 4)}\nend")
            if names and len(names) == 3 and isinstance(val, ast.Subscript) and ast.unparse(val.value) == "self.COMMANDS":
                return (f"match find_by_name {self.ex(val.slice)} COMMANDS with\n| None =>\n{ind(self.raise_('XKeyError', hs, s), 4)}\n"
                        f"| Some (_, {', '.join(names)}) =>\n{ind(go(), 4)}\nend")
            if isinstance(tgt, ast.Name) and v == "self._ezsp_frame_tx(name)":
                return (f"match frame_tx seq name with\n| None =>\n{ind(self.raise_('XHeader', hs, s), 4)}\n"
                        f"| Some {tgt.id} =>\n{ind(go(), 4)}\nend")
            if isinstance(tgt, ast.Name) and v == "self._ezsp_frame(name, *args, **kwargs)" and self.mode == "method":
                return (f"match py_ezsp_frame schemas frame_tx COMMANDS seq name args with\n| Exn e =>\n{ind(self.raise_dyn('e', hs, s), 4)}\n"
                        f"| Ok {tgt.id} =>\n{ind(go(), 4)}\nend")
            if isinstance(tgt, ast.Name) and tgt.id == "future" and v == "asyncio.get_running_loop().create_future()":
                return "(* future = <new future>: named by the parameter `future` *)\n" + go()
            if isinstance(tgt, ast.Subscript) and ast.unparse(tgt.value) == "self._awaiting" and "awaiting" in self.state:
                return f"let awaiting := dict_set {self.ex(tgt.slice)} {self.ex(val)} awaiting in\n{go()}"
            if ast.unparse(tgt) == "self._seq" and "seq" in self.state:
                term = self.ex(val)
                return f"let seq := {term} in\n{go()}"
            self.refuse(s, "assignment")
        # ---- calls
        if isinstance(s, ast.Expr) and isinstance(s.value, ast.Call):
            c = s.value
            fn = ast.unparse(c.func)
            if isinstance(c.func, ast.Attribute) and isinstance(c.func.value, ast.Name) and c.func.value.id == "future" \
                    and c.func.attr in ("set_result", "set_exception") and len(c.args) == 1 and not c.keywords:
                if c.func.attr == "set_result":
                    eff = f"PSetResult future {self.ex(c.args[0])}"
                else:
                    a = c.args[0]
                    if not (isinstance(a, ast.Call) and ast.unparse(a.func) == "InvalidCommandError"):
                        self.refuse(s, "exception set on the future")
                    eff = "PSetException future XInvalidCommand"
                return (f"if done future then   (* asyncio.InvalidStateError *)\n{ind(self.raise_('XInvalidState', hs, s))}\nelse\n"
                        f"{ind(f'let eff := eff ++ [{eff}] in' + chr(10) + go())}")
            if fn == "self._handle_callback" and len(c.args) == 2 and not c.keywords:
                return f"let eff := eff ++ [PCallback {self.ex(c.args[0])} {self.ex(c.args[1])}] in\n{go()}"
            if fn == "self._awaiting.pop" and len(c.args) == 1 and not c.keywords and ast.unparse(c.args[0]) in env["present"]:
                env2 = dict(env, present=env["present"] - {ast.unparse(c.args[0])})
                return f"let awaiting := dict_del {self.ex(c.args[0])} awaiting in\n{self.stmts(rest, hs, env2)}"
            if fn == "self._protocol" and src == "self._protocol(data)":
                k = self.stmts(rest, hs, env)
                return ("let '(awaiting, eff1, r) := py_call schemas frame_rx COMMANDS done awaiting data in\nlet eff := eff ++ eff1 in\n"
                        f"match r with\n| PyRaise e =>\n{ind(self.raise_dyn('e', hs, s), 4)}\n| _ =>\n{ind(k, 4)}\nend")
        if isinstance(s, ast.Expr) and isinstance(s.value, ast.Await) and ast.unparse(s.value.value) == "self._gw.send_data(data)":
            return ("let eff := eff ++ [PSendData data] in\nmatch sent with\n"
                    f"| SentRaised =>\n{ind(self.raise_('XSend', hs, s), 4)}\n| SentCancelled =>\n{ind(self.raise_('XCancelled', hs, s), 4)}\n"
                    f"| SentOk =>\n{ind(go(), 4)}\nend")
        # ---- async with
        if isinstance(s, ast.AsyncWith) and len(s.items) == 1 and s.items[0].optional_vars is None:
            ce = s.items[0].context_expr
            if isinstance(ce, ast.Call) and ast.unparse(ce.func) == "self._send_semaphore" and not ce.args \
                    and [k.arg for k in ce.keywords] == ["priority"] \
                    and ast.unparse(ce.keywords[0].value) == "self._get_command_priority(name)":
                inner = self.stmts(list(s.body) + [_Pop()] + rest, hs + (("exit", "PRelease"),), env)
                return ("let eff := eff ++ [PAcquire (py_get_command_priority name)] in\nmatch acq with\n"
                        f"| AcqCancelled =>\n{ind(self.raise_('XCancelled', hs, s), 4)}\n| AcqOk =>\n{ind(inner, 4)}\nend")
            if isinstance(ce, ast.Call) and ast.unparse(ce.func) == "asyncio_timeout" and len(ce.args) == 1 and not ce.keywords \
                    and isinstance(ce.args[0], ast.Name) and len(s.body) == 1 and ast.unparse(s.body[0]) == "return await future":
                return (f"let eff := eff ++ [PAwaitFuture future {ce.args[0].id}] in\nmatch waited with\n"
                        f"| WResult result =>\n{ind(self.final('PyValue result', hs), 4)}\n"
                        f"| WException e =>\n{ind(self.raise_dyn('e', hs, s), 4)}\n"
                        f"| WTimeout =>\n{ind(self.raise_('XTimeout', hs, s), 4)}\n"
                        f"| WCancelled =>\n{ind(self.raise_('XCancelled', hs, s), 4)}\nend")
        self.refuse(s)


def _ph_state_in_one_segment(node, where):
    """the state a coroutine reads and writes (self._seq, self._awaiting, and the header built from self._seq) must lie
    between two consecutive suspension points, so that one (state before -> state after) function describes it"""
    awaits, touches = [], []
    for n in ast.walk(node):
        if isinstance(n, ast.Await):
            awaits.append((n.lineno, n.col_offset))
        elif isinstance(n, ast.AsyncWith):
            awaits.append((n.lineno, n.col_offset))
            awaits.append((n.end_lineno, n.end_col_offset))
        elif isinstance(n, ast.Attribute) and ast.unparse(n) in ("self._seq", "self._awaiting", "self._ezsp_frame"):
            touches.append((n.lineno, n.col_offset))
    if touches and any(min(touches) < a < max(touches) for a in awaits):
        raise GenError(where, "self._seq / self._awaiting are used on both sides of a suspension point")


PH_PRELUDE = """(* GENERATED by harness/pysrc.py from the SOURCE TEXT of bellows/ezsp/protocol.py (ProtocolHandler) and of
   EZSP.frame_received (bellows/ezsp/__init__.py) -- do not edit *)
From Coq Require Import String ZArith NArith List Bool.
Import ListNotations.
Require Import BV.lib.EzspTypes BV.gen.GenProto BV.model.EzspCodec.
Open Scope N_scope.

(* ---- conventions -------------------------------------------------------------------------------------------------
   A Python dict with integer keys is an insertion-ordered association list (d[k] = v replaces in place or appends).
   COMMANDS is the version's command table as emitted in gen/GenCmd.v: (name, id, tx schema, rx schema) with schemas as
   indices into SCHEMAS; COMMANDS[name] is [find_by_name name COMMANDS].  A future is named by a number; [done f] is
   f.done().  The codecs of zigpy / bellows.types are the model's (model/EzspCodec.v; exercised against the real ones
   by the C07 correspondence).  LOGGER calls, docstrings and what only feeds them are not translated. *)
Fixpoint dict_get {V : Type} (k : N) (d : list (N * V)) : option V :=
  match d with [] => None | (k', v) :: d' => if k' =? k then Some v else dict_get k d' end.
Fixpoint dict_set {V : Type} (k : N) (v : V) (d : list (N * V)) : list (N * V) :=
  match d with
  | [] => [(k, v)]
  | (k', v') :: d' => if k' =? k then (k, v) :: d' else (k', v') :: dict_set k v d'
  end.
Fixpoint dict_del {V : Type} (k : N) (d : list (N * V)) : list (N * V) :=
  match d with [] => [] | (k', v) :: d' => if k' =? k then d' else (k', v) :: dict_del k d' end.
Definition is_empty (b : list N) : bool := match b with [] => true | _ => false end.

Definition py_serialize (schemas : list schema) (s : nat) (args : list ival) : option (list N) :=
  encode_schema (schema_at schemas s) args.
Definition py_deserialize (schemas : list schema) (s : nat) (data : list N) : option (list ival * list N) :=
  decode_schema (schema_at schemas s) data.

(* exceptions, as far as the control flow distinguishes them *)
Inductive ph_exc :=
| XHeader            (* IndexError / ValueError raised by _ezsp_frame_rx / _ezsp_frame_tx *)
| XKeyError | XDeserialize | XSerialize | XAssertion
| XInvalidState      (* asyncio.InvalidStateError: set_result / set_exception on a future that is done *)
| XInvalidCommand    (* bellows.exception.InvalidCommandError *)
| XSend              (* whatever gateway.send_data raised *)
| XTimeout | XCancelled.
(* `except Exception` catches all of them but CancelledError (a BaseException) *)
Definition is_Exception (e : ph_exc) : bool := match e with XCancelled => false | _ => true end.

Inductive ph_return := PyNone | PyValue (result : list ival) | PyRaise (e : ph_exc).
Inductive ph_try (A : Type) := Ok (a : A) | Exn (e : ph_exc).
Arguments Ok {A} a.  Arguments Exn {A} e.

(* the value stored in _awaiting: (cmd_id, rx_schema, future) *)
Definition ph_awaiting := list (N * (N * nat * N)).

(* effects: the calls a method makes on other objects, in order *)
Inductive ph_eff :=
| PSetResult (future : N) (result : list ival)           (* future.set_result(result), future pending *)
| PSetException (future : N) (e : ph_exc)                (* future.set_exception(InvalidCommandError(..)), future pending *)
| PCallback (frame_name : string) (result : list ival)   (* self._handle_callback(frame_name, result) *)
| PAcquire (priority : Z)                                (* async with self._send_semaphore(priority=..): entry *)
| PRelease                                               (*   ... exit, on every way out of the block *)
| PSendData (data : list N)                              (* await self._gw.send_data(data) *)
| PAwaitFuture (future : N) (timeout : N).               (* async with asyncio_timeout(timeout): return await future *)

(* how the three suspension points of command() resume *)
Inductive ph_acq := AcqOk | AcqCancelled.
Inductive ph_sent := SentOk | SentRaised | SentCancelled.
Inductive ph_waited := WResult (result : list ival) | WException (e : ph_exc) | WTimeout | WCancelled.

"""


def gen_proto_fn() -> str:
    import bellows.ezsp as E
    import bellows.ezsp.protocol as P
    H = P.ProtocolHandler
    out = [PH_PRELUDE]
    ghost = lambda removed: ("   not translated (feeds logging only): " + "; ".join(removed) + "\n") if removed else ""

    # ---- __init__: the COMMANDS_BY_ID comprehension ---------------------------------------------------------------
    init = _fn_ast(H.__dict__["__init__"])
    comp = [s for s in init.body if isinstance(s, ast.Assign) and ast.unparse(s.targets[0]) == "self.COMMANDS_BY_ID"]
    if len(comp) != 1 or not isinstance(comp[0].value, ast.DictComp):
        raise GenError("ProtocolHandler.__init__", "COMMANDS_BY_ID is not built by one dict comprehension")
    dc = comp[0].value
    g = dc.generators[0]
    ok = (len(dc.generators) == 1 and not g.ifs and not g.is_async and ast.unparse(g.iter) == "self.COMMANDS.items()"
          and isinstance(g.target, ast.Tuple) and len(g.target.elts) == 2 and isinstance(g.target.elts[0], ast.Name))
    inner = PhTr._names(g.target.elts[1], 3) if ok else None
    if inner is None:
        raise GenError("ProtocolHandler.__init__", f"comprehension form: `{ast.unparse(dc)[:120]}`")
    bound = [g.target.elts[0].id] + inner
    vals = PhTr._names(dc.value, 3)
    if not isinstance(dc.key, ast.Name) or dc.key.id not in bound or vals is None or any(v not in bound for v in vals) or len(set(bound)) != 4:
        raise GenError("ProtocolHandler.__init__", f"comprehension key / value: `{ast.unparse(dc)[:120]}`")
    for nm, attr in (("_awaiting", "{}"), ("_seq", "0")):
        if not any(ast.unparse(s) == f"self.{nm} = {attr}" for s in init.body):
            raise GenError("ProtocolHandler.__init__", f"self.{nm} is not initialised with {attr}")
    out.append("(* from the source of ProtocolHandler.__init__: self._awaiting = {}, self._seq = 0 and the comprehension\n"
               f"   {{{ast.unparse(dc.key)}: {ast.unparse(dc.value)} for {ast.unparse(g.target)} in self.COMMANDS.items()}}  (a later entry replaces an earlier one) *)\n"
               "Definition py_init : N * ph_awaiting := (0, []).\n"
               "Definition py_COMMANDS_BY_ID (COMMANDS : list command) : list (N * (string * nat * nat)) :=\n"
               f"  fold_left (fun d '({', '.join(bound)}) => dict_set {dc.key.id} ({', '.join(vals)}) d) COMMANDS [].\n\n")

    # ---- _get_command_priority -----------------------------------------------------------------------------------
    node = _fn_ast(H.__dict__["_get_command_priority"])
    body, _ = _ph_clean(node)
    where = "ProtocolHandler._get_command_priority (source)"
    r = body[0].value if len(body) == 1 and isinstance(body[0], ast.Return) else None
    if [a.arg for a in node.args.args] != ["self", "name"] or not (
            isinstance(r, ast.Call) and isinstance(r.func, ast.Attribute) and r.func.attr == "get" and isinstance(r.func.value, ast.Dict)
            and len(r.args) == 2 and not r.keywords and ast.unparse(r.args[0]) == "name"):
        raise GenError(where, "expected `return {<literal dict>}.get(name, <default>)`")

    def zlit(e):
        v = ast.literal_eval(e) if isinstance(e, (ast.Constant, ast.UnaryOp)) else None
        if not isinstance(v, int) or isinstance(v, bool):
            raise GenError(where, f"priority is not an integer literal: `{ast.unparse(e)}`")
        return f"({v})%Z"
    rows, seen = [], set()
    for k, v in zip(r.func.value.keys, r.func.value.values):
        if not (isinstance(k, ast.Constant) and isinstance(k.value, str)) or '"' in k.value or k.value in seen:
            raise GenError(where, f"key of the literal dict: `{ast.unparse(k) if k else '**'}`")
        seen.add(k.value)
        rows.append(f'("{k.value}"%string, {zlit(v)})')
    out.append("(* from the source of ProtocolHandler._get_command_priority: the literal dict (keys distinct) and .get(name, default) *)\n"
               "Definition py_priority_dict : list (string * Z) :=\n  [" + ";\n   ".join(rows) + "].\n"
               "Fixpoint str_get (k : string) (d : list (string * Z)) : option Z :=\n"
               "  match d with [] => None | (k', v) :: d' => if String.eqb k' k then Some v else str_get k d' end.\n"
               "Definition py_get_command_priority (name : string) : Z :=\n"
               f"  match str_get name py_priority_dict with Some p => p | None => {zlit(r.args[1])} end.\n\n")

    # ---- __call__ ---------------------------------------------------------------------------------------------------
    node = _fn_ast(H.__dict__["__call__"])
    if [a.arg for a in node.args.args] != ["self", "data"] or node.args.vararg or node.args.kwarg:
        raise GenError("ProtocolHandler.__call__", "parameters")
    body, removed = _ph_clean(node)
    tr = PhTr("ProtocolHandler.__call__ (source)", ["awaiting", "eff"], "method")
    term = tr.stmts(body, (), {"cur": None, "present": frozenset()})
    out.append("(* from the source of ProtocolHandler.__call__.  frame_rx is self._ezsp_frame_rx (None: it raised; gen/GenEzspFn.v has\n"
               "   the three versions); result: the _awaiting dict afterwards, the effects, how the call ended\n" + ghost(removed) + "*)\n"
               "Definition py_call (schemas : list schema) (frame_rx : list N -> option (N * N * list N)) (COMMANDS : list command)\n"
               "    (done : N -> bool) (awaiting : ph_awaiting) (data : list N) : ph_awaiting * list ph_eff * ph_return :=\n"
               "  let COMMANDS_BY_ID := py_COMMANDS_BY_ID COMMANDS in\n  let eff := @nil ph_eff in\n" + textwrap.indent(term, "  ") + ".\n\n")

    # ---- EZSP.frame_received ----------------------------------------------------------------------------------------
    node = _fn_ast(E.EZSP.__dict__["frame_received"])
    if [a.arg for a in node.args.args] != ["self", "data"]:
        raise GenError("EZSP.frame_received", "parameters")
    body, removed = _ph_clean(node)
    tr = PhTr("EZSP.frame_received (source)", ["awaiting", "eff"], "method")
    term = tr.stmts(body, (), {"cur": None, "present": frozenset()})
    out.append("(* from the source of EZSP.frame_received (bellows/ezsp/__init__.py), the caller of __call__; has_protocol:\n"
               "   self._protocol is not None\n" + ghost(removed) + "*)\n"
               "Definition py_EZSP_frame_received (schemas : list schema) (frame_rx : list N -> option (N * N * list N))\n"
               "    (COMMANDS : list command) (done : N -> bool) (has_protocol : bool) (awaiting : ph_awaiting) (data : list N)\n"
               "  : ph_awaiting * list ph_eff * ph_return :=\n  let eff := @nil ph_eff in\n" + textwrap.indent(term, "  ") + ".\n\n")

    # ---- _ezsp_frame ------------------------------------------------------------------------------------------------
    node = _fn_ast(H.__dict__["_ezsp_frame"])
    if [a.arg for a in node.args.args] != ["self", "name"] or not node.args.vararg or node.args.vararg.arg != "args" \
            or not node.args.kwarg or node.args.kwarg.arg != "kwargs":
        raise GenError("ProtocolHandler._ezsp_frame", "parameters")
    body, removed = _ph_clean(node)
    tr = PhTr("ProtocolHandler._ezsp_frame (source)", [], "value")
    term = tr.stmts(body, (), {"cur": None, "present": frozenset()})
    out.append("(* from the source of ProtocolHandler._ezsp_frame.  frame_tx seq name is self._ezsp_frame_tx(name) with self._seq = seq\n"
               "   (None: it raised); args: the arguments bound to the schema's fields (positional / keyword binding: C07)\n" + ghost(removed) + "*)\n"
               "Definition py_ezsp_frame (schemas : list schema) (frame_tx : N -> string -> option (list N)) (COMMANDS : list command)\n"
               "    (seq : N) (name : string) (args : list ival) : ph_try (list N) :=\n" + textwrap.indent(term, "  ") + ".\n\n")

    # ---- command ----------------------------------------------------------------------------------------------------
    node = _fn_ast_async(H.__dict__["command"])
    if [a.arg for a in node.args.args] != ["self", "name"] or not node.args.vararg or node.args.vararg.arg != "args" \
            or not node.args.kwarg or node.args.kwarg.arg != "kwargs":
        raise GenError("ProtocolHandler.command", "parameters")
    _ph_state_in_one_segment(node, "ProtocolHandler.command (source)")
    if int(P.MAX_COMMAND_CONCURRENCY) != 1 or not any(
            _dump(ast.unparse(s)) == _dump("self._send_semaphore = PriorityDynamicBoundedSemaphore(value=MAX_COMMAND_CONCURRENCY)")
            for s in init.body):
        raise GenError("ProtocolHandler.__init__", "the send semaphore is no longer PriorityDynamicBoundedSemaphore(value=MAX_COMMAND_CONCURRENCY = 1)")
    body, removed = _ph_clean(node)
    tr = PhTr("ProtocolHandler.command (source)", ["seq", "awaiting", "eff"], "method")
    term = tr.stmts(body, (), {"cur": None, "present": frozenset()})
    out.append("(* from the source of ProtocolHandler.command, a coroutine with three suspension points: the entry of the send\n"
               "   semaphore, gateway.send_data, the wait for the reply under the timeout.  How each resumes is a parameter (acq,\n"
               "   sent, waited).  self._seq / self._awaiting are read and written only between the first and the second (checked\n"
               "   by the translator): (seq, awaiting) is the state when the semaphore is granted, the result carries the state at\n"
               "   the call of send_data, the effects in order and how the coroutine ended\n" + ghost(removed) + "*)\n"
               "Definition py_command (schemas : list schema) (frame_tx : N -> string -> option (list N)) (COMMANDS : list command)\n"
               "    (seq : N) (awaiting : ph_awaiting) (name : string) (args : list ival) (future : N)\n"
               "    (acq : ph_acq) (sent : ph_sent) (waited : ph_waited) : N * ph_awaiting * list ph_eff * ph_return :=\n"
               "  let eff := @nil ph_eff in\n" + textwrap.indent(term, "  ") + ".\n")
    return "".join(out)




# ==================================================================================================
# EZSP.write_config (bellows/ezsp/__init__.py): dicts, three kinds of `for` loop over them, awaits of NCP commands
# ==================================================================================================
# Representation (coq/lib/PyDict.v, prelude of GenConfigFn.v):
#   * a dict is an association list with Python's semantics (assignment keeps the position of an existing key and
#     appends a new one, pop removes, .values()/.items() iterate in insertion order);
#   * enum members (EzspConfigId / EzspValueId) and their `.name` strings are both represented by the numeric id --
#     sound because the generator checks that every name involved is the canonical name of its member, so
#     name <-> id is one-to-one; the translator still keeps the four kinds apart (cid / cname / vid / vname) and refuses
#     a dict keyed or a command called with the wrong one;
#   * the dataclasses become records, `dataclasses.replace` a record update, `isinstance` on an element of
#     DEFAULT_CONFIG[...] a match on the constructor of the generated table entry;
#   * `await self.<command>(...)` reads the NCP's answer from an oracle `o : ncp` (an argument of the emitted
#     function; the answer may depend on every command issued so far) and appends the command to `trace`;
#   * statements are translated in continuation style; the mutable locals (ezsp_config, ezsp_values, trace) plus a
#     control-flow flag (Running | Returned | Raised) are the state threaded through `fold_left` for each loop:
#     `continue` ends the step with Running, `return` with Returned (the remaining iterations and statements are
#     skipped), an operation that raises in Python (d[k] / d.pop(k) on an absent key, deserialising too few
#     bytes) with Raised.
CFG_STATE = ["ezsp_config", "ezsp_values", "trace", "flow"]
CFG_RECORDS = {
    # python field -> (coq projections, type)
    "RuntimeConfig": [("config_id", ["rc_config_id"], "cid"), ("value", ["rc_value"], "N"), ("minimum", ["rc_minimum"], "bool")],
    "ValueConfig": [("value_id", ["vc_value_id"], "vid"), ("value", ["vc_value", "vc_width"], "zint")],
}
CFG_LOCAL_DICTS = {"ezsp_config": ("dict", "cname", "RuntimeConfig"), "ezsp_values": ("dict", "vname", "ValueConfig")}
CFG_AWAITS = {
    # command -> (keyword names, their types, oracle field, trace constructor, result types)
    "getValue": (["valueId"], ["vid"], "ans_getValue", "CGetValue", ["status", "bytes"]),
    "setValue": (["valueId", "value"], ["vid", "serialized"], "ans_setValue", "CSetValue", ["status"]),
    "getConfigurationValue": (["configId"], ["cid"], "ans_getConfigurationValue", "CGetConfigurationValue", ["status", "N"]),
    "setConfigurationValue": (["configId", "value"], ["cid", "N"], "ans_setConfigurationValue", "CSetConfigurationValue", ["status"]),
}


def _cfg_coqty(t) -> str:
    simple = {"N": "N", "bool": "bool", "optN": "option N", "status": "status", "bytes": "list N", "cid": "N", "cname": "N",
              "vid": "N", "vname": "N", "RuntimeConfig": "RuntimeConfig", "ValueConfig": "ValueConfig", "default_cfg": "default_cfg",
              "ncp": "ncp"}
    if isinstance(t, tuple) and t[0] == "dict":
        return f"dict ({_cfg_coqty(t[2])})"
    if isinstance(t, tuple) and t[0] == "set":
        return "list N"
    if t in simple:
        return simple[t]
    raise KeyError(t)


class CfgTr:
    def __init__(self, where, enums, defaults):
        self.where = where
        self.enums = enums            # {"EzspConfigId": enum class, "EzspValueId": enum class}
        self.defaults = defaults      # dataclass defaults: {"RuntimeConfig": {"minimum": False}, ...}
        self.types = {}
        self.defs = []                # emitted step functions
        self.loops = {}               # id(ast.For) -> (name, free variables, types at entry)
        self.ngen = 0
        self.pending = None

    def refuse(self, node, why="unsupported construct"):
        src = ast.unparse(node) if isinstance(node, ast.AST) else str(node)
        raise GenError(self.where, f"{why}: `{src[:110]}`")

    def fresh(self):
        self.ngen += 1
        return f"g{self.ngen}"

    # ---- control-flow results ----------------------------------------------------------------------
    def out(self, loop: bool, flow: str) -> str:
        return f"({', '.join(CFG_STATE[:3])}, {flow})" if loop else f"(trace, {flow})"

    # ---- expressions -> (term, type) ---------------------------------------------------------------
    def enum_member(self, enum: str, member: str, node):
        cls = self.enums[enum]
        if member not in cls.__members__:
            self.refuse(node, f"{enum} has no member {member}")
        m = cls[member]
        if m.name != member:
            self.refuse(node, f"{member} is an alias of {m.name}")
        if enum == "EzspConfigId" and member == "CONFIG_PACKET_BUFFER_COUNT":
            return "CONFIG_PACKET_BUFFER_COUNT"       # the constant of gen/GenConfig.v (same live enum)
        return f"{int(m)} (* {enum}.{member} *)"

    def key_of(self, d):
        return self.types[d][1]

    def ex(self, e):
        if isinstance(e, ast.Name):
            if e.id in self.types and e.id not in ("o",):
                return e.id, self.types[e.id]
            self.refuse(e, "unknown name")
        if isinstance(e, ast.Constant):
            if e.value is None:
                return "None", "none"
            if isinstance(e.value, bool):
                return ("true" if e.value else "false"), "bool"
            if isinstance(e.value, int) and e.value >= 0:
                return str(e.value), "N"
            self.refuse(e, "constant")
        if isinstance(e, ast.Attribute):
            src = ast.unparse(e)
            parts = src.split(".")
            if len(parts) in (3, 4) and parts[0] == "t" and parts[1] in self.enums and (len(parts) == 3 or parts[3] == "name"):
                term = self.enum_member(parts[1], parts[2], e)
                kind = "c" if parts[1] == "EzspConfigId" else "v"
                return term, kind + ("id" if len(parts) == 3 else "name")
            term, ty = self.ex(e.value)
            if e.attr == "name" and ty in ("cid", "vid"):
                return term, ty[0] + "name"           # the name stands for the member (one-to-one, checked by the generator)
            if ty in CFG_RECORDS:
                for pyf, projs, fty in CFG_RECORDS[ty]:
                    if pyf == e.attr:
                        if fty == "zint":
                            return term, ("zint", term)
                        return f"({projs[0]} {term})", fty
                self.refuse(e, f"{ty} has no field {e.attr}")
            self.refuse(e, "attribute")
        if isinstance(e, ast.Subscript):
            base = ast.unparse(e.value)
            if base in ("t.EzspConfigId", "t.EzspValueId"):
                term, ty = self.ex(e.slice)
                want = "cname" if base.endswith("ConfigId") else "vname"
                if ty != want:
                    self.refuse(e, f"enum lookup by a {ty}")
                return term, want[0] + "id"
            if isinstance(e.value, ast.Name) and isinstance(self.types.get(e.value.id), tuple) and self.types[e.value.id][0] == "dict":
                d = e.value.id
                kterm, kty = self.ex(e.slice)
                if kty != self.key_of(d):
                    self.refuse(e, f"dict keyed by {self.key_of(d)} subscripted with a {kty}")
                g = self.fresh()
                self.pending.append(("get", g, d, kterm))
                return g, self.types[d][2]
            self.refuse(e, "subscript")
        if isinstance(e, ast.Call):
            fn = ast.unparse(e.func)
            kw = {k.arg: k.value for k in e.keywords}
            if fn == "set" and len(e.args) == 1 and not kw and isinstance(e.args[0], ast.Name):
                term, ty = self.ex(e.args[0])
                if not (isinstance(ty, tuple) and ty[0] == "dict"):
                    self.refuse(e, "set() of something other than a dict")
                return f"(dict_keys {term})", ("set", ty[1])
            if fn == "self._protocol.SCHEMAS[conf.CONF_EZSP_CONFIG]" and len(e.args) == 1 and not kw:
                term, ty = self.ex(e.args[0])
                if ty != ("dict", "cname", "optN"):
                    self.refuse(e, "schema applied to something other than the config dict")
                return f"(py_schema_validate SCHEMA_v {term})", ty
            if fn == "dataclasses.replace" and len(e.args) == 1:
                bterm, bty = self.ex(e.args[0])
                if bty not in CFG_RECORDS:
                    self.refuse(e, "dataclasses.replace of a non-record")
                return self.record(bty, kw, lambda proj: f"{proj} {bterm}", e), bty
            if fn in CFG_RECORDS and not e.args:
                return self.record(fn, kw, None, e), fn
            if isinstance(e.func, ast.Attribute) and e.func.attr == "pop" and isinstance(e.func.value, ast.Name) \
                    and isinstance(self.types.get(e.func.value.id), tuple) and self.types[e.func.value.id][0] == "dict" \
                    and len(e.args) == 1 and not kw:
                d = e.func.value.id
                kterm, kty = self.ex(e.args[0])
                if kty != self.key_of(d):
                    self.refuse(e, f"dict keyed by {self.key_of(d)} popped with a {kty}")
                g = self.fresh()
                self.pending.append(("pop", g, d, kterm))
                return g, self.types[d][2]
            self.refuse(e, "call")
        if isinstance(e, ast.UnaryOp) and isinstance(e.op, ast.Not):
            return f"(negb {self.cond(e.operand)})", "bool"
        if isinstance(e, ast.BoolOp):
            op = " && " if isinstance(e.op, ast.And) else " || "
            return "(" + op.join(self.cond(v) for v in e.values) + ")", "bool"
        if isinstance(e, ast.Compare):
            if len(e.ops) != 1:
                self.refuse(e, "chained comparison")
            op, lhs, rhs = e.ops[0], e.left, e.comparators[0]
            # t.sl_Status.from_ember_status(status) ==/!= t.sl_Status.OK
            if isinstance(op, (ast.Eq, ast.NotEq)) and ast.unparse(rhs) == "t.sl_Status.OK" and isinstance(lhs, ast.Call) \
                    and ast.unparse(lhs.func) == "t.sl_Status.from_ember_status" and len(lhs.args) == 1 and not lhs.keywords:
                term, ty = self.ex(lhs.args[0])
                if ty != "status":
                    self.refuse(e, "status test of a non-status")
                t = f"(py_status_ok {term})"
                return (t if isinstance(op, ast.Eq) else f"(negb {t})"), "bool"
            if isinstance(op, (ast.In, ast.NotIn)):
                kterm, kty = self.ex(lhs)
                cterm, cty = self.ex(rhs)
                if not (isinstance(cty, tuple) and cty[0] in ("dict", "set")):
                    self.refuse(e, "membership in something other than a dict / set")
                if cty[1] != kty:
                    self.refuse(e, f"membership of a {kty} in a container of {cty[1]}")
                t = f"({'dict_mem' if cty[0] == 'dict' else 'set_mem'} {kterm} {cterm})"
                return (t if isinstance(op, ast.In) else f"(negb {t})"), "bool"
            cmpops = {ast.Lt: "{a} <? {b}", ast.LtE: "{a} <=? {b}", ast.Gt: "{b} <? {a}", ast.GtE: "{b} <=? {a}",
                      ast.Eq: "{a} =? {b}", ast.NotEq: "negb ({a} =? {b})"}
            if type(op) in cmpops:
                a, aty = self.ex(lhs)
                b, bty = self.ex(rhs)
                if aty != "N" or bty != "N":
                    self.refuse(e, f"comparison of {aty} with {bty}")
                return "(" + cmpops[type(op)].format(a=a, b=b) + ")", "bool"
            self.refuse(e, "comparison operator")
        self.refuse(e)

    def cond(self, e) -> str:
        n = len(self.pending) if self.pending is not None else 0
        if self.pending is None:
            self.pending = []
        term, ty = self.ex(e)
        if len(self.pending) != n:
            self.refuse(e, "an operation that may raise inside a condition")
        if ty != "bool":
            self.refuse(e, f"truth value of a {ty}")
        return term

    def record(self, cls, kw, base_proj, node) -> str:
        fields = CFG_RECORDS[cls]
        unknown = set(kw) - {f for f, _, _ in fields}
        if unknown or None in kw:
            self.refuse(node, f"unknown field(s) {sorted(map(str, unknown))}")
        items = []
        for pyf, projs, fty in fields:
            if pyf in kw:
                term, ty = self.ex(kw[pyf])
                if fty == "zint" or ty != fty:
                    self.refuse(node, f"field {pyf} ({fty}) given a {ty}")
                items.append(f"{projs[0]} := {term}")
            elif base_proj is not None:
                items += [f"{p} := {base_proj(p)}" for p in projs]
            else:
                dflt = self.defaults[cls].get(pyf, ...)
                if dflt is ... or not isinstance(dflt, (bool, int)) or fty not in ("bool", "N"):
                    self.refuse(node, f"field {pyf} has no usable default")
                items.append(f"{projs[0]} := {('true' if dflt else 'false') if isinstance(dflt, bool) else int(dflt)}")
        return "{| " + "; ".join(items) + " |}"

    # ---- statements --------------------------------------------------------------------------------
    def branch(self, body, loop, **bind):
        saved = dict(self.types)
        self.types.update(bind)
        try:
            return self.stmts(body, loop)
        finally:
            self.types = saved

    def wrap_pending(self, pending, code: str, loop: bool) -> str:
        for kind, g, d, k in reversed(pending):
            inner = code if kind == "get" else f"let {d} := dict_pop {k} {d} in\n{code}"
            code = (f"match dict_get {k} {d} with\n| None => {self.out(loop, 'Raised')}   (* KeyError *)\n"
                    f"| Some {g} =>\n{textwrap.indent(inner, '    ')}\nend")
        return code

    def stmts(self, body, loop) -> str:
        if not body:
            return self.out(loop, "Running") if loop else self.out(loop, "Returned")
        s, rest = body[0], body[1:]
        if isinstance(s, ast.Pass):
            return self.stmts(rest, loop)
        if isinstance(s, ast.Continue):
            if not loop:
                self.refuse(s, "continue outside a loop")
            return self.out(True, "Running") + "   (* continue: on to the next element *)"
        if isinstance(s, ast.Return):
            if s.value is not None and not (isinstance(s.value, ast.Constant) and s.value.value is None):
                self.refuse(s, "return value")
            return self.out(loop, "Returned") + "   (* return *)"
        if isinstance(s, ast.If):
            return self.if_(s, rest, loop)
        if isinstance(s, ast.For):
            if loop:
                self.refuse(s, "nested loop")
            return self.for_(s, rest)
        if isinstance(s, ast.Expr) and isinstance(s.value, ast.Call):
            c = s.value
            # d.pop(k, None): removal that never raises
            if isinstance(c.func, ast.Attribute) and c.func.attr == "pop" and isinstance(c.func.value, ast.Name) \
                    and isinstance(self.types.get(c.func.value.id), tuple) and self.types[c.func.value.id][0] == "dict" \
                    and len(c.args) == 2 and not c.keywords and isinstance(c.args[1], ast.Constant) and c.args[1].value is None:
                d = c.func.value.id
                self.pending = []
                kterm, kty = self.ex(c.args[0])
                if self.pending or kty != self.key_of(d):
                    self.refuse(s, "pop key")
                self.pending = None
                return f"let {d} := dict_pop {kterm} {d} in\n{self.stmts(rest, loop)}"
            self.refuse(s, "call statement")
        if isinstance(s, ast.Assign):
            if len(s.targets) != 1:
                self.refuse(s, "multiple targets")
            return self.assign(s, s.targets[0], rest, loop)
        self.refuse(s)

    def if_(self, s, rest, loop):
        t = s.test
        if isinstance(t, ast.Compare) and len(t.ops) == 1 and isinstance(t.ops[0], ast.Is) and isinstance(t.left, ast.Name) \
                and isinstance(t.comparators[0], ast.Constant) and t.comparators[0].value is None:
            x = t.left.id
            if self.types.get(x) != "optN":
                self.refuse(t, f"`is None` on a {self.types.get(x)}")
            a = self.branch(list(s.body) + rest, loop, **{x: "none"})
            b = self.branch(list(s.orelse) + rest, loop, **{x: "N"})
            return f"match {x} with\n| None =>\n{textwrap.indent(a, '    ')}\n| Some {x} =>\n{textwrap.indent(b, '    ')}\nend"
        if isinstance(t, ast.Call) and ast.unparse(t.func) == "isinstance" and len(t.args) == 2 and not t.keywords \
                and isinstance(t.args[0], ast.Name) and isinstance(t.args[1], ast.Name):
            x, cls = t.args[0].id, t.args[1].id
            if self.types.get(x) != "default_cfg" or cls not in CFG_RECORDS:
                self.refuse(t, "isinstance test")
            a = self.branch(list(s.body) + rest, loop, **{x: cls})
            b = self.branch(list(s.orelse) + rest, loop)
            return f"match {x} with\n| Is{cls} {x} =>\n{textwrap.indent(a, '    ')}\n| _ =>\n{textwrap.indent(b, '    ')}\nend"
        c = self.cond(t)
        self.pending = None
        a = self.branch(list(s.body) + rest, loop)
        b = self.branch(list(s.orelse) + rest, loop)
        return f"if {c} then\n{textwrap.indent(a, '  ')}\nelse\n{textwrap.indent(b, '  ')}"

    def assign(self, s, tgt, rest, loop):
        v = s.value
        if isinstance(v, ast.Await):
            return self.await_(s, tgt, v.value, rest, loop)
        # current_value, _ = type(cfg.value).deserialize(current_value)
        if isinstance(tgt, ast.Tuple) and isinstance(v, ast.Call) and isinstance(v.func, ast.Attribute) and v.func.attr == "deserialize" \
                and isinstance(v.func.value, ast.Call) and ast.unparse(v.func.value.func) == "type" and len(v.func.value.args) == 1 \
                and len(v.args) == 1 and not v.keywords and len(tgt.elts) == 2 and all(isinstance(x, ast.Name) for x in tgt.elts):
            self.pending = []
            zt, zty = self.ex(v.func.value.args[0])
            dt, dty = self.ex(v.args[0])
            if self.pending or not (isinstance(zty, tuple) and zty[0] == "zint") or dty != "bytes":
                self.refuse(s, "deserialize form")
            self.pending = None
            a, b = (x.id for x in tgt.elts)
            if a in CFG_STATE or b in CFG_STATE:
                self.refuse(s, "assignment to a state variable")
            body = self.branch(rest, loop, **{a: "N", b: "bytes"})
            return (f"match py_int_deserialize (vc_width {zt}) {dt} with\n| None => {self.out(loop, 'Raised')}   (* ValueError: data too short *)\n"
                    f"| Some ({a}, {b}) =>\n{textwrap.indent(body, '    ')}\nend")
        if isinstance(tgt, ast.Name):
            name = tgt.id
            if name in ("trace", "flow", "o", "SCHEMA_v", "DEFAULT_CONFIG_v"):
                self.refuse(s, "reserved name")
            if isinstance(v, ast.Dict) and not v.keys:
                if name not in CFG_LOCAL_DICTS:
                    self.refuse(s, "an empty dict whose use is not known")
                ty = CFG_LOCAL_DICTS[name]
                return f"let {name} := @nil (N * {_cfg_coqty(ty[2])}) in\n{self.branch(rest, loop, **{name: ty})}"
            self.pending = []
            term, ty = self.ex(v)
            if name in CFG_LOCAL_DICTS and ty != CFG_LOCAL_DICTS[name]:
                self.refuse(s, "state variable changes type")
            if ty == "none":
                term, ty = "@None N", "none"
            elif isinstance(ty, tuple) and ty[0] == "zint":
                self.refuse(s, "a zigpy integer object as a local")
            pend, self.pending = self.pending, None
            code = f"let {name} := {term} in\n{self.branch(rest, loop, **{name: ty})}"
            return self.wrap_pending(pend, code, loop)
        if isinstance(tgt, ast.Subscript) and isinstance(tgt.value, ast.Name) and isinstance(self.types.get(tgt.value.id), tuple) \
                and self.types[tgt.value.id][0] == "dict":
            d = tgt.value.id
            self.pending = []
            kterm, kty = self.ex(tgt.slice)
            if self.pending or kty != self.key_of(d):
                self.refuse(s, f"dict keyed by {self.key_of(d)} assigned under a {kty}")
            vterm, vty = self.ex(v)          # Python evaluates the right-hand side first; the key expression is pure
            if vty != self.types[d][2]:
                self.refuse(s, f"dict of {self.types[d][2]} assigned a {vty}")
            pend, self.pending = self.pending, None
            code = f"let {d} := dict_set {kterm} {vterm} {d} in\n{self.stmts(rest, loop)}"
            return self.wrap_pending(pend, code, loop)
        self.refuse(s, "assignment target")

    def await_(self, s, tgt, call, rest, loop):
        if not (isinstance(call, ast.Call) and isinstance(call.func, ast.Attribute) and isinstance(call.func.value, ast.Name)
                and call.func.value.id == "self" and call.func.attr in CFG_AWAITS and not call.args):
            self.refuse(s, "awaited expression")
        names, tys, oracle, ctor, results = CFG_AWAITS[call.func.attr]
        kw = {k.arg: k.value for k in call.keywords}
        if sorted(kw, key=str) != sorted(names):
            self.refuse(s, f"arguments of {call.func.attr}")
        self.pending = []
        args = []
        for n, want in zip(names, tys):
            e = kw[n]
            if want == "serialized":
                if not (isinstance(e, ast.Call) and isinstance(e.func, ast.Attribute) and e.func.attr == "serialize" and not e.args and not e.keywords):
                    self.refuse(e, "expected <value>.serialize()")
                term, ty = self.ex(e.func.value)
                if not (isinstance(ty, tuple) and ty[0] == "zint"):
                    self.refuse(e, "serialize() of something other than a ValueConfig value")
                args += [f"(vc_value {term})", f"(vc_width {term})"]
            else:
                term, ty = self.ex(e)
                if ty != want:
                    self.refuse(e, f"argument {n} ({want}) given a {ty}")
                args.append(term)
        if self.pending:
            self.refuse(s, "an operation that may raise inside a command's arguments")
        self.pending = None
        elts = list(tgt.elts) if isinstance(tgt, ast.Tuple) else None
        if elts is None or len(elts) != len(results) or not all(isinstance(x, ast.Name) for x in elts):
            self.refuse(s, f"unpacking of the {len(results)}-field response of {call.func.attr}")
        vs = [x.id for x in elts]
        if any(x in CFG_STATE or x == "o" for x in vs) or len(set(vs)) != len(vs):
            self.refuse(s, "response assigned to a state variable")
        a = " ".join(args)
        pat = f"'({', '.join(vs)})" if len(vs) > 1 else vs[0]
        body = self.branch(rest, loop, **dict(zip(vs, results)))
        return (f"let {pat} := {oracle} o trace {a} in   (* await self.{call.func.attr} *)\n"
                f"let trace := trace ++ [{ctor} {a}] in\n{body}")

    def for_(self, s, rest):
        if s.orelse:
            self.refuse(s, "for ... else")
        for d in ("ezsp_config", "ezsp_values"):
            if d not in self.types:
                self.refuse(s, f"loop before {d} is initialised")
        it = s.iter
        bind, pat = {}, None
        if ast.unparse(it) == "DEFAULT_CONFIG[self._protocol.VERSION]" and isinstance(s.target, ast.Name):
            iter_term, elem = "DEFAULT_CONFIG_v", "default_cfg"
            bind[s.target.id] = "default_cfg"
            x = s.target.id
        elif isinstance(it, ast.Call) and isinstance(it.func, ast.Attribute) and it.func.attr in ("values", "items") and not it.args \
                and not it.keywords and isinstance(it.func.value, ast.Name) and isinstance(self.types.get(it.func.value.id), tuple) \
                and self.types[it.func.value.id][0] == "dict":
            d = it.func.value.id
            _, kty, vty = self.types[d]
            # Python raises RuntimeError when a dict changes size during iteration: the fold runs over the dict as it
            # is at loop entry, so the body must leave it alone
            for n in ast.walk(ast.Module(body=list(s.body), type_ignores=[])):
                if (isinstance(n, ast.Subscript) and isinstance(n.ctx, (ast.Store, ast.Del)) and ast.unparse(n.value) == d) \
                        or (isinstance(n, ast.Call) and isinstance(n.func, ast.Attribute) and ast.unparse(n.func.value) == d
                            and n.func.attr not in ("get", "values", "items", "keys")) \
                        or (isinstance(n, ast.Name) and n.id == d and isinstance(n.ctx, (ast.Store, ast.Del))):
                    self.refuse(n, f"the loop body changes {d}, the dict it iterates over")
            if it.func.attr == "values":
                if not isinstance(s.target, ast.Name):
                    self.refuse(s.target, "loop target")
                iter_term, elem, x = f"(dict_values {d})", _cfg_coqty(vty), s.target.id
                bind[x] = vty
            else:
                if not (isinstance(s.target, ast.Tuple) and len(s.target.elts) == 2 and all(isinstance(e, ast.Name) for e in s.target.elts)):
                    self.refuse(s.target, "loop target")
                a, b = (e.id for e in s.target.elts)
                iter_term, elem, x = f"(dict_items {d})", f"N * {_cfg_coqty(vty)}", "item"
                pat = f"let '({a}, {b}) := item in\n"
                bind[a], bind[b] = kty, vty
        else:
            self.refuse(it, "loop iterable")
        if any(k in CFG_STATE or k == "o" for k in bind):
            self.refuse(s.target, "loop target shadows a state variable")
        key = id(s)
        if key not in self.loops:
            used = {n.id for st in s.body for n in ast.walk(st) if isinstance(n, ast.Name)}
            free = [n for n in self.types if n in used and n not in CFG_STATE and n not in bind and n != "o"]
            if any(isinstance(n, ast.Await) for st in s.body for n in ast.walk(st)):
                free = ["o"] + free
            if "'SCHEMAS'" in ast.dump(ast.Module(body=list(s.body), type_ignores=[])):
                self.refuse(s, "schema use inside a loop")
            name = f"py_write_config_for{len(self.loops) + 1}"
            entry_types = {n: self.types[n] for n in free + CFG_STATE[:2]}
            self.loops[key] = (name, free, entry_types)
            body = self.branch(list(s.body), True, **bind)
            sig = "".join(f" ({n} : {_cfg_coqty(self.types[n])})" for n in free)
            self.defs.append(
                f"(* the body of `for {ast.unparse(s.target)} in {ast.unparse(it)}:` *)\n"
                f"Definition {name}{sig} (s : wc_state) ({x} : {elem}) : wc_state :=\n"
                f"  let '({', '.join(CFG_STATE)}) := s in\n"
                f"  match flow with\n  | Running =>\n{textwrap.indent((pat or '') + body, '      ')}\n"
                f"  | _ => s   (* the function has returned / raised: nothing more is executed *)\n  end.\n\n")
        name, free, entry_types = self.loops[key]
        if entry_types != {n: self.types.get(n) for n in entry_types}:
            self.refuse(s, "the loop is reached with different variable types on different paths")
        after = self.stmts(rest, False)
        return (f"let '({', '.join(CFG_STATE)}) :=\n  fold_left ({name}{''.join(' ' + n for n in free)}) {iter_term} ({', '.join(CFG_STATE[:3])}, Running) in\n"
                f"match flow with\n| Running =>\n{textwrap.indent(after, '    ')}\n| _ => (trace, flow)\nend")


CFG_PRELUDE = """(* GENERATED by harness/pysrc.py from the SOURCE TEXT of EZSP.write_config (bellows/ezsp/__init__.py) -- do not edit *)
From Coq Require Import NArith List Bool.
Import ListNotations.
Require Import BV.lib.PyDict BV.gen.GenConfig BV.gen.GenStatus BV.model.Status.
Open Scope N_scope.

(* Conventions (see harness/pysrc.py, CfgTr):
   - dicts are association lists with Python's semantics (lib/PyDict.v); an enum member and its name are both the
     numeric id (the generator checked that this is one-to-one for every name involved);
   - the dataclasses of bellows/ezsp/config.py are the records below; ValueConfig.value is a fixed-width zigpy
     integer, kept as its little-endian number and its width in bytes (what .serialize() writes);
   - an element of DEFAULT_CONFIG[version] is one of the two: isinstance is the match on the constructor;
   - every awaited command takes the NCP's answer from the oracle [o : ncp], which sees all commands issued so far,
     and is appended to [trace];
   - [flow]: Running while statements execute, Returned after `return` / the end of the function, Raised when a
     statement raises (no handler in write_config: the coroutine ends there). *)
Record RuntimeConfig := { rc_config_id : N; rc_value : N; rc_minimum : bool }.
Record ValueConfig := { vc_value_id : N; vc_value : N; vc_width : N }.
Inductive default_cfg := IsRuntimeConfig (c : RuntimeConfig) | IsValueConfig (c : ValueConfig).

(* a row of gen/GenConfig.v's DEFAULT_CONFIG: (is_value, id, value, minimum, width) *)
Definition cfg_of_row (x : bool * N * N * bool * N) : default_cfg :=
  match x with
  | (false, id, val, mn, _) => IsRuntimeConfig {| rc_config_id := id; rc_value := val; rc_minimum := mn |}
  | (true, id, val, _, w) => IsValueConfig {| vc_value_id := id; vc_value := val; vc_width := w |}
  end.

Inductive cmd :=
| CGetValue (valueId : N)
| CSetValue (valueId value width : N)
| CGetConfigurationValue (configId : N)
| CSetConfigurationValue (configId value : N).

(* a status as the NCP returns it: (family, code); EzspStatus on old protocol versions, sl_Status on new ones *)
Definition status := (family * N)%type.
(* t.sl_Status.from_ember_status(status) == t.sl_Status.OK *)
Definition py_status_ok (s : status) : bool := normalise (fst s) (snd s) =? sl_OK.

(* the NCP's answers; the first argument is the list of commands issued before this one *)
Record ncp := {
  ans_getValue : list cmd -> N -> status * list N;
  ans_setValue : list cmd -> N -> N -> N -> status;
  ans_getConfigurationValue : list cmd -> N -> status * N;
  ans_setConfigurationValue : list cmd -> N -> N -> status }.

Inductive flow_t := Running | Returned | Raised.
Definition wc_state := (dict RuntimeConfig * dict ValueConfig * list cmd * flow_t)%type.

(* zigpy FixedIntType.deserialize (checked by the generator to be the codec of every ValueConfig value):
   ValueError when fewer than [width] bytes are given, else (little-endian value, remaining bytes) *)
Definition le_num (l : list N) : N := fold_right (fun b acc => b + 256 * acc) 0 l.
Definition py_int_deserialize (width : N) (data : list N) : option (N * list N) :=
  if N.of_nat (List.length data) <? width then None
  else Some (le_num (firstn (N.to_nat width) data), skipn (N.to_nat width) data).

(* the voluptuous schema SCHEMAS[CONF_EZSP_CONFIG] applied to a dict of valid keys: the caller's items in their order,
   then the schema's default for every key the caller did not give (contract of the external library; the generator
   re-checks it on the live schemas, the C16 correspondence on every case) *)
Definition py_schema_validate (defaults : list (N * N)) (config : dict (option N)) : dict (option N) :=
  config ++ map (fun kv => (fst kv, Some (snd kv))) (filter (fun kv => negb (dict_mem (fst kv) config)) defaults).

"""


def gen_config_fn() -> str:
    import dataclasses as dc

    import bellows.config as bconf
    import bellows.ezsp as E
    import bellows.ezsp.config as cfgmod
    import bellows.types as t
    import voluptuous as vol
    import zigpy.types.basic as zb

    where = "EZSP.write_config (source)"
    # ---- the live objects the emitted code talks about
    if E.RuntimeConfig is not cfgmod.RuntimeConfig or E.ValueConfig is not cfgmod.ValueConfig or E.DEFAULT_CONFIG is not cfgmod.DEFAULT_CONFIG:
        raise GenError(where, "RuntimeConfig / ValueConfig / DEFAULT_CONFIG of bellows.ezsp are not those of bellows.ezsp.config")
    if getattr(E, "dataclasses", None) is not dc or E.t is not t or E.conf is not bconf:
        raise GenError(where, "module aliases dataclasses / t / conf")
    defaults = {}
    for cls, want in ((cfgmod.RuntimeConfig, ["config_id", "value", "minimum"]), (cfgmod.ValueConfig, ["value_id", "value"])):
        fs = dc.fields(cls)
        if [f.name for f in fs] != want:
            raise GenError(cls.__name__, f"fields {[f.name for f in fs]}, expected {want}")
        defaults[cls.__name__] = {f.name: f.default for f in fs if f.default is not dc.MISSING}
    if defaults != {"RuntimeConfig": {"minimum": False}, "ValueConfig": {}}:
        raise GenError("RuntimeConfig / ValueConfig", f"field defaults {defaults}")
    # ---- names stand for ids: every name used as a key must be the canonical name of its member
    for v in sorted(E.EZSP._BY_VERSION):
        if v not in cfgmod.DEFAULT_CONFIG:
            continue
        for c in cfgmod.DEFAULT_CONFIG[v]:
            if isinstance(c, cfgmod.RuntimeConfig):
                if t.EzspConfigId[c.config_id.name].name != c.config_id.name:
                    raise GenError(f"DEFAULT_CONFIG[{v}]", f"{c.config_id.name} is an alias in EzspConfigId")
            elif isinstance(c, cfgmod.ValueConfig):
                if t.EzspValueId[c.value_id.name].name != c.value_id.name:
                    raise GenError(f"DEFAULT_CONFIG[{v}]", f"{c.value_id.name} is an alias in EzspValueId")
                ty = type(c.value)
                if not (isinstance(c.value, zb.FixedIntType) and getattr(ty.deserialize, "__func__", None) is zb.FixedIntType.deserialize.__func__
                        and getattr(ty, "_signed", True) is False and len(c.value.serialize()) == ty._size):
                    raise GenError(f"DEFAULT_CONFIG[{v}]", f"value of {c.value_id.name} is not an unsigned fixed-width zigpy integer")
        sch = E.EZSP._BY_VERSION[v].SCHEMAS[bconf.CONF_EZSP_CONFIG]
        keys = [(k.schema if isinstance(k, vol.Marker) else k) for k in sch.schema]
        for k in keys:
            if t.EzspConfigId[k].name != k:
                raise GenError(f"v{v} schema key {k}", "is an alias in EzspConfigId")
        # the stated contract of the schema (py_schema_validate), re-checked on a sample
        base = sch({})
        if len(keys) >= 2:
            try:
                given = {keys[-1]: None, keys[0]: None}
                got = sch(dict(given))
            except Exception as e:   # noqa
                raise GenError(f"v{v} schema", f"does not accept None for {keys[-1]} / {keys[0]}: {e!r}")
            want_items = list(given.items()) + [(k, val) for k, val in base.items() if k not in given]
            if list(got.items()) != want_items:
                raise GenError(f"v{v} schema", f"output order / defaults differ from the contract: {list(got.items())} vs {want_items}")
    # ---- response arities the unpacking statements rely on
    for v, cls in E.EZSP._BY_VERSION.items():
        for name, (_, _, _, _, results) in CFG_AWAITS.items():
            rx = cls.COMMANDS[name][2]
            if len(rx) != len(results):
                raise GenError(f"v{v}.{name}", f"response has {len(rx)} fields, the translation assumes {len(results)}")
    # ---- the function
    fn = E.EZSP.__dict__["write_config"]
    node = _StripLogs().visit(_fn_ast_async(fn))
    a = node.args
    if [x.arg for x in a.args] != ["self", "config"] or a.vararg or a.kwarg or a.kwonlyargs or a.posonlyargs or node.decorator_list:
        raise GenError(where, "signature")
    tr = CfgTr(where, {"EzspConfigId": t.EzspConfigId, "EzspValueId": t.EzspValueId}, defaults)
    tr.types = {"o": "ncp", "config": ("dict", "cname", "optN")}
    term = tr.stmts(list(node.body), False)
    out = [CFG_PRELUDE]
    out += tr.defs
    out.append("(* from the source of EZSP.write_config; DEFAULT_CONFIG_v = DEFAULT_CONFIG[self._protocol.VERSION],\n"
               "   SCHEMA_v = the defaults of self._protocol.SCHEMAS[CONF_EZSP_CONFIG]; result: commands issued, how it ended *)\n"
               "Definition py_write_config_body (DEFAULT_CONFIG_v : list default_cfg) (SCHEMA_v : list (N * N)) (o : ncp)\n"
               "    (config : dict (option N)) : list cmd * flow_t :=\n"
               "  let trace := @nil cmd in\n" + textwrap.indent(term, "  ") + ".\n\n")
    out.append("(* the two per-version lookups (a missing version is a KeyError before anything is sent) *)\n"
               "Definition py_write_config (v : N) (o : ncp) (config : dict (option N)) : option (list cmd * flow_t) :=\n"
               "  match dict_get v DEFAULT_CONFIG, dict_get v SCHEMA_DEFAULTS with\n"
               "  | Some rows, Some sd => Some (py_write_config_body (map cfg_of_row rows) sd o config)\n"
               "  | _, _ => None\n  end.\n")
    return "".join(out)




# ==================================================================================================
# ControllerApplication.ezsp_callback_handler / _handle_frame / _handle_tc_join_handler (C13):
# the callback's `args` tuple lives over the FLAT decoded values of the frame (element k = the k-th field
# of the callback's generated field list, GenCallbacks.CB_FIELDS); Python variables bound by the tuple
# unpacking are element indices; a handler's parameters are the values its body reads, read by the caller.
# ==================================================================================================
APP_PREAMBLE = """\
(* GENERATED by harness/pysrc.py from the SOURCE TEXT of ControllerApplication.ezsp_callback_handler, _handle_frame,
   _handle_tc_join_handler and _handle_frame_sent (bellows/zigbee/application.py) -- do not edit *)
From Coq Require Import String ZArith NArith List Bool.
Import ListNotations.
Require Import BV.lib.EzspTypes BV.gen.GenCallbacks BV.gen.GenStatus BV.model.Status BV.model.Translate.
Open Scope N_scope.

(* the callback's args tuple over the flat decoded values of the frame: element k is the k-th field of the callback's
   field list (name, first flat item, number of flat items) *)
Definition py_args := (list (string * nat * nat) * list ival)%type.
Definition args_len (A : py_args) : nat := List.length (fst A).
Definition arg_at (A : py_args) (k : nat) : option (nat * nat) :=
  match nth_error (fst A) k with Some (_, s, c) => Some (s, c) | None => None end.
Definition arg_int (A : py_args) (k : nat) : option Z :=
  match arg_at A k with Some (s, _) => geti s (snd A) | None => None end.
(* an element of an unsigned wire type (its decoded value is never negative) *)
Definition arg_uint (A : py_args) (k : nat) : option N :=
  match arg_int A k with Some z => Some (Z.to_N z) | None => None end.
Definition arg_bytes (A : py_args) (k : nat) : option (list N) :=
  match arg_at A k with Some (s, _) => getb s (snd A) | None => None end.
Definition arg_rows (A : py_args) (k : nat) : option (list (list pval)) :=
  match arg_at A k with Some (s, _) => getl s (snd A) | None => None end.
Fixpoint index_of (x : string) (l : list string) : option nat :=
  match l with
  | [] => None
  | y :: l' => if String.eqb x y then Some O else match index_of x l' with Some i => Some (S i) | None => None end
  end.
(* <element k>.<attr> for an EmberApsFrame element: the flat item at the attribute's position in the struct *)
Definition arg_attr (A : py_args) (k : nat) (attr : string) : option Z :=
  match arg_at A k, index_of attr APS_FRAME_FIELDS with
  | Some (s, c), Some i => if (i <? c)%nat then geti (s + i) (snd A) else None
  | _, _ => None
  end.
Definition obind {X Y : Type} (o : option X) (f : X -> option Y) : option Y :=
  match o with Some x => f x | None => None end.

(* what _handle_frame_sent does with the table of pending requests (C12) *)
Inductive py_sent :=
| PSetResult (key : N * N) (status : N) (text : string)   (* self._pending[key].result.set_result((status, text)) *)
| PUnexpected                                             (* KeyError: no request is registered under the key *)
| PDuplicate.                                             (* asyncio.InvalidStateError: its future is already resolved *)

(* what one call of ezsp_callback_handler does, as far as C13 and C12 speak of it *)
Inductive py_outcome :=
| POut (r : option (list app_event))   (* a translated handler ran: the events handed to zigpy (packet_received / handle_join /
                                          handle_leave), in order; None = the call raises on an ill-shaped args tuple *)
| PSent (r : (N -> N -> option bool) -> option py_sent)   (* _handle_frame_sent ran: what it does given the table of pending
                                          requests (key -> is the request's future resolved); None as above *)
| PCalls (callees : list string)       (* a branch whose body is not translated here: the methods of self it calls *)
| PNoBranch.                           (* no branch of the chain matches: nothing is done *)

"""

_MISSING = object()


def _cmt(text: str) -> str:
    """Python source quoted inside a Gallina comment: no comment delimiters, no string delimiters"""
    return text.replace("(*", "( *").replace("*)", "* )").replace('"', "'")


_COUNTER_INC = __import__("re").compile(r"^self\.state\.counters\[\w+\]\[[^\[\]]+\]\.increment\(\)$")


def _resolve(ns: dict, node):
    """object named by a dotted name in the namespace of the live module (no evaluation of anything else)"""
    parts = []
    while isinstance(node, ast.Attribute):
        parts.append(node.attr)
        node = node.value
    if not isinstance(node, ast.Name) or node.id not in ns:
        return _MISSING
    obj = ns[node.id]
    for p in reversed(parts):
        obj = getattr(obj, p, _MISSING)
        if obj is _MISSING:
            return _MISSING
    return obj


class AppTr:
    """body of a synchronous handler of ControllerApplication whose observable effects are calls of zigpy's
    packet_received / handle_join / handle_leave.  `params`: name -> 'Z' | 'bytes' | 'rows' | 'struct'.  The values the
    body reads (`p`, `p.attr` for a struct) are collected in `reads`, in order of first use: they become the parameters
    of the emitted function.  Result of the emitted function: the list of events, in call order."""

    PACKET_FIELDS = {"src_ep": "k_src_ep", "dst_ep": "k_dst_ep", "tsn": "k_tsn", "profile_id": "k_profile",
                     "cluster_id": "k_cluster", "lqi": "k_lqi", "rssi": "k_rssi"}
    RECORD_ORDER = ["k_src", "k_src_ep", "k_dst", "k_dst_ep", "k_tsn", "k_profile", "k_cluster", "k_data", "k_lqi", "k_rssi"]

    def __init__(self, where, ns, params, struct_fields, ghosts=()):
        import zigpy.types as zt
        self.zt = zt
        self.where, self.ns, self.params, self.struct_fields = where, ns, dict(params), struct_fields
        self.locals = {}                # local name -> 'dest'
        self.reads = []                 # (coq name, param, attr | None)
        self.ignored = []               # statements skipped, for the header comment
        self.ghosts = [_dump(g) for g in ghosts]

    def refuse(self, node, why="unsupported construct"):
        src = ast.unparse(node) if isinstance(node, ast.AST) else str(node)
        raise GenError(self.where, f"{why}: `{src[:100]}`")

    def use(self, param, attr=None):
        name = param if attr is None else f"{param}_{attr}"
        if (name, param, attr) not in self.reads:
            self.reads.append((name, param, attr))
        return name

    # ---- expressions ---------------------------------------------------------------------------
    def zexpr(self, e) -> str:
        """an integer-valued expression"""
        if isinstance(e, ast.Name):
            if self.params.get(e.id) == "Z":
                return self.use(e.id)
            self.refuse(e, "not an integer parameter")
        if isinstance(e, ast.Attribute):
            if isinstance(e.value, ast.Name) and self.params.get(e.value.id) == "struct":
                if e.attr not in self.struct_fields:
                    self.refuse(e, "unknown field of the APS frame")
                return self.use(e.value.id, e.attr)
            if ast.unparse(e) == "self.state.node_info.nwk":
                return "own_nwk"
            obj = _resolve(self.ns, e)
            if obj is not _MISSING and isinstance(obj, int) and not isinstance(obj, bool):
                return f"{int(obj)}%Z (* {_cmt(ast.unparse(e))} *)"
            self.refuse(e, "attribute that is neither a field read nor an integer constant of the live module")
        self.refuse(e, "integer expression")

    def cond(self, e) -> str:
        if isinstance(e, ast.Compare) and len(e.ops) == 1 and isinstance(e.ops[0], (ast.Eq, ast.NotEq)):
            t = f"({self.zexpr(e.left)} =? {self.zexpr(e.comparators[0])})%Z"
            return t if isinstance(e.ops[0], ast.Eq) else f"negb {t}"
        self.refuse(e, "condition")

    def _kwcall(self, e, cls, want):
        if not (isinstance(e, ast.Call) and _resolve(self.ns, e.func) is cls and not e.args):
            self.refuse(e, f"expected {cls.__name__}(<keywords>)")
        kw = {}
        for k in e.keywords:
            if k.arg is None or k.arg in kw:
                self.refuse(e, "keyword arguments")
            kw[k.arg] = k.value
        if set(kw) != set(want):
            self.refuse(e, f"keywords {sorted(kw)} differ from {sorted(want)}")
        return kw

    def addr(self, e):
        """AddrModeAddress(addr_mode=<AddrMode member>, address=<integer>) -> (member name, term)"""
        kw = self._kwcall(e, self.zt.AddrModeAddress, ("addr_mode", "address"))
        mode = _resolve(self.ns, kw["addr_mode"])
        if not isinstance(mode, self.zt.AddrMode):
            self.refuse(kw["addr_mode"], "address mode")
        return mode, self.zexpr(kw["address"])

    def dest(self, e) -> str:
        if isinstance(e, ast.Name):
            if self.locals.get(e.id) == "dest":
                return e.id
            self.refuse(e, "local is not assigned on every path that reaches this use (UnboundLocalError)")
        mode, term = self.addr(e)
        ctor = {self.zt.AddrMode.NWK: "DNwk", self.zt.AddrMode.Group: "DGroup", self.zt.AddrMode.Broadcast: "DBroadcast"}.get(mode)
        if ctor is None:
            self.refuse(e, f"destination mode {mode!r} has no counterpart in the model")
        return f"{ctor} ({term})"

    def packet(self, e) -> str:
        kw = self._kwcall(e, self.zt.ZigbeePacket, ("src", "dst", "data") + tuple(self.PACKET_FIELDS))
        rec = {}
        mode, term = self.addr(kw["src"])
        if mode is not self.zt.AddrMode.NWK:
            self.refuse(kw["src"], "source address mode is not NWK")
        rec["k_src"] = term
        rec["k_dst"] = self.dest(kw["dst"])
        d = kw["data"]
        if not (isinstance(d, ast.Call) and _resolve(self.ns, d.func) is self.zt.SerializableBytes and len(d.args) == 1
                and not d.keywords and isinstance(d.args[0], ast.Name) and self.params.get(d.args[0].id) == "bytes"):
            self.refuse(d, "payload")
        rec["k_data"] = self.use(d.args[0].id)
        for k, f in self.PACKET_FIELDS.items():
            rec[f] = self.zexpr(kw[k])
        return "{| " + ";\n   ".join(f"{f} := {rec[f]}" for f in self.RECORD_ORDER) + " |}"

    # ---- statements ----------------------------------------------------------------------------
    def skip(self, s) -> bool:
        if isinstance(s, ast.Pass):
            return True
        if isinstance(s, ast.Expr) and isinstance(s.value, ast.Constant):
            return True
        src = ast.unparse(s)
        if isinstance(s, ast.Expr) and _COUNTER_INC.match(src):
            if src not in self.ignored:
                self.ignored.append(src)
            return True
        if _dump(src) in self.ghosts:
            first = src.split("\n")[0]
            if first not in self.ignored:
                self.ignored.append(first)
            return True
        return False

    def stmts(self, body) -> str:
        if not body:
            return "ev"
        s, rest = body[0], body[1:]
        if self.skip(s):
            return self.stmts(rest)
        if isinstance(s, ast.Return) and s.value is None:
            return "ev"
        if isinstance(s, ast.If):
            saved = dict(self.locals)
            a = self.stmts(list(s.body) + rest)
            self.locals = dict(saved)
            b = self.stmts(list(s.orelse) + rest)
            self.locals = saved
            return f"if {self.cond(s.test)} then\n{textwrap.indent(a, '  ')}\nelse\n{textwrap.indent(b, '  ')}"
        if isinstance(s, ast.Assign) and len(s.targets) == 1 and isinstance(s.targets[0], ast.Name):
            name = s.targets[0].id
            if name in self.params:
                self.refuse(s, "assignment to a parameter")
            term = self.dest(s.value)
            self.locals[name] = "dest"
            return f"let {name} := {term} in\n{self.stmts(rest)}"
        if isinstance(s, ast.Expr) and isinstance(s.value, ast.Call) and not s.value.keywords:
            f, args = ast.unparse(s.value.func), s.value.args
            if f == "self.packet_received" and len(args) == 1:
                return f"let ev := ev ++ [EvPacket\n  {self.packet(args[0])}] in\n{self.stmts(rest)}"
            kinds = [self.params.get(a.id) if isinstance(a, ast.Name) else None for a in args]
            if f == "self.handle_leave" and kinds == ["Z", "rows"]:
                return f"let ev := ev ++ [EvLeave {self.use(args[0].id)} {self.use(args[1].id)}] in\n{self.stmts(rest)}"
            if f == "self.handle_join" and kinds == ["Z", "rows", "Z"]:
                return (f"let ev := ev ++ [EvJoin {self.use(args[0].id)} {self.use(args[1].id)} {self.use(args[2].id)}] in\n"
                        f"{self.stmts(rest)}")
        self.refuse(s)


COQ_KIND = {"Z": "Z", "bytes": "list N", "rows": "list (list pval)"}
# _handle_tc_join_handler: task management that hands nothing to zigpy (the link-key clean-up task, the temporary
# manufacturer id); pinned by their normalised source and skipped
JOIN_GHOSTS = (
    "if device_update_status == t.EmberDeviceUpdate.STANDARD_SECURITY_UNSECURED_JOIN:\n"
    "    self.create_task(self.cleanup_tc_link_key(ieee), 'cleanup_tc_link_key')",
    "mfg_id = IEEE_PREFIX_MFG_ID.get(str(ieee)[:8].upper())",
    "if mfg_id is not None:\n"
    "    if self._mfg_id_task and not self._mfg_id_task.done():\n"
    "        self._mfg_id_task.cancel()\n"
    "    self._mfg_id_task = asyncio.create_task(self._reset_mfg_id(mfg_id))",
)


def _app_handler(C, ns, name, coq_name, ghosts=()):
    """translate one handler; returns (text, info) with info = parameter list, kinds, reads"""
    import bellows.types as t
    import ezsptypes as et
    node = _fn_ast(C.__dict__[name])
    where = f"ControllerApplication.{name} (source)"
    a = node.args
    if a.vararg or a.kwarg or a.kwonlyargs or a.defaults or a.posonlyargs or not a.args or a.args[0].arg != "self":
        raise GenError(where, "signature is not (self, <plain parameters>)")
    params, kinds, schema_kind = [], {}, {}
    for p in a.args[1:]:
        if p.annotation is None:
            raise GenError(where, f"parameter {p.arg} has no annotation")
        obj = _resolve(ns, p.annotation)
        if isinstance(p.annotation, ast.Name) and p.annotation.id == "bytes" and "bytes" not in ns:
            obj = bytes
        if obj is bytes:
            k, sk = "bytes", "lvbytes"
        else:
            try:
                sk = et.kind(obj)
            except Exception as e:
                raise GenError(where, f"parameter {p.arg}: annotation `{ast.unparse(p.annotation)}`: {e}")
            k = {"int": "Z", "fixedlist": "rows", "struct": "struct"}.get(sk)
            if k is None or (k == "struct" and obj is not t.EmberApsFrame):
                raise GenError(where, f"parameter {p.arg}: annotation `{ast.unparse(p.annotation)}` is not an integer, EUI64, bytes or EmberApsFrame")
        params.append(p.arg)
        kinds[p.arg] = k
        schema_kind[p.arg] = sk
    tr = AppTr(where, ns, kinds, [f.name for f in t.EmberApsFrame.fields], ghosts)
    body = _StripLogs().visit(node).body
    term = tr.stmts(list(body))
    # parameters of the emitted function: reads in the order of the Python signature (struct attributes by first use)
    reads = [r for p in params for r in tr.reads if r[1] == p]
    sig = " ".join(f"({n} : {COQ_KIND['Z' if at else kinds[p]]})" for n, p, at in reads)
    unread = [p for p in params if not any(r[1] == p for r in reads)]
    txt = (f"(* from the source of ControllerApplication.{name}.  own_nwk = self.state.node_info.nwk; the other parameters are the\n"
           f"   values the body reads from its Python parameters ({', '.join(n + ' = ' + p + '.' + at for n, p, at in reads if at) or 'no attribute reads'});\n"
           f"   never read: {', '.join(unread) or '-'}.  Skipped (no event handed to zigpy): log calls"
           + "".join(f";\n   {_cmt(x)}" for x in tr.ignored) + " *)\n"
           f"Definition {coq_name} (own_nwk : Z) {sig} : list app_event :=\n"
           f"  let ev := @nil app_event in\n{textwrap.indent(term, '  ')}.\n\n")
    return txt, {"params": params, "kinds": kinds, "schema_kind": schema_kind, "reads": reads, "coq": coq_name,
                 "first": "own_nwk", "wrap": ("POut (", ")"), "fail": "POut None"}


def _version_test(t, where):
    """self._ezsp.ezsp_version <op> <int literal> -> (Gallina term over v, python predicate)"""
    if isinstance(t, ast.Compare) and len(t.ops) == 1 and ast.unparse(t.left) == "self._ezsp.ezsp_version" \
            and isinstance(t.comparators[0], ast.Constant) and type(t.comparators[0].value) is int and t.comparators[0].value >= 0:
        n = t.comparators[0].value
        table = {ast.GtE: (f"({n} <=? v)", lambda v: v >= n), ast.Gt: (f"({n} <? v)", lambda v: v > n),
                 ast.LtE: (f"(v <=? {n})", lambda v: v <= n), ast.Lt: (f"(v <? {n})", lambda v: v < n),
                 ast.Eq: (f"(v =? {n})", lambda v: v == n)}
        if type(t.ops[0]) in table:
            return table[type(t.ops[0])]
    raise GenError(where, f"version test `{ast.unparse(t)}`")


def _unpack(s, where):
    """`(a, b, ...) = args` -> names in order"""
    if isinstance(s, ast.Assign) and len(s.targets) == 1 and isinstance(s.targets[0], ast.Tuple) \
            and isinstance(s.value, ast.Name) and s.value.id == "args" \
            and all(isinstance(e, ast.Name) for e in s.targets[0].elts):
        names = [e.id for e in s.targets[0].elts]
        if len(set(names)) != len(names) or "args" in names:
            raise GenError(where, f"repeated target in `{ast.unparse(s)[:80]}`")
        return names
    raise GenError(where, f"expected a tuple unpacking of args: `{ast.unparse(s)[:80]}`")


def _call_reads(info, bound, post=None, A="A"):
    """nested reads for a call of a translated handler; `bound`: handler parameter -> Gallina term of the element index;
    `post`: handler parameter -> function applied to the value read (a rebinding between the unpacking and the call)"""
    getter = {"Z": "arg_int", "N": "arg_uint", "bytes": "arg_bytes", "rows": "arg_rows"}
    post = post or {}
    opening, names = [], []
    for n, p, at in info["reads"]:
        if at is None:
            opening.append(f"obind ({getter[info['kinds'][p]]} {A} {bound[p]}) (fun v_{n} =>")
        else:
            opening.append(f'obind (arg_attr {A} {bound[p]} "{at}"%string) (fun v_{n} =>')
        names.append(f"({post[p]} v_{n})" if p in post and at is None else f"v_{n}")
    head, tail = info["wrap"]
    return (head + "\n      ".join(opening) + f"\n      Some ({info['coq']} {info['first']} {' '.join(names)})" + ")" * len(opening) + tail)


# _handle_frame_sent: which counter is incremented -- no control flow, nothing C12 speaks of; pinned and skipped
SENT_GHOST = """
if message_type in (t.EmberOutgoingMessageType.OUTGOING_BROADCAST, t.EmberOutgoingMessageType.OUTGOING_BROADCAST_WITH_ALIAS):
    cnt_name = f'broadcast_tx_{msg}'
elif message_type in (t.EmberOutgoingMessageType.OUTGOING_MULTICAST, t.EmberOutgoingMessageType.OUTGOING_MULTICAST_WITH_ALIAS):
    cnt_name = f'multicast_tx_{msg}'
elif message_type in (t.EmberOutgoingMessageType.OUTGOING_DIRECT, t.EmberOutgoingMessageType.OUTGOING_VIA_ADDRESS_TABLE):
    cnt_name = f'unicast_tx_{msg}'
elif message_type == t.EmberOutgoingMessageType.OUTGOING_VIA_BINDING:
    cnt_name = f'via_binding_tx_{msg}'
else:
    cnt_name = f'unknown_msg_type_{msg}'
"""


class SentTr:
    """ControllerApplication._handle_frame_sent: a text chosen by the status, then one try block -- the look-up of the
    pending request under (destination, message_tag), set_result on its future -- with the handlers of KeyError and
    asyncio.InvalidStateError.  `pending key1 key2` = Some (the request's future is already resolved) | None."""

    def __init__(self, where, ns, uints):
        self.where, self.ns, self.uints = where, ns, set(uints)
        self.strs, self.keys = set(), {}
        self.reads, self.ignored = [], []

    def refuse(self, node, why="unsupported construct"):
        src = ast.unparse(node) if isinstance(node, ast.AST) else str(node)
        raise GenError(self.where, f"{why}: `{src[:100]}`")

    def use(self, name):
        if name not in self.uints:
            self.refuse(name, "not an unsigned integer parameter")
        if name not in self.reads:
            self.reads.append(name)
        return name

    def nexpr(self, e):
        if isinstance(e, ast.Name):
            return self.use(e.id)
        obj = _resolve(self.ns, e)
        if isinstance(e, ast.Attribute) and obj is not _MISSING and isinstance(obj, int) and not isinstance(obj, bool) and int(obj) >= 0:
            return f"{int(obj)} (* {_cmt(ast.unparse(e))} *)"
        self.refuse(e, "integer expression")

    def cond(self, e):
        if isinstance(e, ast.Compare) and len(e.ops) == 1 and isinstance(e.ops[0], (ast.Eq, ast.NotEq)):
            t = f"({self.nexpr(e.left)} =? {self.nexpr(e.comparators[0])})"
            return t if isinstance(e.ops[0], ast.Eq) else f"negb {t}"
        self.refuse(e, "condition")

    def text(self, e):
        """a string literal, a local holding one, or an f-string over those"""
        if isinstance(e, ast.Constant) and isinstance(e.value, str) and '"' not in e.value:
            return f'"{e.value}"%string'
        if isinstance(e, ast.Name) and e.id in self.strs:
            return e.id
        if isinstance(e, ast.JoinedStr):
            parts = []
            for v in e.values:
                if isinstance(v, ast.FormattedValue):
                    if v.conversion != -1 or v.format_spec is not None:
                        self.refuse(e, "formatted value")
                    parts.append(self.text(v.value))
                else:
                    parts.append(self.text(v))
            return "(" + " ++ ".join(parts) + ")%string"
        self.refuse(e, "text")

    def ghost(self, s):
        src = ast.unparse(s)
        if isinstance(s, ast.Expr) and _COUNTER_INC.match(src):
            self.ignored.append(src)
            return True
        if _dump(src) == _dump(SENT_GHOST):
            self.ignored.append("the if/elif chain on message_type that chooses the counter name cnt_name")
            return True
        return isinstance(s, ast.Pass) or (isinstance(s, ast.Expr) and isinstance(s.value, ast.Constant))

    def stmts(self, body):
        if not body:
            self.refuse("end of body", "control reaches the end of the function outside the try block")
        s, rest = body[0], body[1:]
        if self.ghost(s):
            return self.stmts(rest)
        if isinstance(s, ast.If):
            a = self.stmts(list(s.body) + rest)
            b = self.stmts(list(s.orelse) + rest)
            return f"if {self.cond(s.test)} then\n{textwrap.indent(a, '  ')}\nelse\n{textwrap.indent(b, '  ')}"
        if isinstance(s, ast.Assign) and len(s.targets) == 1 and isinstance(s.targets[0], ast.Name) \
                and isinstance(s.value, ast.Constant) and isinstance(s.value.value, str):
            name = s.targets[0].id
            if name in self.uints:
                self.refuse(s, "assignment to a parameter")
            self.strs.add(name)
            return f"let {name} := {self.text(s.value)} in\n{self.stmts(rest)}"
        if isinstance(s, ast.Try) and not rest:
            return self.try_(s)
        self.refuse(s)

    def try_(self, t):
        if t.orelse or t.finalbody:
            self.refuse(t, "try with else / finally")
        hs = {}
        for h in t.handlers:
            exc = _resolve(self.ns, h.type) if h.type is not None else _MISSING
            if isinstance(h.type, ast.Name) and h.type.id == "KeyError" and "KeyError" not in self.ns:
                exc = KeyError
            if not all(self.ghost(x) for x in _StripLogs()._clean(h.body)):
                self.refuse(h, "handler body is more than counters and log calls")
            hs[exc] = True
        import asyncio
        if set(hs) != {KeyError, asyncio.InvalidStateError}:
            self.refuse(t, "handlers are not exactly KeyError and asyncio.InvalidStateError")
        return self.tbody(list(t.body), None)

    def tbody(self, body, req):
        """statements of the try block; `req` = (name of the request local, Gallina variable for `its future is resolved`)"""
        if not body:
            return "out"
        s, rest = body[0], body[1:]
        if self.ghost(s):
            return self.tbody(rest, req)
        if isinstance(s, ast.Assign) and len(s.targets) == 1 and isinstance(s.targets[0], ast.Name):
            name, v = s.targets[0].id, s.value
            if isinstance(v, ast.Tuple) and len(v.elts) == 2 and all(isinstance(x, ast.Name) for x in v.elts):
                self.keys[name] = True
                return f"let {name} := ({self.use(v.elts[0].id)}, {self.use(v.elts[1].id)}) in\n{self.tbody(rest, req)}"
            if isinstance(v, ast.Subscript) and ast.unparse(v.value) == "self._pending" and isinstance(v.slice, ast.Name) \
                    and v.slice.id in self.keys and req is None:
                k = v.slice.id
                return (f"match pending (fst {k}) (snd {k}) with   (* {name} = self._pending[{k}] *)\n"
                        f"| None => PUnexpected   (* KeyError *)\n"
                        f"| Some {name}_done =>\n{textwrap.indent(self.tbody(rest, (name, name + '_done', k)), '    ')}\nend")
        if isinstance(s, ast.Expr) and isinstance(s.value, ast.Call) and req is not None \
                and ast.unparse(s.value.func) == f"{req[0]}.result.set_result" and len(s.value.args) == 1 and not s.value.keywords:
            a = s.value.args[0]
            if not (isinstance(a, ast.Tuple) and len(a.elts) == 2 and isinstance(a.elts[0], ast.Name)):
                self.refuse(s, "result value")
            if "out" in ast.unparse(ast.Module(body=rest, type_ignores=[])).split():
                self.refuse(s, "name clash")
            return (f"if {req[1]} then PDuplicate   (* set_result on a resolved future: asyncio.InvalidStateError *)\nelse\n"
                    f"  let out := PSetResult {req[2]} {self.use(a.elts[0].id)} {self.text(a.elts[1])} in\n"
                    f"{textwrap.indent(self.tbody(rest, ('', '', '')), '  ')}")
        self.refuse(s)


def _sent_handler(C, ns):
    import ezsptypes as et
    name = "_handle_frame_sent"
    node = _fn_ast(C.__dict__[name])
    where = f"ControllerApplication.{name} (source)"
    a = node.args
    if a.vararg or a.kwarg or a.kwonlyargs or a.defaults or a.posonlyargs or not a.args or a.args[0].arg != "self":
        raise GenError(where, "signature is not (self, <plain parameters>)")
    params, kinds, schema_kind = [], {}, {}
    for p in a.args[1:]:
        if p.annotation is None:
            raise GenError(where, f"parameter {p.arg} has no annotation")
        obj = _resolve(ns, p.annotation)
        if isinstance(p.annotation, ast.Name) and p.annotation.id in ("int", "bytes") and p.annotation.id not in ns:
            obj = {"int": int, "bytes": bytes}[p.annotation.id]
        params.append(p.arg)
        if obj is int or (isinstance(obj, type) and et.is_int(obj) and et.prim_of_int(obj)[0] == "U"):
            kinds[p.arg], schema_kind[p.arg] = "N", "int"
        else:
            kinds[p.arg], schema_kind[p.arg] = "other", None      # may not be read by the body
    tr = SentTr(where, ns, [p for p in params if kinds[p] == "N"])
    term = tr.stmts(list(_StripLogs().visit(node).body))
    reads = [(p, p, None) for p in params if p in tr.reads]
    unread = [p for p in params if p not in tr.reads]
    txt = (f"(* from the source of ControllerApplication.{name}.  pending key1 key2 = Some (is the future of the request registered\n"
           f"   under (key1, key2) in self._pending resolved) | None; the other parameters are the values the body reads; never read\n"
           f"   (beyond the counter name): {', '.join(unread) or '-'}.  Skipped: log calls"
           + "".join(f";\n   {_cmt(x)}" for x in dict.fromkeys(tr.ignored)) + " *)\n"
           f"Definition py_handle_frame_sent (pending : N -> N -> option bool) {' '.join(f'({n} : N)' for n, _, _ in reads)} : py_sent :=\n"
           f"{textwrap.indent(term, '  ')}.\n\n")
    return txt, {"params": params, "kinds": kinds, "schema_kind": schema_kind, "reads": reads, "coq": "py_handle_frame_sent",
                 "first": "pending", "wrap": ("PSent (fun pending => ", ")"), "fail": "PSent (fun _ => None)", "unsigned": True}


def gen_app_fn() -> str:
    import bellows.ezsp as ezsp
    import bellows.types as bt
    import bellows.zigbee.application as A
    import ezsptypes as et
    C = A.ControllerApplication
    ns = vars(A)
    out = [APP_PREAMBLE]
    txt, h_frame = _app_handler(C, ns, "_handle_frame", "py_handle_frame")
    out.append(txt)
    txt, h_join = _app_handler(C, ns, "_handle_tc_join_handler", "py_handle_tc_join_handler", JOIN_GHOSTS)
    out.append(txt)
    txt, h_sent = _sent_handler(C, ns)
    out.append(txt)
    handlers = {"_handle_frame": h_frame, "_handle_tc_join_handler": h_join, "_handle_frame_sent": h_sent}
    events = {"packet_received", "handle_join", "handle_leave"}
    families = {bt.EzspStatus: "FEzsp", bt.EmberStatus: "FEmber", bt.sl_Status: "FUnified"}

    where = "ControllerApplication.ezsp_callback_handler (source)"
    node = _fn_ast(C.__dict__["ezsp_callback_handler"])
    if [a.arg for a in node.args.args] != ["self", "frame_name", "args"] or node.args.vararg or node.args.kwarg or node.args.kwonlyargs:
        raise GenError(where, "signature is not (self, frame_name, args)")
    body = _StripLogs().visit(node).body
    if len(body) != 1 or not isinstance(body[0], ast.If):
        raise GenError(where, "expected a single if/elif chain on frame_name")

    def schema_types(frame, applies):
        for v in sorted(ezsp.EZSP._BY_VERSION):
            if applies(v):
                yield v, list(ezsp.EZSP._BY_VERSION[v].COMMANDS[frame][2].values())

    def check_kinds(frame, info, bound_idx, applies):
        """the schema type at the element a parameter is bound to agrees with the parameter's annotation, in every version"""
        for v, tys in schema_types(frame, applies):
            for n, p, at in info["reads"]:
                i = bound_idx[p]
                if i >= len(tys):
                    continue
                if et.kind(tys[i]) != info["schema_kind"][p]:
                    raise GenError(where, f"v{v} {frame}: element {i} ({tys[i].__name__}) is passed as `{p}`, annotated as {info['schema_kind'][p]}")
                if info.get("unsigned") and et.prim_of_int(tys[i])[0] != "U":
                    raise GenError(where, f"v{v} {frame}: element {i} ({tys[i].__name__}) is signed but `{p}` is read as unsigned")

    def branch(frame, stmts, applies) -> str:
        """body of one branch of the chain whose last statement calls a translated handler"""
        s, rest = stmts[0], stmts[1:]
        if isinstance(s, ast.If) and rest:
            term, pred = _version_test(s.test, where)
            a = branch(frame, list(s.body) + rest, lambda v: applies(v) and pred(v))
            b = branch(frame, list(s.orelse) + rest, lambda v: applies(v) and not pred(v))
            return f"if {term} then   (* {_cmt(ast.unparse(s.test))} *)\n{textwrap.indent(a, '  ')}\nelse\n{textwrap.indent(b, '  ')}"
        call = stmts[-1]
        if not (isinstance(call, ast.Expr) and isinstance(call.value, ast.Call) and ast.unparse(call.value.func).startswith("self.")
                and ast.unparse(call.value.func)[5:] in handlers):
            raise GenError(where, f"{frame}: expected a call of a translated handler, got `{ast.unparse(call)[:80]}`")
        c = call.value
        info = handlers[ast.unparse(c.func)[5:]]
        if len(stmts) == 1 and len(c.args) == 1 and isinstance(c.args[0], ast.Starred) and ast.unparse(c.args[0].value) == "args" and not c.keywords:
            # handler(*args): parameter i is element i; TypeError unless the tuple has as many elements as parameters
            n = len(info["params"])
            idx = {p: i for i, p in enumerate(info["params"])}
            check_kinds(frame, info, idx, applies)
            return (f"(* self.{ast.unparse(c.func)[5:]}( *args): TypeError unless len(args) = {n} *)\n"
                    f"if negb (args_len A =? {n})%nat then {info['fail']} else\n"
                    + _call_reads(info, {p: f"{i}%nat" for p, i in idx.items()}))
        if len(stmts) >= 2 and not c.args:
            names = _unpack(stmts[0], where)
            # between the unpacking and the call: <name> = t.sl_Status.from_ember_status(<name>) (the status family is that of
            # the schema type of the element, the same in every version the branch applies to)
            rebound = {}
            for m in stmts[1:-1]:
                ok = (isinstance(m, ast.Assign) and len(m.targets) == 1 and isinstance(m.targets[0], ast.Name) and m.targets[0].id in names
                      and isinstance(m.value, ast.Call) and len(m.value.args) == 1 and not m.value.keywords
                      and ast.unparse(m.value.args[0]) == m.targets[0].id and m.targets[0].id not in rebound
                      and getattr(_resolve(ns, m.value.func), "__func__", None) is bt.sl_Status.from_ember_status.__func__)
                if not ok:
                    raise GenError(where, f"{frame}: unsupported statement before the call: `{ast.unparse(m)[:80]}`")
                nm = m.targets[0].id
                fams = {families.get(tys[names.index(nm)]) if names.index(nm) < len(tys) else None for _, tys in schema_types(frame, applies)}
                if len(fams) != 1 or None in fams:
                    raise GenError(where, f"{frame}: `{nm}` is not of one status family in the versions this branch applies to")
                rebound[nm] = f"normalise {fams.pop()}"
            kw = {}
            for k in c.keywords:
                if k.arg is None or k.arg in kw or not isinstance(k.value, ast.Name) or k.value.id not in names:
                    raise GenError(where, f"{frame}: keyword `{ast.unparse(k)}` is not <parameter>=<unpacked name>")
                kw[k.arg] = k.value.id
            if sorted(kw) != sorted(info["params"]):
                raise GenError(where, f"{frame}: keywords {sorted(kw)} differ from the parameters {sorted(info['params'])}")
            post = {p: rebound[kw[p]] for p in info["params"] if kw[p] in rebound}
            if any(info["kinds"][p] != "N" for p in post):
                raise GenError(where, f"{frame}: a converted status is passed as a parameter that is not an unsigned integer")
            check_kinds(frame, info, {p: names.index(kw[p]) for p in info["params"]}, applies)
            lets = "".join(f"let {nm} := {i}%nat in\n" for i, nm in enumerate(names))
            conv = "".join(f"(* {_cmt(ast.unparse(m))} *)\n" for m in stmts[1:-1])
            return (f"(* ({', '.join(names)}) = args: ValueError unless len(args) = {len(names)} *)\n"
                    f"if negb (args_len A =? {len(names)})%nat then {info['fail']} else\n{lets}{conv}"
                    f"(* self.{ast.unparse(c.func)[5:]}({', '.join(p + '=' + kw[p] for p in info['params'])}) *)\n"
                    + _call_reads(info, kw, post))
        raise GenError(where, f"{frame}: unsupported branch body `{ast.unparse(stmts[0])[:80]}`")

    def chain(cur) -> str:
        t = cur.test
        if not (isinstance(t, ast.Compare) and len(t.ops) == 1 and isinstance(t.ops[0], ast.Eq) and ast.unparse(t.left) == "frame_name"
                and isinstance(t.comparators[0], ast.Constant) and isinstance(t.comparators[0].value, str)):
            raise GenError(where, f"unexpected test `{ast.unparse(t)}`")
        frame = t.comparators[0].value
        calls = []
        for n in ast.walk(ast.Module(body=cur.body, type_ignores=[])):
            if isinstance(n, ast.Call) and isinstance(n.func, ast.Attribute) and isinstance(n.func.value, ast.Name) and n.func.value.id == "self":
                calls.append(n.func.attr)
        if any(c in handlers for c in calls):
            if not all(frame in E.COMMANDS for E in ezsp.EZSP._BY_VERSION.values()):
                raise GenError(where, f"{frame}: not a callback of every version")
            this = branch(frame, list(cur.body), lambda v: True)
        else:
            if any(c in events for c in calls):
                raise GenError(where, f"{frame}: the branch hands events to zigpy itself: `{calls}`")
            this = "PCalls [" + "; ".join(f'"{c}"%string' for c in calls) + "]"
        if not cur.orelse:
            rest = "PNoBranch"
        elif len(cur.orelse) == 1 and isinstance(cur.orelse[0], ast.If):
            rest = chain(cur.orelse[0])
        else:
            raise GenError(where, "the chain ends in an else branch")
        return f'if String.eqb frame_name "{frame}"%string then\n{textwrap.indent(this, "  ")}\nelse {rest}'

    out.append("(* from the source of ControllerApplication.ezsp_callback_handler: the chain on frame_name, the tuple unpacking per\n"
               "   protocol version (v = self._ezsp.ezsp_version; a name bound by the unpacking is the index of the element), the calls\n"
               "   of the translated handlers (what the handler reads is read from the elements it is passed; a status converted by\n"
               "   t.sl_Status.from_ember_status between the unpacking and the call is converted by Status.normalise, which mirrors it) *)\n"
               "Definition py_ezsp_callback_handler (v : N) (own_nwk : Z) (frame_name : string) (vs : list ival) : py_outcome :=\n"
               "  let A : py_args := (fields_of v frame_name, vs) in\n"
               + textwrap.indent(chain(body[0]), "  ") + ".\n")
    return "".join(out)




# ==================================================================================================
# ThreadsafeProxy.__getattr__ / func_wrapper / check_result_wrapper (bellows/thread.py)
# ==================================================================================================
class ThTr:
    """The dispatch of one call through the proxy.  Values are tracked symbolically (which local holds the wrapped
    attribute, the owner's loop, the caller's running loop, the partial, the closure ...); the run-time predicates
    are boolean inputs of the emitted functions:
        callable   callable(getattr(self._obj, name))           -- evaluated at attribute look-up (__getattr__)
        coroutine  asyncio.iscoroutinefunction(<that attribute>) -- evaluated at call time (func_wrapper)
        same_loop  self._obj_loop == asyncio.get_running_loop() -- at call time
        closed     self._obj_loop.is_closed()                    -- at call time
    func_wrapper becomes a decision tree whose leaves are (effects in evaluation order, what is returned);
    the closure handed to call_soon_threadsafe becomes a function of what the wrapped body does when it runs."""

    # symbolic values
    FUNC, OWNER, CALLER, CALL, INVOKED, FUTURE, WRAPPED, CLOSURE, WRAPPER, RESULT = (
        "func", "owner_loop", "caller_loop", "call", "invoked", "future", "wrapped", "closure", "wrapper", "result")

    def __init__(self, where):
        self.where = where
        self.closure_term = None       # Gallina body of the closure defined inside func_wrapper
        self.closure_name = None
        self.wrapper_term = None

    def refuse(self, node, why="unsupported construct"):
        src = ast.unparse(node) if isinstance(node, ast.AST) else str(node)
        raise GenError(self.where, f"{why}: `{src[:100]}`")

    @staticmethod
    def clean(body):
        out = []
        for s in body:
            if isinstance(s, ast.Expr) and isinstance(s.value, ast.Constant) and isinstance(s.value.value, str):
                continue
            if isinstance(s, ast.Expr) and isinstance(s.value, ast.Call) and ast.unparse(s.value.func).split(".")[0] in ("LOGGER", "_LOGGER"):
                continue
            if isinstance(s, ast.Pass):
                continue
            out.append(s)
        return out

    # ---- symbolic evaluation of an expression: (symbol, effects appended) ----------------------------
    def sym(self, e, env, scope):
        src = ast.unparse(e)
        if isinstance(e, ast.Name):
            if e.id in env:
                return env[e.id], []
            self.refuse(e, "unknown name")
        if src == "self._obj_loop":
            return self.OWNER, []
        if src == "asyncio.get_running_loop()":
            if scope != "wrapper":
                self.refuse(e, "the caller's loop must be read at call time (inside the wrapper)")
            return self.CALLER, []
        if src == "getattr(self._obj, name)":
            if scope != "getattr":
                self.refuse(e, "attribute look-up outside __getattr__")
            return self.FUNC, []
        if isinstance(e, ast.Call):
            f = ast.unparse(e.func)
            if f == "functools.partial":
                ok = (len(e.args) == 2 and isinstance(e.args[1], ast.Starred) and ast.unparse(e.args[1].value) == "args"
                      and len(e.keywords) == 1 and e.keywords[0].arg is None and ast.unparse(e.keywords[0].value) == "kwargs"
                      and scope == "wrapper" and self.sym(e.args[0], env, scope) == (self.FUNC, []))
                if not ok:
                    self.refuse(e, "expected functools.partial(<attribute>, *args, **kwargs)")
                return self.CALL, []
            if isinstance(e.func, ast.Name) and env.get(e.func.id) == self.CALL:
                if e.args or e.keywords:
                    self.refuse(e, "the partial is invoked with further arguments")
                return self.INVOKED, ["PInvoke"]
            if f == "asyncio.run_coroutine_threadsafe":
                if len(e.args) != 2 or e.keywords:
                    self.refuse(e, "run_coroutine_threadsafe arguments")
                a, ea = self.sym(e.args[0], env, scope)
                l, el = self.sym(e.args[1], env, scope)
                if a != self.INVOKED:
                    self.refuse(e.args[0], "run_coroutine_threadsafe must be given the result of invoking the partial")
                if l != self.OWNER:
                    self.refuse(e.args[1], "run_coroutine_threadsafe must target the owner's loop")
                return self.FUTURE, ea + el + ["PRunCoroutineThreadsafe"]
            if f == "asyncio.wrap_future":
                kw = {k.arg: k.value for k in e.keywords}
                if len(e.args) != 1 or set(kw) != {"loop"}:
                    self.refuse(e, "wrap_future arguments")
                a, ea = self.sym(e.args[0], env, scope)
                l, el = self.sym(kw["loop"], env, scope)
                if a != self.FUTURE:
                    self.refuse(e.args[0], "wrap_future must be given the future of run_coroutine_threadsafe")
                if l != self.CALLER:
                    self.refuse(kw["loop"], "wrap_future must bind the future to the caller's loop")
                return self.WRAPPED, ea + el
        self.refuse(e, "expression")

    # ---- conditions (no effects allowed) ---------------------------------------------------------------
    def cond(self, t, env, scope):
        if isinstance(t, ast.UnaryOp) and isinstance(t.op, ast.Not):
            return f"(negb {self.cond(t.operand, env, scope)})"
        if isinstance(t, ast.BoolOp):
            op = " && " if isinstance(t.op, ast.And) else " || "
            return "(" + op.join(self.cond(v, env, scope) for v in t.values) + ")"

        def pure(e):
            s, eff = self.sym(e, env, scope)
            if eff:
                self.refuse(t, "condition with an effect")
            return s
        if isinstance(t, ast.Call):
            f = ast.unparse(t.func)
            if f == "callable" and len(t.args) == 1 and not t.keywords and pure(t.args[0]) == self.FUNC:
                if scope != "getattr":
                    self.refuse(t, "callable() is an input of the attribute look-up only")
                return "callable"
            if f in ("asyncio.iscoroutinefunction", "inspect.iscoroutinefunction") and len(t.args) == 1 and not t.keywords \
                    and pure(t.args[0]) == self.FUNC:
                if scope != "wrapper":
                    self.refuse(t, "the method kind must be tested at call time (inside the wrapper)")
                return "coroutine"
            if isinstance(t.func, ast.Attribute) and t.func.attr == "is_closed" and not t.args and not t.keywords:
                who = pure(t.func.value)
                if who == self.OWNER and scope == "wrapper":
                    return "closed"
                self.refuse(t, "is_closed() of something other than the owner's loop at call time")
        if isinstance(t, ast.Compare) and len(t.ops) == 1:
            op, rhs = t.ops[0], t.comparators[0]
            if isinstance(rhs, ast.Constant) and rhs.value is None and isinstance(op, (ast.Is, ast.IsNot)):
                if pure(t.left) == self.RESULT and scope == "closure":
                    var = t.left.id
                    isnone = f"match {var} with None => true | Some _ => false end"
                    return f"({isnone})" if isinstance(op, ast.Is) else f"(negb ({isnone}))"
                self.refuse(t, "None test of something other than the result of the call in the closure")
            if isinstance(op, (ast.Eq, ast.NotEq, ast.Is, ast.IsNot)):
                if scope == "wrapper" and {pure(t.left), pure(rhs)} == {self.OWNER, self.CALLER}:
                    return "same_loop" if isinstance(op, (ast.Eq, ast.Is)) else "(negb same_loop)"
                self.refuse(t, "comparison other than owner's loop against the caller's running loop at call time")
        self.refuse(t, "condition")

    @staticmethod
    def leaf(effs, ret):
        return f"([{'; '.join(effs)}], {ret})"

    def bind(self, s, env):
        if len(s.targets) != 1 or not isinstance(s.targets[0], ast.Name):
            self.refuse(s, "assignment target")
        name = s.targets[0].id
        if name in env:
            self.refuse(s, "a local is assigned twice")
        return name

    # ---- func_wrapper ---------------------------------------------------------------------------------
    def wstmts(self, body, env, effs):
        if not body:
            return self.leaf(effs, "RetNone")
        s, rest = body[0], body[1:]
        if isinstance(s, ast.Assign):
            name = self.bind(s, env)
            v, e = self.sym(s.value, env, "wrapper")
            return self.wstmts(rest, dict(env, **{name: v}), effs + e)
        if isinstance(s, ast.FunctionDef):
            a = s.args
            if a.args or a.vararg or a.kwarg or a.kwonlyargs or a.posonlyargs or s.decorator_list:
                self.refuse(s.name, "closure with parameters or decorators")
            if self.closure_name is not None and self.closure_name != s.name:
                self.refuse(s.name, "more than one closure inside the wrapper")
            if s.name in env:
                self.refuse(s.name, "a local is assigned twice")
            term = self.cstmts(self.clean(s.body), dict(env), None)
            if self.closure_term is not None and self.closure_term != term:
                self.refuse(s.name, "the closure is defined differently on different paths")
            self.closure_name, self.closure_term = s.name, term
            return self.wstmts(rest, dict(env, **{s.name: self.CLOSURE}), effs)
        if isinstance(s, ast.If):
            c = self.cond(s.test, env, "wrapper")
            a = self.wstmts(self.clean(s.body) + rest, env, effs)
            b = self.wstmts(self.clean(s.orelse) + rest, env, effs)
            return f"if {c} then\n{textwrap.indent(a, '  ')}\nelse\n{textwrap.indent(b, '  ')}"
        if isinstance(s, ast.Return):
            if s.value is None or (isinstance(s.value, ast.Constant) and s.value.value is None):
                return self.leaf(effs, "RetNone")
            v, e = self.sym(s.value, env, "wrapper")
            if v == self.INVOKED:
                return self.leaf(effs + e, "RetCallResult")
            if v == self.WRAPPED:
                return self.leaf(effs + e, "RetWrapFuture")
            self.refuse(s, "returned value")
        if isinstance(s, ast.Raise) and isinstance(s.exc, ast.Call) and ast.unparse(s.exc.func) == "TypeError":
            return self.leaf(effs, "RetTypeError")
        if isinstance(s, ast.Expr) and isinstance(s.value, ast.Call):
            c = s.value
            if isinstance(c.func, ast.Attribute) and c.func.attr == "call_soon_threadsafe":
                if self.sym(c.func.value, env, "wrapper") != (self.OWNER, []):
                    self.refuse(c, "call_soon_threadsafe on something other than the owner's loop")
                if len(c.args) != 1 or c.keywords:
                    self.refuse(c, "call_soon_threadsafe arguments")
                v, e = self.sym(c.args[0], env, "wrapper")
                cb = {self.CLOSURE: "CbClosure", self.CALL: "CbCall"}.get(v)
                if cb is None or e:
                    self.refuse(c, "callback handed to call_soon_threadsafe")
                return self.wstmts(rest, env, effs + [f"PCallSoonThreadsafe {cb}"])
            v, e = self.sym(c, env, "wrapper")
            if v == self.INVOKED:              # a bare `call()`
                return self.wstmts(rest, env, effs + e)
        self.refuse(s)

    # ---- the closure run by the owner's loop; `b : body` is what the wrapped method does when it runs ----
    def cstmts(self, body, env, result_var):
        invoked = result_var is not None
        if not body:
            return "OReturned" if invoked else "ONotCalled"
        s, rest = body[0], body[1:]
        is_invoke = lambda e: isinstance(e, ast.Call) and isinstance(e.func, ast.Name) and env.get(e.func.id) == self.CALL \
            and not e.args and not e.keywords
        if (isinstance(s, ast.Assign) and is_invoke(s.value)) or (isinstance(s, ast.Expr) and is_invoke(s.value)):
            if invoked:
                self.refuse(s, "the closure invokes the partial twice")
            name = self.bind(s, env) if isinstance(s, ast.Assign) else "_result"
            inner = self.cstmts(rest, dict(env, **{name: self.RESULT}), name)
            return (f"match b with\n| BRaises e => ORaised e\n| BReturns {name} =>\n{textwrap.indent(inner, '    ')}\nend")
        if isinstance(s, ast.If):
            c = self.cond(s.test, env, "closure")
            a = self.cstmts(self.clean(s.body) + rest, env, result_var)
            b = self.cstmts(self.clean(s.orelse) + rest, env, result_var)
            return f"if {c} then\n{textwrap.indent(a, '  ')}\nelse\n{textwrap.indent(b, '  ')}"
        if isinstance(s, ast.Raise) and isinstance(s.exc, ast.Call) and ast.unparse(s.exc.func) == "TypeError":
            return "OTypeError"
        if isinstance(s, ast.Return) and (s.value is None or (isinstance(s.value, ast.Constant) and s.value.value is None)):
            return "OReturned" if invoked else "ONotCalled"
        self.refuse(s, "statement of the closure")

    # ---- __getattr__ ------------------------------------------------------------------------------------
    def gstmts(self, body, env):
        if not body:
            self.refuse("end of __getattr__", "control reaches the end without returning the wrapper")
        s, rest = body[0], body[1:]
        if isinstance(s, ast.Assign):
            name = self.bind(s, env)
            v, e = self.sym(s.value, env, "getattr")
            if e:
                self.refuse(s, "effect at attribute look-up")
            return self.gstmts(rest, dict(env, **{name: v}))
        if isinstance(s, ast.If):
            c = self.cond(s.test, env, "getattr")
            a = self.gstmts(self.clean(s.body) + rest, env)
            b = self.gstmts(self.clean(s.orelse) + rest, env)
            return f"if {c} then\n{textwrap.indent(a, '  ')}\nelse\n{textwrap.indent(b, '  ')}"
        if isinstance(s, ast.Raise) and isinstance(s.exc, ast.Call) and ast.unparse(s.exc.func) == "TypeError":
            return "AttrTypeError"
        if isinstance(s, ast.FunctionDef):
            a = s.args
            ok = (not a.args and not a.kwonlyargs and not a.posonlyargs and not s.decorator_list and a.vararg is not None
                  and a.vararg.arg == "args" and a.kwarg is not None and a.kwarg.arg == "kwargs")
            if not ok:
                self.refuse(s.name, "the wrapper must be `def <name>(*args, **kwargs)`")
            if self.wrapper_term is not None or s.name in env:
                self.refuse(s.name, "more than one wrapper")
            self.wrapper_term = self.wstmts(self.clean(s.body), dict(env), [])
            return self.gstmts(rest, dict(env, **{s.name: self.WRAPPER}))
        if isinstance(s, ast.Return) and s.value is not None and self.sym(s.value, env, "getattr") == (self.WRAPPER, []):
            return "AttrWrapper"
        self.refuse(s)


def gen_thread_fn() -> str:
    import bellows.thread as T
    fn = T.ThreadsafeProxy.__dict__.get("__getattr__")
    if fn is None:
        raise GenError("ThreadsafeProxy.__getattr__", "not defined by this class")
    for other in ("__getattribute__", "__call__"):
        if other in T.ThreadsafeProxy.__dict__:
            raise GenError(f"ThreadsafeProxy.{other}", "defined: attribute access no longer goes through __getattr__ alone")
    init = _norm_body(T.ThreadsafeProxy.__dict__["__init__"])
    if _dump(init) != _dump("self._obj = obj\nself._obj_loop = obj_loop"):
        raise GenError("ThreadsafeProxy.__init__", "source differs from the form the model mirrors:\n" + init)
    node = _fn_ast(fn)
    where = "ThreadsafeProxy.__getattr__ (source)"
    if [a.arg for a in node.args.args] != ["self", "name"] or node.args.vararg or node.args.kwarg or node.decorator_list:
        raise GenError(where, "expected `def __getattr__(self, name)`")
    tr = ThTr(where)
    gterm = tr.gstmts(tr.clean(node.body), {})
    if tr.wrapper_term is None:
        raise GenError(where, "no wrapper function is defined")
    closure = tr.closure_term if tr.closure_term is not None else "ONotCalled"
    cname = tr.closure_name or "(none defined)"
    return ("(* GENERATED by harness/pysrc.py from the SOURCE TEXT of ThreadsafeProxy.__getattr__ (bellows/thread.py) -- do not edit *)\n"
            "From Coq Require Import NArith List Bool.\nImport ListNotations.\nRequire Import BV.model.Proxy.\nOpen Scope N_scope.\n\n"
            "(* run-time predicates, inputs of the emitted functions:\n"
            "     callable   callable(getattr(self._obj, name))             at attribute look-up\n"
            "     coroutine  asyncio.iscoroutinefunction(<that attribute>)   at call time\n"
            "     same_loop  self._obj_loop == asyncio.get_running_loop()    at call time\n"
            "     closed     self._obj_loop.is_closed()                      at call time\n"
            "   effects of one call of the wrapper, in evaluation order, all in the CALLER's step:\n"
            "     PInvoke                   the partial functools.partial(<attribute>, *args, **kwargs) is invoked here\n"
            "     PRunCoroutineThreadsafe   asyncio.run_coroutine_threadsafe(<what the invocation returned>, <owner's loop>)\n"
            "     PCallSoonThreadsafe c     <owner's loop>.call_soon_threadsafe(c): c = the closure below | the bare partial *)\n"
            "Inductive py_callback := CbClosure | CbCall.\n"
            "Inductive py_eff := PInvoke | PRunCoroutineThreadsafe | PCallSoonThreadsafe (c : py_callback).\n"
            "(* what the wrapper returns: raises TypeError | what the invocation returned | None |\n"
            "   asyncio.wrap_future(<future of run_coroutine_threadsafe>, loop=<caller's running loop>) *)\n"
            "Inductive py_ret := RetTypeError | RetCallResult | RetNone | RetWrapFuture.\n"
            "Inductive py_attr := AttrTypeError | AttrWrapper.\n"
            "(* the closure when the owner's loop runs it: never invoked the partial | the wrapped body's exception escapes |\n"
            "   TypeError raised by the closure | returns None *)\n"
            "Inductive py_owner_outcome := ONotCalled | ORaised (e : N) | OTypeError | OReturned.\n\n"
            f"(* from the source of the closure {cname} inside the wrapper; b: what the wrapped method does when it runs *)\n"
            f"Definition py_closure (b : body) : py_owner_outcome :=\n{textwrap.indent(closure, '  ')}.\n\n"
            "(* from the source of the wrapper returned by ThreadsafeProxy.__getattr__ *)\n"
            f"Definition py_func_wrapper (coroutine same_loop closed : bool) : list py_eff * py_ret :=\n{textwrap.indent(tr.wrapper_term, '  ')}.\n\n"
            "(* from the source of ThreadsafeProxy.__getattr__ itself *)\n"
            f"Definition py_getattr (callable : bool) : py_attr :=\n{textwrap.indent(gterm, '  ')}.\n")


# ==================================================================================================
# EZSP callback registry, stack-status listeners and the operations completed by an event
# (bellows/ezsp/__init__.py: add_callback, remove_callback, handle_callback, stack_status_callback,
#  wait_for_stack_status, _list_command, leaveNetwork, formNetwork; zigbee/application.py: _ensure_network_running)
# ==================================================================================================
EVENTS_PRELUDE = r"""(* ---- fixed vocabulary (not derived from the source) ---------------------------------------------
   an asyncio.Future is (identity, still pending); futures compare by identity *)
Definition fut := (N * bool)%type.
(* self._stack_status_listeners: collections.defaultdict(list) keyed by status; a missing key reads as [] *)
Definition ldict := list (N * list fut).
Fixpoint dd_get (s : N) (d : ldict) : list fut :=
  match d with [] => [] | (s', l) :: d' => if s' =? s then l else dd_get s d' end.
Fixpoint dd_set (s : N) (l : list fut) (d : ldict) : ldict :=
  match d with [] => [(s, l)] | (s', l') :: d' => if s' =? s then (s, l) :: d' else (s', l') :: dd_set s l d' end.
(* list.remove(x): drops the first element equal to x; None = ValueError *)
Fixpoint l_remove (f : N) (l : list fut) : option (list fut) :=
  match l with
  | [] => None
  | (i, p) :: l' => if i =? f then Some l' else match l_remove f l' with Some r => Some ((i, p) :: r) | None => None end
  end.
(* for x in l: x.set_result(..) -- set_result on a future that is no longer pending raises InvalidStateError, which
   ends the loop; result: the list afterwards, whether the exception escaped *)
Fixpoint py_set_results (l : list fut) : list fut * bool :=
  match l with
  | [] => ([], false)
  | (i, p) :: l' => if p then let '(r, raised) := py_set_results l' in ((i, false) :: r, raised) else ((i, p) :: l', true)
  end.
(* self._callbacks: a dict (insertion ordered) from integer ids to callbacks *)
Definition zdict (C : Type) := list (Z * C).
Fixpoint zd_mem {C} (k : Z) (d : zdict C) : bool :=
  match d with [] => false | (k', _) :: d' => (k' =? k)%Z || zd_mem k d' end.
Fixpoint zd_set {C} (k : Z) (v : C) (d : zdict C) : zdict C :=
  match d with [] => [(k, v)] | (k', v') :: d' => if (k' =? k)%Z then (k, v) :: d' else (k', v') :: zd_set k v d' end.
(* d.pop(k): None = KeyError *)
Fixpoint zd_pop {C} (k : Z) (d : zdict C) : option (C * zdict C) :=
  match d with
  | [] => None
  | (k', v') :: d' => if (k' =? k)%Z then Some (v', d')
                      else match zd_pop k d' with Some (v, r) => Some (v, (k', v') :: r) | None => None end
  end.
(* `while k in d: k += 1` run for at most [fuel] iterations; with fuel = len(d) + 1 the loop has always ended by
   itself (proofs/EventsSrc_proofs.v, probe_fresh: the value returned is not a key) *)
Fixpoint py_probe {C} (fuel : nat) (d : zdict C) (k : Z) : Z :=
  match fuel with O => k | S f => if zd_mem k d then py_probe f d (k + 1)%Z else k end.

(* an operation completed by an event, as a script: statements before the scope, the scope (what is registered on entry
   and removed on exit), the statements inside it, in order.  Every statement may leave the function (exception,
   cancellation at an await, early return).
     PAwait c      await of the EZSP command c                 PGuard   if <test on a reply>: raise .. / return ..
     PAwaitEvent   await of the future the scope registered (under asyncio_timeout where the source has one) *)
Inductive py_simple := PAwait (c : string) | PGuard | PAwaitEvent.
Inductive py_scope :=
| ScopeWith (status : N)      (* with self.wait_for_stack_status(<status>) as <future>: ... *)
| ScopeCallback.              (* cbid = self.add_callback(cb) ; try: ... finally: self.remove_callback(cbid) *)
Record py_op := { op_pre : list py_simple; op_scope : py_scope; op_body : list py_simple; op_post : list py_simple }.

"""


class EvTr:
    def __init__(self, where):
        self.where = where

    def refuse(self, node, why="unsupported construct"):
        src = ast.unparse(node) if isinstance(node, ast.AST) else str(node)
        raise GenError(self.where, f"{why}: `{src[:100]}`")

    @staticmethod
    def clean(body):
        return ThTr.clean(body)

    # ---- add_callback ----------------------------------------------------------------------------------
    def add_callback(self, node):
        if [a.arg for a in node.args.args] != ["self", "cb"]:
            self.refuse(node.name, "parameters")
        lines, idv = [], None
        body = self.clean(node.body)
        for i, s in enumerate(body):
            src = ast.unparse(s)
            if isinstance(s, ast.Assign) and len(s.targets) == 1 and isinstance(s.targets[0], ast.Name) and ast.unparse(s.value) == "hash(cb)" and idv is None:
                idv = s.targets[0].id
                lines.append(f"let {idv} := hash_cb in")
            elif isinstance(s, ast.While) and idv and ast.unparse(s.test) == f"{idv} in self._callbacks" and not s.orelse \
                    and [ast.unparse(x) for x in self.clean(s.body)] == [f"{idv} += 1"]:
                lines.append(f"let {idv} := py_probe (S (List.length cbs)) cbs {idv} in")
            elif idv and src == f"self._callbacks[{idv}] = cb":
                lines.append(f"let cbs := zd_set {idv} cb cbs in")
            elif idv and src == f"return {idv}" and i == len(body) - 1:
                lines.append(f"(cbs, {idv})")
                return "\n".join(lines)
            else:
                self.refuse(s)
        self.refuse(node.name, "control reaches the end without returning the id")

    # ---- remove_callback -------------------------------------------------------------------------------
    def remove_callback(self, node):
        if [a.arg for a in node.args.args] != ["self", "id_"]:
            self.refuse(node.name, "parameters")
        body = self.clean(node.body)
        if len(body) == 1 and ast.unparse(body[0]) in ("return self._callbacks.pop(id_)", "self._callbacks.pop(id_)"):
            return "zd_pop id_ cbs"
        self.refuse(body[0] if body else node.name)

    # ---- handle_callback -------------------------------------------------------------------------------
    def handle_callback(self, node):
        a = node.args
        if [x.arg for x in a.args] != ["self"] or a.vararg is None or a.vararg.arg != "args" or a.kwarg or a.kwonlyargs:
            self.refuse(node.name, "parameters")
        body = self.clean(node.body)
        if len(body) != 1 or not isinstance(body[0], ast.For) or body[0].orelse:
            self.refuse(node.name, "expected a single for loop")
        loop = body[0]
        if ast.unparse(loop.iter) != "self._callbacks.items()" or not isinstance(loop.target, ast.Tuple) or len(loop.target.elts) != 2 \
                or not all(isinstance(x, ast.Name) for x in loop.target.elts):
            self.refuse(loop, "loop header")
        h = loop.target.elts[1].id
        lb = self.clean(loop.body)
        call = f"{h}(*args)"
        if len(lb) == 1 and isinstance(lb[0], ast.Try):
            t = lb[0]
            if [ast.unparse(x) for x in self.clean(t.body)] != [call] or t.orelse or t.finalbody or len(t.handlers) != 1:
                self.refuse(t, "try form")
            hd = t.handlers[0]
            if hd.type is None or ast.unparse(hd.type) != "Exception" or self.clean(hd.body):
                self.refuse(hd, "exception handler (expected `except Exception` that only logs)")
            # an Exception raised by one handler is logged and swallowed: the iteration goes on
            return ("fold_left (fun s kv => let '(s, raised) := call (snd kv) s in s) cbs s", True)
        if len(lb) == 1 and ast.unparse(lb[0]) == call:
            # no try: the first handler that raises ends the iteration
            return ("fold_left (fun (acc : S * bool) kv => let '(s, stop) := acc in if stop then acc else call (snd kv) s) cbs (s, false)", False)
        self.refuse(loop, "loop body")

    # ---- stack_status_callback ---------------------------------------------------------------------------
    def stack_status_callback(self, node):
        if [a.arg for a in node.args.args] != ["self", "frame_name", "args"]:
            self.refuse(node.name, "parameters")
        return self.ssc(self.clean(node.body), False)

    def ssc(self, body, have_status):
        if not body:
            return "(d, false)"
        s, rest = body[0], body[1:]
        src = ast.unparse(s)
        if isinstance(s, ast.If) and not s.orelse and src.startswith("if frame_name != 'stackStatusHandler':") \
                and [ast.unparse(x) for x in self.clean(s.body)] == ["return"]:
            return f"if negb is_stack_status_frame then (d, false)\nelse\n{textwrap.indent(self.ssc(rest, have_status), '  ')}"
        if src == "status = t.sl_Status.from_ember_status(args[0])" and not have_status:
            return self.ssc(rest, True)          # `status`: the unified status carried by the frame, a parameter
        if isinstance(s, ast.For) and have_status and not s.orelse and isinstance(s.target, ast.Name) \
                and ast.unparse(s.iter) == "self._stack_status_listeners[status]" \
                and [ast.unparse(x) for x in self.clean(s.body)] == [f"{s.target.id}.set_result(status)"] and not rest:
            return ("let '(l, raised) := py_set_results (dd_get status d) in\n(dd_set status l d, raised)")
        self.refuse(s)

    # ---- wait_for_stack_status (generator behind contextlib.contextmanager) ---------------------------------
    REMOVE = "with contextlib.suppress(ValueError):\n    listeners.remove(future)"

    def remove_stmt(self, s):
        return _dump(ast.unparse(s)) == _dump(self.REMOVE)

    REMOVE_TERM = ("let listeners := dd_get status d in\n"
                   "let listeners := match l_remove future listeners with Some l => l | None => listeners (* ValueError suppressed *) end in\n"
                   "dd_set status listeners d")

    def wait_for_stack_status(self, node):
        if [a.arg for a in node.args.args] != ["self", "status"]:
            self.refuse(node.name, "parameters")
        if [ast.unparse(d) for d in node.decorator_list] != ["contextlib.contextmanager"]:
            self.refuse(node.name, "expected exactly the decorator contextlib.contextmanager")
        body = self.clean(node.body)
        enter, out = [], {}
        have_l = have_f = False
        i = 0
        while i < len(body) and not isinstance(body[i], ast.Try) and not (isinstance(body[i], ast.Expr) and isinstance(body[i].value, ast.Yield)):
            s = body[i]
            src = ast.unparse(s)
            if src == "listeners = self._stack_status_listeners[status]" and not have_l:
                have_l = True
                enter.append("let listeners := dd_get status d in")
            elif src == "future = asyncio.get_running_loop().create_future()" and not have_f:
                have_f = True                      # a new pending future: its identity is the parameter `future`
            elif isinstance(s, ast.FunctionDef) and have_l and have_f and [ast.unparse(d) for d in s.decorator_list] == ["future.add_done_callback"] \
                    and len(s.args.args) == 1 and "done_cb" not in out:
                cb = self.clean(s.body)
                if len(cb) != 1 or not self.remove_stmt(cb[0]):
                    self.refuse(s, "done callback body")
                out["done_cb"] = self.REMOVE_TERM
            elif src == "listeners.append(future)" and have_l and have_f:
                enter.append("let listeners := listeners ++ [(future, true)] in")
            else:
                self.refuse(s, "statement before the yield")
            i += 1
        enter.append("dd_set status listeners d" if have_l else "d")
        out["enter"] = "\n".join(enter)
        rest = body[i:]
        if not rest:
            self.refuse(node.name, "no yield")

        def is_yield(s):
            return isinstance(s, ast.Expr) and isinstance(s.value, ast.Yield) and s.value.value is not None and ast.unparse(s.value.value) == "future"

        def exit_term(stmts):
            stmts = self.clean(stmts)
            if not stmts:
                return "d"
            if len(stmts) == 1 and self.remove_stmt(stmts[0]) and have_l and have_f:
                return self.REMOVE_TERM
            self.refuse(stmts[0], "statement after the yield")
        if isinstance(rest[0], ast.Try):
            t = rest[0]
            if len(rest) != 1 or t.handlers or t.orelse or len(self.clean(t.body)) != 1 or not is_yield(self.clean(t.body)[0]):
                self.refuse(t, "expected `try: yield future` with only a finally clause, as the last statement")
            out["exit_normal"] = out["exit_exception"] = exit_term(t.finalbody)
        elif is_yield(rest[0]):
            # code after a bare yield runs only when the with-body ends normally
            out["exit_normal"] = exit_term(rest[1:])
            out["exit_exception"] = "d"
        else:
            self.refuse(rest[0], "yield form")
        out.setdefault("done_cb", "d")
        return out

    # ---- the operations -------------------------------------------------------------------------------------
    def await_name(self, call):
        """name of the EZSP command an awaited call issues"""
        if not isinstance(call, ast.Call):
            self.refuse(call, "awaited expression")
        f = ast.unparse(call.func)
        if f == "self._command" and call.args:
            a0 = call.args[0]
            if isinstance(a0, ast.Constant) and isinstance(a0.value, str):
                return a0.value
            if isinstance(a0, ast.Name) and a0.id == "name":
                return "<name>"
        if f.startswith("self._ezsp.") and f.count(".") == 2:
            return f.split(".")[2]
        self.refuse(call, "awaited call")

    def pure_test(self, t):
        for n in ast.walk(t):
            if isinstance(n, (ast.Await, ast.Yield, ast.NamedExpr, ast.Lambda)):
                self.refuse(t, "test with an await / assignment")
            if isinstance(n, ast.Call) and ast.unparse(n.func) != "t.sl_Status.from_ember_status":
                self.refuse(t, "test with a call")

    def leaves(self, stmts):
        """every path of the block ends in raise / return, without awaiting or calling anything else"""
        stmts = self.clean(stmts)
        if not stmts:
            return False
        s = stmts[-1]
        for x in stmts[:-1]:
            self.refuse(x, "statement in a guard branch")
        if isinstance(s, ast.Raise):
            return True
        if isinstance(s, ast.Return):
            if s.value is not None:
                self.pure_test(s.value)
            return True
        self.refuse(s, "statement in a guard branch")

    def guard(self, s):
        """if <pure test>: raise/return [elif ...: raise/return]  (no else that falls through with effects)"""
        cur = s
        while True:
            self.pure_test(cur.test)
            if not self.leaves(cur.body):
                self.refuse(cur, "guard branch that does not leave")
            if not cur.orelse:
                return
            if len(cur.orelse) == 1 and isinstance(cur.orelse[0], ast.If):
                cur = cur.orelse[0]
            else:
                self.refuse(cur, "guard with an else branch")

    def simple(self, s, event_var):
        """one statement of an operation -> list of py_simple terms ([] for a statement without behaviour here)"""
        v = s.value if isinstance(s, (ast.Assign, ast.Expr)) else None
        if isinstance(v, ast.Await):
            if isinstance(v.value, ast.Name):
                if v.value.id == event_var:
                    return ["PAwaitEvent"]
                self.refuse(s, "await of a future other than the one the scope registered")
            return [f'PAwait "{self.await_name(v.value)}"%string']
        if isinstance(s, ast.If):
            self.guard(s)
            return ["PGuard"]
        if isinstance(s, ast.AsyncWith) and len(s.items) == 1 and isinstance(s.items[0].context_expr, ast.Call) \
                and ast.unparse(s.items[0].context_expr.func) == "asyncio_timeout" and s.items[0].optional_vars is None:
            inner = self.clean(s.body)
            if len(inner) == 1 and isinstance(inner[0], ast.Expr) and isinstance(inner[0].value, ast.Await) \
                    and isinstance(inner[0].value.value, ast.Name) and inner[0].value.value.id == event_var:
                return ["PAwaitEvent"]
            self.refuse(s, "body of the timeout block")
        self.refuse(s, "statement of an operation")

    def operation(self, node, statuses):
        """-> (Gallina record, closure term or None)"""
        body = self.clean(node.body)
        pre, post, inner, scope, closure = [], [], None, None, None
        futures = set()
        i = 0
        cbname = None
        while i < len(body):
            s = body[i]
            src = ast.unparse(s)
            if isinstance(s, ast.With):
                if scope is not None or len(s.items) != 1:
                    self.refuse(s, "more than one scope")
                ce, var = s.items[0].context_expr, s.items[0].optional_vars
                if not (isinstance(ce, ast.Call) and ast.unparse(ce.func) in ("self.wait_for_stack_status", "self._ezsp.wait_for_stack_status")
                        and len(ce.args) == 1 and not ce.keywords and isinstance(var, ast.Name)):
                    self.refuse(s, "with item")
                st = ast.unparse(ce.args[0])
                if st not in statuses:
                    self.refuse(ce.args[0], "status waited for")
                scope = f"ScopeWith {statuses[st]}"
                inner = [x for st_ in self.clean(s.body) for x in self.simple(st_, var.id)]
                i += 1
                continue
            if scope is None and isinstance(s, ast.Assign) and len(s.targets) == 1 and isinstance(s.targets[0], ast.Name) \
                    and ast.unparse(s.value) == "asyncio.Future()":
                futures.add(s.targets[0].id)       # a new future; nothing registered yet
                i += 1
                continue
            if scope is None and src == "results = []":
                i += 1
                continue
            if scope is None and isinstance(s, ast.FunctionDef) and closure is None:
                closure = self.list_cb(s, futures)
                cbname = s.name
                i += 1
                continue
            if scope is None and cbname and src == f"cbid = self.add_callback({cbname})":
                if i + 1 >= len(body) or not isinstance(body[i + 1], ast.Try):
                    self.refuse(s, "add_callback must be followed at once by try/finally")
                t = body[i + 1]
                if t.handlers or t.orelse or [ast.unparse(x) for x in self.clean(t.finalbody)] != ["self.remove_callback(cbid)"]:
                    self.refuse(t, "expected try/finally whose finally clause is `self.remove_callback(cbid)`")
                scope = "ScopeCallback"
                ev = closure[1]
                inner = [x for st_ in self.clean(t.body) for x in self.simple(st_, ev)]
                i += 2
                continue
            if isinstance(s, ast.Return) and i == len(body) - 1:
                if s.value is not None:
                    self.pure_test(s.value)
                i += 1
                continue
            (pre if scope is None else post).extend(self.simple(s, None))
            i += 1
        if scope is None:
            self.refuse(node.name, "no scope (with wait_for_stack_status / add_callback + try/finally) found")
        lst = lambda l: "[" + "; ".join(l) + "]"
        rec = f"{{| op_pre := {lst(pre)}; op_scope := {scope}; op_body := {lst(inner)}; op_post := {lst(post)} |}}"
        return rec, (closure[0] if closure else None)

    def list_cb(self, node, futures):
        """the callback _list_command registers -> (Gallina term, name of the future it resolves)"""
        if [a.arg for a in node.args.args] != ["frame_name", "response"] or node.decorator_list:
            self.refuse(node.name, "closure parameters")
        body = self.clean(node.body)
        if len(body) != 1 or not isinstance(body[0], ast.If):
            self.refuse(node.name, "closure body")
        s = body[0]
        ok = (ast.unparse(s.test) == "frame_name in item_frames" and [ast.unparse(x) for x in self.clean(s.body)] == ["results.append(response)"]
              and len(s.orelse) == 1 and isinstance(s.orelse[0], ast.If) and ast.unparse(s.orelse[0].test) == "frame_name == completion_frame"
              and not s.orelse[0].orelse and len(self.clean(s.orelse[0].body)) == 1)
        if not ok:
            self.refuse(s, "closure body")
        setr = self.clean(s.orelse[0].body)[0]
        c = setr.value if isinstance(setr, ast.Expr) else None
        if not (isinstance(c, ast.Call) and isinstance(c.func, ast.Attribute) and c.func.attr == "set_result" and isinstance(c.func.value, ast.Name)
                and c.func.value.id in futures and [ast.unparse(x) for x in c.args] == ["response"]):
            self.refuse(setr, "completion branch")
        term = ("if is_item then (results ++ [response], fut, false)\n"
                "else if is_completion then\n"
                "  match fut with\n"
                "  | None => (results, Some response, false)\n"
                "  | Some _ => (results, fut, true)      (* set_result on a finished future: InvalidStateError *)\n"
                "  end\n"
                "else (results, fut, false)")
        return term, c.func.value.id


def gen_events_fn() -> str:
    import bellows.ezsp as E
    import bellows.types as t
    import bellows.zigbee.application as A
    Z = E.EZSP
    statuses = {f"t.sl_Status.{m.name}": int(m) for m in t.sl_Status}
    out = ["(* GENERATED by harness/pysrc.py from the SOURCE TEXT of bellows/ezsp/__init__.py (callback registry, stack-status listeners,\n"
           "   operations completed by an event) and of ControllerApplication._ensure_network_running -- do not edit *)\n"
           "From Coq Require Import ZArith NArith List Bool String.\nImport ListNotations.\nOpen Scope N_scope.\n\n", EVENTS_PRELUDE]

    def node_of(cls, name, asyn=False):
        fn = cls.__dict__.get(name)
        if fn is None:
            raise GenError(f"{cls.__name__}.{name}", "not defined by this class")
        fn = getattr(fn, "__wrapped__", fn)
        src = textwrap.dedent(inspect.getsource(fn))
        n = ast.parse(src).body[0]
        want = ast.AsyncFunctionDef if asyn else ast.FunctionDef
        if not isinstance(n, want):
            raise GenError(f"{cls.__name__}.{name}", "coroutine / plain function kind changed")
        return n

    # the constructor registers stack_status_callback and starts with no listeners
    init_src = inspect.getsource(Z.__init__)
    for need in ("self._callbacks = {}", "collections.defaultdict(list)", "self.add_callback(self.stack_status_callback)"):
        if need not in init_src:
            raise GenError("EZSP.__init__", f"`{need}` not found")
    tr = EvTr("EZSP.add_callback (source)")
    out.append("(* from the source of EZSP.add_callback; hash_cb: what hash(cb) returns *)\n"
               "Definition py_add_callback {C} (hash_cb : Z) (cbs : zdict C) (cb : C) : zdict C * Z :=\n"
               + textwrap.indent(tr.add_callback(node_of(Z, "add_callback")), "  ") + ".\n\n")
    tr = EvTr("EZSP.remove_callback (source)")
    out.append("(* from the source of EZSP.remove_callback: None = KeyError *)\n"
               "Definition py_remove_callback {C} (cbs : zdict C) (id_ : Z) : option (C * zdict C) :=\n  "
               + tr.remove_callback(node_of(Z, "remove_callback")) + ".\n\n")
    tr = EvTr("EZSP.handle_callback (source)")
    term, swallow = tr.handle_callback(node_of(Z, "handle_callback"))
    if swallow:
        out.append("(* from the source of EZSP.handle_callback; call h s: the state after handler h ran on the frame and whether it raised\n"
                   "   an Exception (logged and swallowed by the try/except around each handler) *)\n"
                   "Definition py_handle_callback {C S} (call : C -> S -> S * bool) (cbs : zdict C) (s : S) : S :=\n  " + term + ".\n\n")
    else:
        out.append("(* from the source of EZSP.handle_callback: NO try/except around the handlers -- the first one that raises ends the\n"
                   "   iteration; result: the state and whether an exception escaped *)\n"
                   "Definition py_handle_callback {C S} (call : C -> S -> S * bool) (cbs : zdict C) (s : S) : S * bool :=\n  " + term + ".\n\n")
    tr = EvTr("EZSP.stack_status_callback (source)")
    out.append("(* from the source of EZSP.stack_status_callback; status: the unified status the frame carries; result: the listeners\n"
               "   and whether an exception escaped *)\n"
               "Definition py_stack_status_callback (is_stack_status_frame : bool) (status : N) (d : ldict) : ldict * bool :=\n"
               + textwrap.indent(tr.stack_status_callback(node_of(Z, "stack_status_callback")), "  ") + ".\n\n")
    tr = EvTr("EZSP.wait_for_stack_status (source)")
    w = tr.wait_for_stack_status(node_of(Z, "wait_for_stack_status"))
    out.append("(* from the source of EZSP.wait_for_stack_status (a generator under contextlib.contextmanager): what runs before the\n"
               "   yield (on entering the with block), after it when the block ends normally, when an exception / cancellation leaves\n"
               "   the block, and the done-callback attached to the future; future: identity of the newly created future *)\n")
    for key, nm in (("enter", "py_wait_enter"), ("exit_normal", "py_wait_exit_normal"), ("exit_exception", "py_wait_exit_exception"),
                    ("done_cb", "py_wait_done_callback")):
        out.append(f"Definition {nm} (status future : N) (d : ldict) : ldict :=\n{textwrap.indent(w[key], '  ')}.\n")
    out.append("\n")
    ops = [("py_leaveNetwork", Z, "leaveNetwork"), ("py_formNetwork", Z, "formNetwork"),
           ("py_ensure_network_running", A.ControllerApplication, "_ensure_network_running"), ("py_list_command", Z, "_list_command")]
    for coq, cls, name in ops:
        tr = EvTr(f"{cls.__name__}.{name} (source)")
        rec, closure = tr.operation(node_of(cls, name, asyn=True), statuses)
        if (closure is not None) != (name == "_list_command"):
            raise GenError(f"{cls.__name__}.{name}", "unexpected closure")
        if closure:
            out.append("(* from the source of the callback _list_command registers; is_item: frame_name in item_frames, is_completion:\n"
                       "   frame_name == completion_frame; fut: the result of the completion future if it is set; result: results, fut,\n"
                       "   whether an exception escaped *)\n"
                       "Definition py_list_command_cb {R} (is_item is_completion : bool) (response : R) (results : list R) (fut : option R)\n"
                       "  : list R * option R * bool :=\n" + textwrap.indent(closure, "  ") + ".\n")
        out.append(f"(* from the source of {cls.__name__}.{name} *)\nDefinition {coq} : py_op :=\n  {rec}.\n\n")
    # the scan family goes through _list_command
    for nm in ("startScan",):
        pm = Z.__dict__.get(nm)
        if not isinstance(pm, functools.partialmethod) or pm.func is not Z.__dict__["_list_command"]:
            raise GenError(f"EZSP.{nm}", "is no longer functools.partialmethod(_list_command, ...)")
    return "".join(out)




# ==================================================================================================
# AshProtocol.data_received: the byte-level receive loop (bellows/ash.py)
# ==================================================================================================
ASH_LOOP_PRELUDE = r"""(* ---- fixed vocabulary (not derived from the source) ---------------------------------------------
   bytes / bytearray objects are lists of bytes; indices that come out of enumerate() are nat *)
(* truthiness of a bytes-like object: `if x` / `while x` / `not x` *)
Definition py_is_empty (l : list N) : bool := match l with [] => true | _ => false end.
(* hay[:len(needle)] == needle *)
Fixpoint py_startswith (hay needle : list N) {struct needle} : bool :=
  match needle, hay with
  | [], _ => true
  | _ :: _, [] => false
  | x :: needle', y :: hay' => (y =? x) && py_startswith hay' needle'
  end.
(* `needle in hay` for two bytes-like objects: a contiguous occurrence *)
Fixpoint py_contains (needle hay : list N) : bool :=
  py_startswith hay needle || match hay with [] => false | _ :: hay' => py_contains needle hay' end.
(* hay.partition(sep), sep not empty: (before, sep, after) around the first occurrence; (hay, b"", b"") when there is none *)
Fixpoint py_partition (sep hay : list N) : list N * list N * list N :=
  if py_startswith hay sep then ([], sep, skipn (List.length sep) hay)
  else match hay with
       | [] => ([], [], [])
       | x :: hay' => let '(before, s, after) := py_partition sep hay' in (x :: before, s, after)
       end.
(* next((i, x) for i, x in enumerate(l) if p i x): the first pair that passes the filter; None = StopIteration *)
Fixpoint py_next_enumerate_from (p : nat -> N -> bool) (i : nat) (l : list N) : option (nat * N) :=
  match l with
  | [] => None
  | x :: l' => if p i x then Some (i, x) else py_next_enumerate_from p (S i) l'
  end.
Definition py_next_enumerate (p : nat -> N -> bool) (l : list N) : option (nat * N) := py_next_enumerate_from p 0 l.
(* l.pop(i) for i >= 0: the list without its i-th element; None = IndexError *)
Fixpoint py_pop_at (i : nat) (l : list N) : option (list N) :=
  match l, i with
  | [], _ => None
  | _ :: l', O => Some l'
  | x :: l', S i' => option_map (cons x) (py_pop_at i' l')
  end.
(* l[-k:] for an integer k >= 0 (l[-0:] is l[0:], the whole object) *)
Definition py_suffix (k : nat) (l : list N) : list N :=
  match k with O => l | _ => skipn (List.length l - k) l end.
(* how one run of a loop body ends: falls off the end / continue, break, an exception nobody caught *)
Inductive py_ctl := CNext | CBreak | CRaise.
(* how a call ends: returns, raises, or the fuel of a `while` ran out while its test still held
   (proofs/AshLoopSrc_proofs.v: the last one never happens) *)
Inductive py_outcome (St : Type) := Done (s : St) | Raised (s : St) | OutOfFuel (s : St).
Arguments Done {St} s.
Arguments Raised {St} s.
Arguments OutOfFuel {St} s.
(* while test: body -- on explicit fuel *)
Fixpoint py_while {St : Type} (test : St -> bool) (body : St -> St * py_ctl) (fuel : nat) (s : St) : py_outcome St :=
  if test s then
    match fuel with
    | O => OutOfFuel s
    | S fuel' =>
        match body s with
        | (s', CNext) => py_while test body fuel' s'
        | (s', CBreak) => Done s'
        | (s', CRaise) => Raised s'
        end
    end
  else Done s.

"""

ASH_LOOP_STATE = [("_buffer", "buffer", "bytes"), ("_discarding_until_next_flag", "discarding", "bool")] + ASH_STATE
_LOOP_COQTY = {"bytes": "list N", "N": "N", "nat": "nat", "bool": "bool", "frame": "frame"}
_LOOP_CTL = {"end": "CNext", "continue": "CNext", "break": "CBreak", "raise": "CRaise"}
_LOOP_RESERVED_NAMES = {"s", "eff", "eff1", "fuel", "fix", "fun", "let", "end", "at", "match", "with", "then", "forall", "exists", "Type", "Set", "Prop"}


class _LoopHandler:
    def __init__(self, classes, label, body, ctx, k):
        self.classes, self.label, self.body, self.ctx, self.k = classes, label, body, ctx, k


class _LoopCtx:
    """where a statement sits: kind 'fn' | 'loop'; groups of exception handlers, outermost try first"""

    def __init__(self, kind, groups=()):
        self.kind, self.groups = kind, tuple(groups)

    def push(self, group):
        return _LoopCtx(self.kind, self.groups + (tuple(group),))


class LoopTr(MethodTr):
    """A synchronous AshProtocol method with a `while` loop over self attributes.

    Statements are translated in continuation style with an explicit, immutable environment (name -> type), so that
    definite assignment is checked path by path.  Supported: assignments to self attributes of ASH_LOOP_STATE and to
    locals (also tuple targets with `_`), bytes operations (extend / clear / pop(i) / partition / slices [:i] [i:] [-K:] /
    `in` / len / bytes([..]) / truthiness), comparisons, if / elif / else, one `while <bytes attribute>:` at function
    level (fuel = len + 1), break / continue / raise, try / except / else (no finally) and contextlib.suppress, resolved
    structurally: an operation that can raise (next(<generator expression over enumerate>), x.pop(i),
    self._unstuff_bytes(..), parse_frame(..), raise) continues with the innermost handler whose class catches every
    class the operation can raise, otherwise the exception leaves the function.  Calls with effects are those of
    MethodTr plus self.frame_received(frame) (= py_frame_received of GenAshRxFn.v).

    A local that an earlier iteration may have bound (assigned inside the loop and also bound before it) is refused
    when read before the current iteration assigns it: the emitted body has no loop-carried locals."""

    def __init__(self, where, consts, ns, raising):
        super().__init__(where, consts, {}, [])
        self.ns = ns                      # namespace in which exception class names are resolved
        self.raising = raising            # callee -> (Gallina option-valued function, result type, classes it can raise)
        self.state = [c for _, c, _ in ASH_LOOP_STATE] + ["eff"]
        self.state_types = {c: t for _, c, t in ASH_LOOP_STATE}
        self.defs = []                    # definitions emitted before the main one (loop test / body)
        self.loops = {}                   # (test, body, parameters) of a loop -> name of its definitions
        self.fname = "py_fn"

    # ---- helpers ---------------------------------------------------------------------------------
    def tuple_(self):
        return "(" + ", ".join(self.state) + ")"

    def norm(self, e):
        attrs = {a: c for a, c, _ in ASH_LOOP_STATE}

        class Nrm(ast.NodeTransformer):
            def visit_Attribute(s, n):
                s.generic_visit(n)
                if isinstance(n.value, ast.Name) and n.value.id == "self" and n.attr in attrs:
                    return ast.copy_location(ast.Name(id=attrs[n.attr], ctx=n.ctx), n)
                return n
        return Nrm().visit(e)

    @staticmethod
    def noise(s):
        if isinstance(s, ast.Expr) and isinstance(s.value, ast.Constant) and isinstance(s.value.value, str):
            return True
        if isinstance(s, ast.Expr) and isinstance(s.value, ast.Call) and ast.unparse(s.value.func).split(".")[0] in ("LOGGER", "_LOGGER"):
            return True
        return isinstance(s, ast.Pass)

    def resolve_exc(self, node):
        """an `except` / suppress() class expression -> tuple of live exception classes"""
        if node is None:
            return (BaseException,)
        if isinstance(node, ast.Tuple):
            return tuple(c for e in node.elts for c in self.resolve_exc(e))
        try:
            obj = _resolve(self.ns, node)
        except Exception:
            obj = None
        if not (isinstance(obj, type) and issubclass(obj, BaseException)):
            self.refuse(node, "not an exception class")
        return (obj,)

    # ---- expressions -----------------------------------------------------------------------------
    def ty(self, e):
        if isinstance(e, ast.Name):
            t = self.types.get(e.id)
            if t is None and e.id in self.consts:
                return "N"
            if t is None:
                self.refuse(e, "name not bound on this path")
            if t.startswith("poison"):
                self.refuse(e, "local that an earlier iteration of the loop may have rebound (loop-carried locals are not supported)")
            return t
        if isinstance(e, ast.Call):
            f = ast.unparse(e.func)
            if f == "len" and len(e.args) == 1 and not e.keywords and self.ty(e.args[0]) == "bytes":
                return "nat"
            if f == "bytes" and len(e.args) == 1 and not e.keywords and isinstance(e.args[0], ast.List):
                return "bytes"
            self.refuse(e, "call in an expression")
        if isinstance(e, ast.Subscript):
            if self.ty(e.value) == "bytes" and isinstance(e.slice, ast.Slice):
                return "bytes"
            self.refuse(e, "subscript")
        if isinstance(e, ast.BinOp) and isinstance(e.op, ast.Add):
            lt, rt = self.ty(e.left), self.ty(e.right)
            if "nat" in (lt, rt) and {lt, rt} <= {"nat", "N"}:
                return "nat"
            if lt == rt == "bytes":
                return "bytes"
        return super().ty(e)

    def ex_nat(self, e):
        """an integer expression read as a natural number (indices, lengths)"""
        if isinstance(e, ast.Constant) and isinstance(e.value, int) and not isinstance(e.value, bool) and e.value >= 0:
            return f"{e.value}%nat"
        if isinstance(e, ast.Name) and e.id not in self.types and e.id in self.consts:
            return f"(N.to_nat {self.consts[e.id]})"
        t = self.ty(e)
        if t == "nat":
            return self.ex(e)
        if t == "N":
            return f"(N.to_nat {self.ex(e)})"
        self.refuse(e, "not an integer")

    def ex(self, e):
        if isinstance(e, ast.Call):
            f = ast.unparse(e.func)
            if f == "len" and self.ty(e) == "nat":
                return f"(List.length {self.ex(e.args[0])})"
            if f == "bytes" and self.ty(e) == "bytes":
                for x in e.args[0].elts:
                    if self.ty(x) != "N":
                        self.refuse(x, "element of a bytes literal")
                return "[" + "; ".join(self.ex(x) for x in e.args[0].elts) + "]"
            self.refuse(e, "call in an expression")
        if isinstance(e, ast.Subscript):
            if self.ty(e) != "bytes":
                self.refuse(e, "subscript")
            sl, base = e.slice, self.ex(e.value)
            if sl.step is not None:
                self.refuse(e, "slice with a step")
            if sl.lower is None and sl.upper is not None and self.ty(sl.upper) == "nat":
                return f"(firstn {self.ex_nat(sl.upper)} {base})"
            if sl.upper is None and sl.lower is not None:
                lo = sl.lower
                if isinstance(lo, ast.UnaryOp) and isinstance(lo.op, ast.USub):
                    k = lo.operand
                    if (isinstance(k, ast.Name) and k.id not in self.types and k.id in self.consts) or \
                            (isinstance(k, ast.Constant) and isinstance(k.value, int) and not isinstance(k.value, bool) and k.value >= 0):
                        return f"(py_suffix {self.ex_nat(k)} {base})"
                    self.refuse(e, "negative slice bound that is not a constant")
                if self.ty(lo) == "nat":
                    return f"(skipn {self.ex_nat(lo)} {base})"
            self.refuse(e, "slice form (supported: x[:i], x[i:] with i from enumerate(), x[-K:] with a constant K)")
        if isinstance(e, ast.BinOp) and isinstance(e.op, ast.Add):
            t = self.ty(e)
            if t == "nat":
                return f"({self.ex_nat(e.left)} + {self.ex_nat(e.right)})%nat"
            if t == "bytes":
                return f"({self.ex(e.left)} ++ {self.ex(e.right)})"
        if isinstance(e, ast.UnaryOp) and isinstance(e.op, ast.Not) and self.ty(e.operand) == "bytes":
            return f"(py_is_empty {self.ex(e.operand)})"
        if isinstance(e, ast.Compare) and len(e.ops) == 1:
            op, lhs, rhs = e.ops[0], e.left, e.comparators[0]
            if isinstance(op, (ast.In, ast.NotIn)):
                lt = self.ty(lhs)
                if isinstance(rhs, ast.Name) and rhs.id not in self.types and rhs.id in ("RESERVED_WITHOUT_ESCAPE", "RESERVED_BYTES"):
                    if lt != "N":
                        self.refuse(e, "membership of a non-integer in a set of reserved bytes")
                    t = f"(mem_N {self.ex(lhs)} {rhs.id})"
                elif self.ty(rhs) == "bytes" and lt == "bytes":
                    t = f"(py_contains {self.ex(lhs)} {self.ex(rhs)})"
                elif self.ty(rhs) == "bytes" and lt == "N":
                    t = f"(mem_N {self.ex(lhs)} {self.ex(rhs)})"
                else:
                    self.refuse(e, "membership test")
                return t if isinstance(op, ast.In) else f"(negb {t})"
            lt, rt = self.ty(lhs), self.ty(rhs)
            if {lt, rt} <= {"nat", "N"} and "nat" in (lt, rt):
                a, b = self.ex_nat(lhs), self.ex_nat(rhs)
                forms = {ast.Eq: f"({a} =? {b})%nat", ast.NotEq: f"(negb ({a} =? {b})%nat)", ast.Lt: f"({a} <? {b})%nat",
                         ast.Gt: f"({b} <? {a})%nat", ast.LtE: f"({a} <=? {b})%nat", ast.GtE: f"({b} <=? {a})%nat"}
                if type(op) in forms:
                    return forms[type(op)]
            if lt == rt == "N" and isinstance(op, (ast.Lt, ast.Gt, ast.LtE, ast.GtE)):
                a, b = self.ex(lhs), self.ex(rhs)
                return {ast.Lt: f"({a} <? {b})", ast.Gt: f"({b} <? {a})", ast.LtE: f"({a} <=? {b})", ast.GtE: f"({b} <=? {a})"}[type(op)]
        return super().ex(e)

    def cond(self, e):
        t = self.ty(e)
        if t == "bool":
            return self.ex(e)
        if t == "bytes":
            return f"(negb (py_is_empty {self.ex(e)}))"
        if t == "nat":
            return f"(negb ({self.ex(e)} =? 0)%nat)"
        if t != "N":
            self.refuse(e, "truth value of this expression")
        return super().cond(e)

    # ---- control ---------------------------------------------------------------------------------
    def finish(self, ctx, how, node=None):
        if ctx.kind == "loop":
            return f"({self.tuple_()}, {_LOOP_CTL[how]})"
        if how in ("break", "continue"):
            self.refuse(node, f"`{how}` outside a loop")
        return f"{'Done' if how == 'end' else 'Raised'} {self.tuple_()}"

    def raise_to(self, classes, what, env, ctx, node):
        """the term that runs after an operation raised one of `classes` (live exception classes)"""
        classes = set(classes)
        for group in reversed(ctx.groups):
            for h in group:
                caught = {c for c in classes if issubclass(c, h.classes)}
                if caught == classes:
                    return self.seq(h.body, env, h.ctx, h.k)
                if caught:
                    missed = sorted(c.__name__ for c in classes - caught)
                    self.refuse(node, f"`except {h.label}` catches only some of what {what} can raise (not {', '.join(missed)}); "
                                      "the emitted callee does not tell the classes apart")
        self.types = env
        return self.finish(ctx, "raise", node)

    def seq(self, stmts, env, ctx, k):
        stmts = [s for s in stmts if not self.noise(s)]
        if not stmts:
            return k(env)
        s, rest = stmts[0], stmts[1:]
        return self.stmt(s, env, ctx, lambda env2: self.seq(rest, env2, ctx, k))

    def bind(self, env, name, t, node):
        if name in self.state or name in _LOOP_RESERVED_NAMES or name.startswith("py_"):
            self.refuse(node, f"local name `{name}` clashes with the emitted vocabulary")
        old = env.get(name)
        if old is not None and not old.startswith("poison") and old != t:
            self.refuse(node, "variable changes type")
        env2 = dict(env)
        env2[name] = t
        return env2

    def target(self, t, ty_, env, node):
        """one assignment target -> (pattern variable, new env)"""
        if isinstance(t, ast.Name) and t.id == "_":
            return "_", env
        if isinstance(t, ast.Name) and t.id in self.state_types:
            if self.state_types[t.id] != ty_:
                self.refuse(node, "type of the value assigned to a self attribute")
            return t.id, env
        if isinstance(t, ast.Name):
            return t.id, self.bind(env, t.id, ty_, node)
        self.refuse(node, "assignment target")

    def raising_call(self, v):
        """(option-valued term, result types, tuple result?, classes, description, (pattern, element) of a generator)
        for an expression that can raise, else None"""
        if isinstance(v, ast.Call) and isinstance(v.func, ast.Name) and v.func.id == "next":
            if len(v.args) != 1 or v.keywords or not isinstance(v.args[0], ast.GeneratorExp):
                self.refuse(v, "next() form (expected next(<generator expression>) without a default)")
            g = v.args[0]
            if len(g.generators) != 1 or g.generators[0].is_async:
                self.refuse(g, "generator expression form")
            c = g.generators[0]
            it = c.iter
            if not (isinstance(it, ast.Call) and isinstance(it.func, ast.Name) and it.func.id == "enumerate" and len(it.args) == 1 and not it.keywords
                    and isinstance(c.target, ast.Tuple) and len(c.target.elts) == 2 and all(isinstance(x, ast.Name) for x in c.target.elts)):
                self.refuse(g, "generator expression form (expected `for i, x in enumerate(<bytes>)`)")
            if self.ty(it.args[0]) != "bytes":
                self.refuse(it, "enumerate() of something other than bytes")
            src = self.ex(it.args[0])
            iv, xv = (x.id for x in c.target.elts)
            for nm in (iv, xv):
                if nm in self.types or nm in self.state or nm in _LOOP_RESERVED_NAMES:
                    self.refuse(g, f"generator variable `{nm}` shadows another name")
            saved = self.types
            self.types = dict(saved, **{iv: "nat", xv: "N"})
            flt = " && ".join(self.cond(t) for t in c.ifs) if c.ifs else "true"
            elts = g.elt.elts if isinstance(g.elt, ast.Tuple) else [g.elt]
            tys = [self.ty(x) for x in elts]
            elt = "(" + ", ".join(self.ex(x) for x in elts) + ")" if isinstance(g.elt, ast.Tuple) else self.ex(g.elt)
            self.types = saved
            term = f"py_next_enumerate (fun {iv} {xv} => {flt}) {src}"
            return term, tys, isinstance(g.elt, ast.Tuple), (StopIteration,), "next() on an exhausted generator", (f"({iv}, {xv})", elt)
        if isinstance(v, ast.Call) and ast.unparse(v.func) in self.raising and len(v.args) == 1 and not v.keywords:
            fn, rty, classes = self.raising[ast.unparse(v.func)]
            if self.ty(v.args[0]) != "bytes":
                self.refuse(v, "argument type")
            return f"{fn} {self.ex(v.args[0])}", [rty], False, classes, ast.unparse(v.func), None
        return None

    def stmt(self, s, env, ctx, nxt):
        self.types = env
        ind = lambda t: textwrap.indent(t, "  ")
        if isinstance(s, ast.Break) or isinstance(s, ast.Continue):
            return self.finish(ctx, "break" if isinstance(s, ast.Break) else "continue", s)
        if isinstance(s, ast.Raise):
            if s.cause is not None or s.exc is None:
                self.refuse(s, "raise form")
            cls_node = s.exc.func if isinstance(s.exc, ast.Call) else s.exc
            return self.raise_to(self.resolve_exc(cls_node), "this statement", env, ctx, s)
        if isinstance(s, ast.If):
            c = self.cond(s.test)
            a = self.seq(list(s.body), env, ctx, nxt)
            b = self.seq(list(s.orelse), env, ctx, nxt)
            return f"if {c} then\n{ind(a)}\nelse\n{ind(b)}"
        if isinstance(s, ast.With):
            # with contextlib.suppress(X): body  ==  try: body / except X: pass
            if len(s.items) == 1 and s.items[0].optional_vars is None and isinstance(s.items[0].context_expr, ast.Call) \
                    and ast.unparse(s.items[0].context_expr.func) == "contextlib.suppress" and s.items[0].context_expr.args \
                    and not s.items[0].context_expr.keywords:
                a = s.items[0].context_expr.args
                typ = a[0] if len(a) == 1 else ast.Tuple(elts=list(a), ctx=ast.Load())
                return self.stmt(ast.Try(body=list(s.body), handlers=[ast.ExceptHandler(type=typ, name=None, body=[ast.Pass()])],
                                         orelse=[], finalbody=[]), env, ctx, nxt)
            self.refuse(s, "with statement (only contextlib.suppress(..) is supported)")
        if isinstance(s, ast.Try):
            if s.finalbody:
                self.refuse(s, "try with a finally clause")
            group = []
            for h in s.handlers:
                if h.name is not None:
                    self.refuse(h, "handler that binds the exception")
                group.append(_LoopHandler(self.resolve_exc(h.type), ast.unparse(h.type) if h.type else "<bare>", list(h.body), ctx, nxt))
            inner = ctx.push(group)
            return self.seq(list(s.body), env, inner, lambda env2: self.seq(list(s.orelse), env2, ctx, nxt))
        if isinstance(s, ast.While):
            return self.while_(s, env, ctx, nxt)
        if isinstance(s, ast.Assign):
            if len(s.targets) != 1:
                self.refuse(s, "chained assignment")
            tgt, v = s.targets[0], s.value
            tgts = list(tgt.elts) if isinstance(tgt, ast.Tuple) else [tgt]
            # x.partition(sep)
            if isinstance(v, ast.Call) and isinstance(v.func, ast.Attribute) and v.func.attr == "partition":
                if len(v.args) != 1 or v.keywords or self.ty(v.func.value) != "bytes" or self.ty(v.args[0]) != "bytes" or len(tgts) != 3:
                    self.refuse(s, "partition form")
                sep = v.args[0]
                if not (isinstance(sep, ast.Call) and isinstance(sep.args[0], ast.List) and sep.args[0].elts):
                    self.refuse(s, "partition separator must be a non-empty bytes([..]) literal")
                term = f"py_partition {self.ex(sep)} {self.ex(v.func.value)}"
                pats, env2 = [], env
                for t in tgts:
                    p, env2 = self.target(t, "bytes", env2, s)
                    pats.append(p)
                return f"let '({', '.join(pats)}) := {term} in\n{nxt(env2)}"
            r = self.raising_call(v)
            if r is not None:
                term, tys, is_tuple, classes, what, via = r
                if is_tuple != isinstance(tgt, ast.Tuple) or len(tys) != len(tgts):
                    self.refuse(s, "shape of the assignment target")
                pats, env2 = [], env
                for t, ty_ in zip(tgts, tys):
                    p, env2 = self.target(t, ty_, env2, s)
                    pats.append(p)
                pat = "(" + ", ".join(pats) + ")" if is_tuple else pats[0]
                bad = self.raise_to(classes, what, env, ctx, s)
                good = nxt(env2)
                if via is not None:       # the generator's own variables, then the element it yields
                    good = f"let {"'" if is_tuple else ""}{pat} := {via[1]} in\n{good}"
                    pat = via[0]
                return f"match {term} with\n| None =>\n{ind(bad)}\n| Some {pat} =>\n{ind(good)}\nend"
            if isinstance(tgt, ast.Tuple):
                self.refuse(s, "tuple assignment")
            ty_ = self.ty(v)
            if ty_ == "bytes" and isinstance(v, ast.Name) and (v.id in self.state_types or self.state_types.get(getattr(tgt, "id", None))):
                self.refuse(s, "second name for a bytearray attribute (aliasing is not tracked)")
            if ty_ not in _LOOP_COQTY:
                self.refuse(s, "type of the assigned value")
            term = self.ex(v)
            p, env2 = self.target(tgt, ty_, env, s)
            return f"let {p} := {term} in\n{nxt(env2)}"
        if isinstance(s, ast.Expr) and isinstance(s.value, ast.Call):
            call = s.value
            f = call.func
            if isinstance(f, ast.Attribute) and isinstance(f.value, ast.Name) and f.value.id in env and not call.keywords \
                    and f.attr in ("extend", "clear", "pop", "append"):
                if self.ty(f.value) != "bytes":
                    self.refuse(s, "method of a non-bytes value")
                x = f.value.id
                if x not in self.state_types:
                    self.refuse(s, "in-place change of a local (aliasing is not tracked)")
                if f.attr == "extend" and len(call.args) == 1 and self.ty(call.args[0]) == "bytes":
                    return f"let {x} := {x} ++ {self.ex(call.args[0])} in\n{nxt(env)}"
                if f.attr == "append" and len(call.args) == 1 and self.ty(call.args[0]) == "N":
                    return f"let {x} := {x} ++ [{self.ex(call.args[0])}] in\n{nxt(env)}"
                if f.attr == "clear" and not call.args:
                    return f"let {x} := [] in\n{nxt(env)}"
                if f.attr == "pop" and len(call.args) == 1 and self.ty(call.args[0]) == "nat":
                    term = f"py_pop_at {self.ex(call.args[0])} {x}"
                    bad = self.raise_to((IndexError,), "pop()", env, ctx, s)
                    return f"match {term} with\n| None =>\n{ind(bad)}\n| Some {x} =>\n{ind(nxt(env))}\nend"
                self.refuse(s, "bytearray method call")
            if ast.unparse(f) == "self.frame_received" and len(call.args) == 1 and not call.keywords \
                    and isinstance(call.args[0], ast.Name) and self.ty(call.args[0]) == "frame":
                st4 = "(" + ", ".join(c for _, c, _ in ASH_STATE) + ")"
                pat = "(" + ", ".join([c for _, c, _ in ASH_STATE] + ["eff1"]) + ")"
                return (f"let '{pat} := py_frame_received {st4} {call.args[0].id} in\nlet eff := eff ++ eff1 in\n{nxt(env)}")
            eff = self.effect(call)
            if isinstance(eff, tuple):
                self.refuse(s, "call of another method")
            return f"let eff := eff ++ [{eff}] in\n{nxt(env)}"
        self.refuse(s)

    def while_(self, s, env, ctx, nxt):
        if ctx.kind != "fn" or ctx.groups:
            self.refuse(s, "while loop inside another loop or inside a try block")
        if s.orelse:
            self.refuse(s, "while ... else")
        if not (isinstance(s.test, ast.Name) and self.state_types.get(s.test.id) == "bytes"):
            self.refuse(s.test, "loop test (expected the truthiness of a bytes attribute, whose length + 1 is the fuel)")
        var = s.test.id
        # names bound before the loop that the body (or a later iteration) rebinds cannot be read before they are assigned
        assigned = set()
        for node in ast.walk(ast.Module(body=list(s.body), type_ignores=[])):
            if isinstance(node, ast.Name) and isinstance(node.ctx, ast.Store):
                assigned.add(node.id)
        loads = {node.id for node in ast.walk(ast.Module(body=list(s.body), type_ignores=[])) if isinstance(node, ast.Name) and isinstance(node.ctx, ast.Load)}
        env_loop = {k: (f"poison:{v}" if k in assigned and k not in self.state_types else v) for k, v in env.items()}
        extra = [k for k, v in env_loop.items() if k not in self.state_types and k != "eff" and not v.startswith("poison") and k in loads]
        self.types = env_loop
        test = self.cond(s.test)
        body = self.seq(list(s.body), env_loop, _LoopCtx("loop"), lambda e: self.finish(_LoopCtx("loop"), "end"))
        sty = f"{self.fname}_state"
        args = "".join(f" ({k} : {_LOOP_COQTY[env_loop[k]]})" for k in extra)
        key = (test, body, args)
        if key not in self.loops:          # an `if` in front of the loop duplicates what follows it: one definition is enough
            n = len(self.loops)
            tag = self.loops[key] = f"{self.fname}_loop{n if n else ''}"
            self.defs.append(f"(* the test of the while loop *)\nDefinition {tag}_test (s : {sty}) : bool :=\n"
                             f"  let '{self.tuple_()} := s in\n  {test}.\n")
            self.defs.append(f"(* one run of the loop body: the state afterwards and how the run ended *)\n"
                             f"Definition {tag}_body{args} (s : {sty}) : {sty} * py_ctl :=\n"
                             f"  let '{self.tuple_()} := s in\n{textwrap.indent(body, '  ')}.\n")
        tag = self.loops[key]
        call_args = "".join(f" {k}" for k in extra)
        after = nxt(env_loop)
        return (f"match py_while {tag}_test ({tag}_body{call_args}) (S (List.length {var})) {self.tuple_()} with\n"
                f"| Done s =>\n  let '{self.tuple_()} := s in\n{textwrap.indent(after, '  ')}\n"
                f"| Raised s => Raised s\n| OutOfFuel s => OutOfFuel s\nend")


def _raise_classes(ns, fns) -> tuple:
    """exception classes the given functions can raise themselves: raise statements, failed asserts, integer subscripts,
    constructors of bellows.types (an enum call on an unknown value)"""
    found = {}
    for fn in fns:
        node = _fn_ast(fn)
        q = getattr(getattr(fn, "__func__", fn), "__qualname__", str(fn))
        for n in ast.walk(node):
            if isinstance(n, ast.Raise):
                if n.exc is None:
                    raise GenError(q, "bare `raise`")
                c = n.exc.func if isinstance(n.exc, ast.Call) else n.exc
                try:
                    obj = _resolve(ns, c)
                except Exception:
                    obj = None
                if not (isinstance(obj, type) and issubclass(obj, BaseException)):
                    raise GenError(q, f"cannot resolve the class raised by `{ast.unparse(n)[:60]}`")
                found.setdefault(obj, q)
            elif isinstance(n, ast.Assert):
                found.setdefault(AssertionError, q)
            elif isinstance(n, ast.Subscript) and not isinstance(n.slice, ast.Slice) and isinstance(n.ctx, ast.Load):
                found.setdefault(IndexError, q)
            elif isinstance(n, ast.Call) and isinstance(n.func, ast.Attribute) and isinstance(n.func.value, ast.Name) and n.func.value.id == "t":
                found.setdefault(ValueError, q)
    return tuple(found)


def gen_ash_loop_fn() -> str:
    import builtins

    import bellows.ash as ash

    P = ash.AshProtocol
    where = "AshProtocol.data_received (source)"
    consts = {f"Reserved.{m.name}": int(m) for m in ash.Reserved}
    if not isinstance(ash.MAX_BUFFER_SIZE, int) or ash.MAX_BUFFER_SIZE < 0:
        raise GenError("MAX_BUFFER_SIZE", "not a non-negative integer")
    consts["MAX_BUFFER_SIZE"] = "MAX_BUFFER_SIZE"          # the value is GenAsh.v's, read from the same live module
    rwe = ash.RESERVED_WITHOUT_ESCAPE
    if not isinstance(rwe, frozenset) or not all(isinstance(v, ash.Reserved) for v in rwe):
        raise GenError("RESERVED_WITHOUT_ESCAPE", "not a frozenset of Reserved members")
    ns = dict(vars(builtins))
    ns.update(vars(ash))
    # what the two callees of the try block can raise (read from their source; the emitted callees return None for all of them)
    frame_classes = [ash.DataFrame, ash.AckFrame, ash.NakFrame, ash.RstFrame, ash.RStackFrame, ash.ErrorFrame]
    unstuff_raises = _raise_classes(ns, [P._unstuff_bytes])
    parse_raises = _raise_classes(ns, [ash.parse_frame, ash.AshFrame._unwrap, ash.DataFrame._randomize] + [c.from_bytes for c in frame_classes])
    raising = {"self._unstuff_bytes": ("py_unstuff_bytes", "bytes", unstuff_raises),
               "parse_frame": ("parse", "frame", parse_raises)}
    # the two attributes start empty / False and no other method touches them
    init_src = "\n".join(ast.unparse(s) for s in _fn_ast(P.__init__).body)
    for need in ("self._buffer = bytearray()", "self._discarding_until_next_flag: bool = False"):
        if need not in init_src:
            raise GenError("AshProtocol.__init__", f"`{need}` not found")
    for name, fn in vars(P).items():
        if name in ("data_received", "__init__") or not inspect.isfunction(getattr(fn, "__func__", fn)):
            continue
        try:
            txt = inspect.getsource(getattr(fn, "__func__", fn))
        except (OSError, TypeError):
            continue
        for attr in ("_buffer", "_discarding_until_next_flag"):
            if f"self.{attr}" in txt:
                raise GenError(f"AshProtocol.{name}", f"touches self.{attr}, which the emitted receive loop owns")
    node = _fn_ast(P.data_received)
    params = [a.arg for a in node.args.args]
    if params != ["self", "data"] or node.args.vararg or node.args.kwarg or node.args.kwonlyargs or node.decorator_list:
        raise GenError(where, f"parameters {params}")
    tr = LoopTr(where, consts, ns, raising)
    tr.fname = "py_data_received"
    env = {c: t for _, c, t in ASH_LOOP_STATE}
    env["eff"] = "effs"
    env["data"] = "bytes"
    body = [tr.norm(s) for s in node.body]
    for s in body:
        for n in ast.walk(s):
            if isinstance(n, ast.Return):
                raise GenError(where, "return statement")
    main = tr.seq(body, env, _LoopCtx("fn"), lambda e: tr.finish(_LoopCtx("fn"), "end"))
    sty = " * ".join(_LOOP_COQTY[t] for _, _, t in ASH_LOOP_STATE) + " * list py_eff"
    names = lambda cs: ", ".join(sorted(c.__name__ for c in cs))
    out = ["(* GENERATED by harness/pysrc.py from the SOURCE TEXT of AshProtocol.data_received (bellows/ash.py) -- do not edit *)\n"
           "From Coq Require Import NArith Arith List Bool.\nImport ListNotations.\n"
           "Require Import BV.gen.GenAsh BV.gen.GenAshFn BV.gen.GenAshRxFn BV.model.AshCodec.\nOpen Scope N_scope.\n\n",
           ASH_LOOP_PRELUDE,
           "(* ---- from the live module ------------------------------------------------------------------------ *)\n"
           f"Definition RESERVED_WITHOUT_ESCAPE : list N := [{'; '.join(str(int(v)) for v in sorted(rwe))}].\n\n"
           "(* state: (self._buffer, self._discarding_until_next_flag, _rx_seq, _tx_seq, _ncp_state is FAILED, _ncp_reset_code,\n"
           "   effects so far); the last five are what frame_received works on (gen/GenAshRxFn.v).  Both attributes are created\n"
           "   empty / False by __init__ and no other method of AshProtocol mentions them (checked at generation).\n"
           f"   self._unstuff_bytes is py_unstuff_bytes (gen/GenAshFn.v; None = {names(unstuff_raises)}); parse_frame is the codec\n"
           f"   model's `parse` (None = {names(parse_raises)}, as found in the source of parse_frame, the from_bytes\n"
           "   methods, _unwrap and _randomize); self.frame_received is py_frame_received.  _write_frame is recorded as an effect\n"
           "   and taken not to raise (transport open), so contextlib.suppress(NcpFailure) around it changes nothing here.\n"
           "   Log calls are dropped. *)\n"
           f"Definition py_data_received_state : Type := {sty}.\n\n"]
    out.extend(d + "\n" for d in tr.defs)
    out.append("(* from the source of AshProtocol.data_received *)\n"
               "Definition py_data_received (s : py_data_received_state) (data : list N) : py_outcome py_data_received_state :=\n"
               f"  let '{tr.tuple_()} := s in\n{textwrap.indent(main, '  ')}.\n")
    return "".join(out)




# ==================================================================================================
# ASH sender (bellows/ash.py): AshProtocol._change_ack_timeout, send_data, _send_data_frame and the attributes
# __init__ gives them -> gen/GenAshTxFn.v.  The coroutine is cut at its suspension points: the entry of the
# TX_K semaphore and `await ack_future` under asyncio_timeout; one Gallina function per segment.
# ==================================================================================================
TX_STATE = [c for _, c, _ in ASH_STATE] + ["t_rx_ack"]          # rx_seq, tx_seq, failed, code, t_rx_ack
TX_S = ", ".join(TX_STATE)
TX_SELF = {a: (c, t) for a, c, t in ASH_STATE if t == "N" and a != "_ncp_reset_code"}
TX_SELF["_t_rx_ack"] = ("t_rx_ack", "float")
TX_COQTY = {"N": "N", "optN": "option N", "float": "float", "frame": "py_dataframe"}
TX_RESERVED = set(TX_STATE) | {"now", "eff", "eff_rx", "exc_code", "s", "r", "waited", "self"}

TX_PRELUDE = """(* GENERATED by harness/pysrc.py from the SOURCE TEXT of AshProtocol._change_ack_timeout, send_data, _send_data_frame and
   __init__ (bellows/ash.py) in the working tree -- do not edit *)
From Coq Require Import PrimFloat NArith List Bool.
Import ListNotations.
Require Import BV.gen.GenAsh BV.model.AshCodec BV.gen.GenAshRxFn.
Open Scope N_scope.

(* ---- fixed vocabulary (not derived from the source) ---------------------------------------------------------------
   Floats are IEEE binary64 (PrimFloat), literals converted with float.hex(); an int literal that meets a float is
   converted exactly (refused otherwise); `7 / 8` on two int literals is the correctly rounded quotient, i.e. the
   binary64 division of the two (exactly represented) operands.
   Python's built-in min / max on two arguments (bltinmodule.c, min_max): the first argument is kept unless the second
   compares strictly below (min) / above (max) it; comparisons with a NaN are false. *)
Definition py_min (a b : float) : float := if PrimFloat.ltb b a then b else a.
Definition py_max (a b : float) : float := if PrimFloat.ltb a b then b else a.

(* the sender's view of the protocol object: (_rx_seq, _tx_seq, _ncp_state is FAILED, _ncp_reset_code with None = 256,
   _t_rx_ack); the first four are the state of gen/GenAshRxFn.v, whose functions are called for inlined methods *)
Definition tx_state := (N * N * bool * N * float)%type.

(* exceptions the control flow distinguishes, and how `await ack_future` under asyncio_timeout(..) resumes: the future
   got its result (_handle_ack), an exception (_cancel_pending_data_frames(NotAcked(..) | NcpFailure(code))), or the
   timeout expired.  (close() / connection_lost() put a RuntimeError into the future: outside the C05 model.) *)
Inductive tx_exc := XNotAcked | XNcpFailure (code : N) | XTimeout.
Inductive tx_waited := WAcked | WNotAcked | WNcpFailure (code : N) | WTimeout.
"""


def _tx_pure(e) -> bool:
    """a test that can be dropped with the log call it guards: reads only"""
    for n in ast.walk(e):
        if isinstance(n, ast.Call):
            f = ast.unparse(n.func)
            if f not in ("abs", "self._send_data_frame_semaphore.locked") or n.keywords:
                return False
        elif not isinstance(n, (ast.Name, ast.Attribute, ast.Constant, ast.BinOp, ast.Compare, ast.UnaryOp, ast.operator, ast.BoolOp, ast.boolop,
                                ast.cmpop, ast.unaryop, ast.expr_context)):
            return False
    return True


def _tx_clean(node):
    """strip log calls and docstrings, then every `if <read-only test>:` left with empty branches"""
    node = _StripLogs().visit(node)
    removed = []
    empty = lambda b: all(isinstance(x, ast.Pass) for x in b)
    for parent in ast.walk(node):
        for f in ("body", "orelse", "finalbody"):
            body = getattr(parent, f, None)
            if not (isinstance(body, list) and body and isinstance(body[0], ast.stmt)):
                continue
            new = []
            for s in body:
                if isinstance(s, ast.If) and empty(s.body) and empty(s.orelse) and _tx_pure(s.test):
                    removed.append(f"if {ast.unparse(s.test)}: <log>")
                else:
                    new.append(s)
            setattr(parent, f, new or ([ast.Pass()] if f == "body" else []))
    return list(node.body), removed


class TxTr:
    """statements of the sender's methods in continuation style.  `env` maps a Python local to its type ('N', 'optN',
    'float', 'bool', 'frame', 'future'); self attributes are the variables of TX_STATE; `eff` collects the calls made on
    other objects; `k(env)` yields the term for what follows.  Leaving the loop body by raise / break goes through
    `on_raise` / `on_break`, which the generator sets from the enclosing try/finally and async with."""

    def __init__(self, where, ash, writable, fields=None):
        self.where, self.ash, self.writable, self.fields = where, ash, set(writable), fields
        self.on_raise = self.on_break = None
        self.in_finally = False

    def refuse(self, node, why="unsupported construct"):
        src = ast.unparse(node) if isinstance(node, ast.AST) else str(node)
        raise GenError(self.where, f"{why}: `{src[:100]}`")

    # ---- literals ---------------------------------------------------------------------------------------------------
    def flit(self, v, node):
        import math
        f = float(v)
        if isinstance(v, int) and (abs(v) >= 2 ** 53 or int(f) != v):
            self.refuse(node, "int literal not exactly representable as a float")
        if math.isnan(f) or math.isinf(f) or math.copysign(1.0, f) < 0:
            self.refuse(node, "float literal")
        return f"{f.hex()}%float"

    @staticmethod
    def is_int_lit(e):
        return isinstance(e, ast.Constant) and type(e.value) is int and e.value >= 0

    def as_float(self, e, env):
        """operand of a float operation"""
        if self.is_int_lit(e):
            return self.flit(e.value, e)
        term, ty = self.ex(e, env)
        if ty != "float":
            self.refuse(e, "operand of a float operation is not a float")
        return term

    # ---- expressions -> (term, type) ----------------------------------------------------------------------------------
    def ex(self, e, env):
        src = ast.unparse(e)
        if isinstance(e, ast.Constant):
            if e.value is None:
                return "None", "none"
            if self.is_int_lit(e):
                return str(e.value), "N"
            if type(e.value) is float:
                return self.flit(e.value, e), "float"
            self.refuse(e, "constant")
        if isinstance(e, ast.Name):
            if e.id in env:
                if env[e.id] == "future":
                    self.refuse(e, "a future used as a value")
                return e.id, env[e.id]
            v = vars(self.ash).get(e.id, _MISSING)
            if e.id in ("ACK_TIMEOUTS", "TX_K") and type(v) is int and v >= 0:
                return e.id, "N"                                      # gen/GenAsh.v
            if e.id in ("T_RX_ACK_INIT", "T_RX_ACK_MIN", "T_RX_ACK_MAX") and type(v) is float:
                return e.id + "_F", "float"                           # gen/GenAsh.v
            self.refuse(e, "unknown name")
        if isinstance(e, ast.Attribute):
            if isinstance(e.value, ast.Name) and e.value.id == "self" and e.attr in TX_SELF:
                return TX_SELF[e.attr]
            if src.startswith("t.NcpResetCode.") and src.count(".") == 2:
                import bellows.types as t
                if e.attr in t.NcpResetCode.__members__:
                    return str(int(t.NcpResetCode[e.attr])), "N"
            self.refuse(e, "unknown attribute")
        if isinstance(e, ast.Call):
            if src == "time.monotonic()":
                return "now", "float"
            if isinstance(e.func, ast.Name) and e.func.id in ("min", "max") and len(e.args) == 2 and not e.keywords \
                    and vars(self.ash).get(e.func.id, _MISSING) is _MISSING:
                a, b = (self.as_float(x, env) for x in e.args)
                return f"(py_{e.func.id} {a} {b})", "float"
            self.refuse(e, "call")
        if isinstance(e, ast.BinOp):
            l, r = e.left, e.right
            if isinstance(e.op, ast.Div):
                if self.is_int_lit(l) and self.is_int_lit(r):
                    if r.value == 0:
                        self.refuse(e, "division by zero")
                    return f"(PrimFloat.div {self.flit(l.value, l)} {self.flit(r.value, r)})", "float"
                return f"(PrimFloat.div {self.as_float(l, env)} {self.as_float(r, env)})", "float"
            both_lit = self.is_int_lit(l) and self.is_int_lit(r)
            tl = "N" if self.is_int_lit(l) else self.ex(l, env)[1]
            tr_ = "N" if self.is_int_lit(r) else self.ex(r, env)[1]
            if "float" in (tl, tr_) and not both_lit:
                ops = {ast.Add: "add", ast.Sub: "sub", ast.Mult: "mul"}
                if type(e.op) not in ops:
                    self.refuse(e, "float operator")
                return f"(PrimFloat.{ops[type(e.op)]} {self.as_float(l, env)} {self.as_float(r, env)})", "float"
            if tl == "N" and tr_ == "N":
                a, b = self.ex(l, env)[0], self.ex(r, env)[0]
                if isinstance(e.op, ast.Add):
                    return f"({a} + {b})", "N"
                if isinstance(e.op, ast.Mult):
                    return f"({a} * {b})", "N"
                if isinstance(e.op, ast.Mod):
                    if not (self.is_int_lit(r) and r.value > 0):
                        self.refuse(e, "modulus is not a positive literal")
                    return f"({a} mod {b})", "N"
                if isinstance(e.op, ast.Sub):
                    # N.sub truncates at zero: only a live module constant minus a literal that stays non-negative
                    v = vars(self.ash).get(l.id, _MISSING) if isinstance(l, ast.Name) and l.id not in env else _MISSING
                    if type(v) is int and self.is_int_lit(r) and v - r.value >= 0:
                        return f"({a} - {b})", "N"
                    self.refuse(e, "integer subtraction that may go below zero")
            self.refuse(e, "operator / operand types")
        if isinstance(e, ast.Compare):
            if len(e.ops) != 1:
                self.refuse(e, "chained comparison")
            op, l, r = e.ops[0], e.left, e.comparators[0]
            if ast.unparse(l) == "self._ncp_state" and isinstance(op, (ast.Eq, ast.NotEq, ast.Is, ast.IsNot)):
                if set(self.ash.NcpState.__members__) != {"CONNECTED", "FAILED"}:
                    self.refuse(e, "NcpState has other members than CONNECTED / FAILED")
                rhs = ast.unparse(r)
                if rhs not in ("NcpState.FAILED", "NcpState.CONNECTED"):
                    self.refuse(e, "state value")
                pos = rhs.endswith("FAILED") == isinstance(op, (ast.Eq, ast.Is))
                return ("failed" if pos else "(negb failed)"), "bool"
            (a, ta), (b, tb) = self.ex(l, env), self.ex(r, env)
            if ta == "N" and tb == "N":
                t = {ast.Eq: f"({a} =? {b})", ast.NotEq: f"(negb ({a} =? {b}))", ast.Lt: f"({a} <? {b})", ast.LtE: f"({a} <=? {b})",
                     ast.Gt: f"({b} <? {a})", ast.GtE: f"({b} <=? {a})"}.get(type(op))
                if t:
                    return t, "bool"
            self.refuse(e, "comparison")
        if isinstance(e, ast.UnaryOp) and isinstance(e.op, ast.Not):
            t, ty = self.ex(e.operand, env)
            if ty == "bool":
                return f"(negb {t})", "bool"
        self.refuse(e, "expression")

    def state(self):
        return f"({TX_S})"

    # ---- statements -------------------------------------------------------------------------------------------------------
    def block(self, body, env, k):
        ind = lambda txt: textwrap.indent(txt, "  ")
        if not body:
            return k(env)
        s, rest = body[0], list(body[1:])
        go = lambda env2=env: self.block(rest, env2, k)
        if isinstance(s, ast.Pass) or (isinstance(s, ast.Expr) and isinstance(s.value, ast.Constant)):
            return go()
        src = ast.unparse(s)
        # ---- if
        if isinstance(s, ast.If):
            t = s.test
            then = lambda env2: self.block(list(s.body), env2, lambda e3: self.block(rest, e3, k))
            other = lambda env2: self.block(list(s.orelse), env2, lambda e3: self.block(rest, e3, k))
            if isinstance(t, ast.Compare) and len(t.ops) == 1 and isinstance(t.ops[0], (ast.Is, ast.IsNot)) \
                    and isinstance(t.comparators[0], ast.Constant) and t.comparators[0].value is None and isinstance(t.left, ast.Name):
                v = t.left.id
                if env.get(v) not in ("optN", "N"):
                    self.refuse(t, "`is None` on something that is not an optional integer local")
                none_b, some_b = (then, other) if isinstance(t.ops[0], ast.Is) else (other, then)
                if env[v] == "N":
                    return f"(* {v} is not None here *)\n" + some_b(env)
                return (f"match {v} with\n| None =>\n{textwrap.indent(none_b(dict(env)), '    ')}\n"
                        f"| Some {v} =>\n{textwrap.indent(some_b(dict(env, **{v: 'N'})), '    ')}\nend")
            c, ty = self.ex(t, env)
            if ty != "bool":
                self.refuse(t, "condition is not a boolean")
            return f"if {c} then\n{ind(then(dict(env)))}\nelse\n{ind(other(dict(env)))}"
        # ---- raise / break
        if isinstance(s, ast.Raise):
            if self.in_finally or self.on_raise is None or s.cause is not None:
                self.refuse(s, "raise here")
            if s.exc is None:
                if not env.get("$cur"):
                    self.refuse(s, "bare raise outside an except clause")
                return self.on_raise(env["$cur"], env)
            x = s.exc
            if isinstance(x, ast.Call) and ast.unparse(x.func) == "NcpFailure" and len(x.args) + len(x.keywords) == 1 \
                    and (x.args or x.keywords[0].arg == "code"):
                code, ty = self.ex(x.args[0] if x.args else x.keywords[0].value, env)
                if ty != "N":
                    self.refuse(s, "reset code")
                return self.on_raise(f"(XNcpFailure {code})", env)
            self.refuse(s, "raise of another exception")
        if isinstance(s, ast.Break):
            if self.in_finally or self.on_break is None:
                self.refuse(s, "break here")
            return self.on_break(env)
        # ---- assignments
        if isinstance(s, ast.Assign) and len(s.targets) == 1:
            tgt, val = s.targets[0], s.value
            if isinstance(tgt, ast.Name):
                name = tgt.id
                if name in TX_RESERVED or name.startswith("f_"):
                    self.refuse(s, "local name clashes with the translation's own names")
                if ast.unparse(val) == "asyncio.get_running_loop().create_future()":
                    return f"(* {name} = <a new future> *)\n" + go(dict(env, **{name: "future"}))
                if isinstance(val, ast.Call) and isinstance(val.func, ast.Attribute) and val.func.attr == "replace" \
                        and isinstance(val.func.value, ast.Name) and env.get(val.func.value.id) == "frame" and not val.args and self.fields:
                    kws = {kw.arg: kw.value for kw in val.keywords}
                    if None in kws or set(kws) - {f for f, _ in self.fields}:
                        self.refuse(s, "replace() keywords")
                    pat, terms = [], []
                    for f, fty in self.fields:
                        if f not in kws:
                            pat.append("f_" + f)
                            terms.append("f_" + f)
                            continue
                        pat.append("_")
                        if fty != "N":
                            self.refuse(s, f"replace() of the field {f}")
                        term, ty = self.ex(kws[f], env)
                        if ty == "bool":                       # bool is an int: True == 1 (DataFrame.to_bytes shifts it)
                            term, ty = f"(N.b2n {term})", "N"
                        if ty not in ("N", "optN", "none"):
                            self.refuse(kws[f], "value of a frame field")
                        terms.append(f"Some {term}" if ty == "N" else term)
                    return (f"let '({', '.join(pat)}) := {val.func.value.id} in   (* dataclasses.replace: other fields kept *)\n"
                            f"let {name} := ({', '.join(terms)}) in\n" + go(dict(env, **{name: "frame"})))
                term, ty = self.ex(val, env)
                if ty == "none":
                    term, ty = "@None N", "optN"
                if ty not in ("N", "optN", "float", "bool"):
                    self.refuse(s, "assigned value")
                return f"let {name} := {term} in\n" + go(dict(env, **{name: ty}))
            if isinstance(tgt, ast.Attribute) and isinstance(tgt.value, ast.Name) and tgt.value.id == "self" and tgt.attr in TX_SELF:
                var, vty = TX_SELF[tgt.attr]
                if var not in self.writable:
                    self.refuse(s, "assignment to this attribute")
                term = self.as_float(val, env) if vty == "float" else self.ex(val, env)[0]
                if vty == "N" and self.ex(val, env)[1] != "N":
                    self.refuse(s, "type of the assigned value")
                return f"let {var} := {term} in\n" + go()
            if isinstance(tgt, ast.Subscript) and ast.unparse(tgt.value) == "self._pending_data_frames" \
                    and isinstance(val, ast.Name) and env.get(val.id) == "future":
                key, ty = self.ex(tgt.slice, env)
                if ty != "N":
                    self.refuse(s, "key of the pending table may be None")
                return f"let eff := eff ++ [TRegister {key}] in\n" + go()
            self.refuse(s, "assignment")
        # ---- calls
        if isinstance(s, ast.Expr) and isinstance(s.value, ast.Call):
            c = s.value
            fn = ast.unparse(c.func)
            one = len(c.args) == 1 and not c.keywords
            if fn == "self._write_frame" and one and isinstance(c.args[0], ast.Name) and env.get(c.args[0].id) == "frame":
                return f"let eff := eff ++ [TWrite {c.args[0].id}] in\n" + go()
            if fn == "self._change_ack_timeout" and one and "t_rx_ack" in self.writable:
                return f"let t_rx_ack := py_change_ack_timeout t_rx_ack {self.as_float(c.args[0], env)} in\n" + go()
            if fn == "self._enter_failed_state" and one and {"failed", "code"} <= self.writable:
                code, ty = self.ex(c.args[0], env)
                if ty != "N":
                    self.refuse(s, "reset code")
                return (f"let '(rx_seq, tx_seq, failed, code, eff_rx) := py__enter_failed_state_k (rx_seq, tx_seq, failed, code, []) {code} in\n"
                        "let eff := eff ++ map TRx eff_rx in\n" + go())
            if fn == "self._pending_data_frames.pop" and one:
                key, ty = self.ex(c.args[0], env)
                if ty != "N":
                    self.refuse(s, "key of the pending table may be None")
                return f"let eff := eff ++ [TPop {key}] in\n" + go()
            self.refuse(s, "call with no modelled effect")
        self.refuse(s)


def gen_ash_tx_fn() -> str:
    import asyncio
    import dataclasses

    import bellows.ash as ash
    P = ash.AshProtocol
    out = [TX_PRELUDE]
    ghost = lambda removed: ("   not translated (feeds logging only): " + "; ".join(removed) + "\n") if removed else ""

    # ---- __init__: the attributes the sender starts from --------------------------------------------------------------
    init = _fn_ast(P.__dict__["__init__"])
    attrs = {}
    for s in init.body:
        if isinstance(s, (ast.Assign, ast.AnnAssign)):
            tgt = s.targets[0] if isinstance(s, ast.Assign) and len(s.targets) == 1 else getattr(s, "target", None)
            if isinstance(tgt, ast.Attribute) and isinstance(tgt.value, ast.Name) and tgt.value.id == "self" and s.value is not None:
                if tgt.attr in attrs:
                    raise GenError("AshProtocol.__init__", f"self.{tgt.attr} assigned twice")
                attrs[tgt.attr] = ast.unparse(s.value)
    want = {"_send_data_frame_semaphore": "asyncio.Semaphore(TX_K)", "_pending_data_frames": "{}"}
    for a, v in want.items():
        if attrs.get(a) != v:
            raise GenError("AshProtocol.__init__", f"self.{a} is no longer `{v}`")
    if type(ash.TX_K) is not int or ash.TX_K != 1:
        raise GenError("TX_K", "the sender model (one holder of the semaphore, one outstanding frame) needs TX_K = 1")
    tr0 = TxTr("AshProtocol.__init__ (source)", ash, ())
    ini = {}
    for a, (var, ty) in TX_SELF.items():
        if a not in attrs:
            raise GenError("AshProtocol.__init__", f"self.{a} is not initialised")
        e = ast.parse(attrs[a], mode="eval").body
        ini[var] = tr0.as_float(e, {}) if ty == "float" else tr0.ex(e, {})[0]
        if ty == "N" and tr0.ex(e, {})[1] != "N":
            raise GenError("AshProtocol.__init__", f"self.{a}: not an integer")
    if attrs.get("_ncp_state") not in ("NcpState.CONNECTED", "NcpState.FAILED") or attrs.get("_ncp_reset_code") != "None":
        raise GenError("AshProtocol.__init__", "initial _ncp_state / _ncp_reset_code")
    ini["failed"] = "true" if attrs["_ncp_state"].endswith("FAILED") else "false"
    ini["code"] = str(NONE_CODE)
    out.append("\n(* from the source of AshProtocol.__init__ (the semaphore is asyncio.Semaphore(TX_K) with TX_K = 1, the pending table {}) *)\n"
               f"Definition py_tx_init : tx_state := ({', '.join(ini[v] for v in TX_STATE)}).\n\n")

    # ---- _change_ack_timeout ---------------------------------------------------------------------------------------------
    node = _fn_ast(P.__dict__["_change_ack_timeout"])
    if [a.arg for a in node.args.args] != ["self", "new_value"] or node.args.vararg or node.args.kwarg or node.args.kwonlyargs:
        raise GenError("AshProtocol._change_ack_timeout", "parameters")
    body, removed = _tx_clean(node)
    tr = TxTr("AshProtocol._change_ack_timeout (source)", ash, {"t_rx_ack"})
    term = tr.block(body, {"new_value": "float"}, lambda env: "t_rx_ack")
    out.append("(* from the source of AshProtocol._change_ack_timeout: the new value of self._t_rx_ack\n" + ghost(removed) + "*)\n"
               "Definition py_change_ack_timeout (t_rx_ack new_value : float) : float :=\n" + textwrap.indent(term, "  ") + ".\n\n")

    # ---- send_data: the frame handed to _send_data_frame ------------------------------------------------------------------
    fields = []
    for f in dataclasses.fields(ash.DataFrame):
        ty = {"int": "N", "bool": "N", "bytes": "bytes"}.get(f.type if isinstance(f.type, str) else getattr(f.type, "__name__", "?"))
        if ty is None:
            raise GenError("DataFrame", f"field {f.name} of type {f.type}")
        fields.append((f.name, ty))
    if [t for _, t in fields] != ["N", "N", "N", "bytes"]:
        raise GenError("DataFrame", f"fields {fields}: expected three integer header fields and the payload")
    if ash.DataFrame.replace is not __import__("zigpy.types").types.BaseDataclassMixin.replace:
        raise GenError("DataFrame.replace", "is no longer zigpy's BaseDataclassMixin.replace (dataclasses.replace)")
    out.append(f"(* a DataFrame instance: ({', '.join(f for f, _ in fields)}); a header field is None until set *)\n"
               "Definition py_dataframe := (option N * option N * option N * list N)%type.\n\n")
    node = _fn_ast_async(P.__dict__["send_data"])
    if [a.arg for a in node.args.args] != ["self", "data"]:
        raise GenError("AshProtocol.send_data", "parameters")
    body, _ = _tx_clean(node)
    call = body[0].value.value if len(body) == 1 and isinstance(body[0], ast.Expr) and isinstance(body[0].value, ast.Await) else None
    path = []
    while isinstance(call, ast.Call) and len(call.args) == 1 and not call.keywords and ast.unparse(call.func) != "DataFrame":
        path.append(ast.unparse(call.func))
        call = call.args[0]
    if path != ["asyncio.shield", "create_eager_task", "self._send_data_frame"] or not isinstance(call, ast.Call) or call.args:
        raise GenError("AshProtocol.send_data", "expected `await asyncio.shield(create_eager_task(self._send_data_frame(DataFrame(..))))`")
    kws = {k.arg: k.value for k in call.keywords}
    if set(kws) != {f for f, _ in fields}:
        raise GenError("AshProtocol.send_data", f"DataFrame keywords {sorted(kws, key=str)}")
    vals = []
    for f, ty in fields:
        v = kws[f]
        if ty == "bytes":
            if not (isinstance(v, ast.Name) and v.id == "data"):
                raise GenError("AshProtocol.send_data", f"payload `{ast.unparse(v)}`")
            vals.append("data")
        elif isinstance(v, ast.Constant) and v.value is None:
            vals.append("None")
        elif TxTr.is_int_lit(v):
            vals.append(f"Some {v.value}")
        else:
            raise GenError("AshProtocol.send_data", f"header field `{f}={ast.unparse(v)}`")
    out.append("(* from the source of AshProtocol.send_data: _send_data_frame runs as its own task on this frame; the caller awaits it\n"
               "   under asyncio.shield (cancelling the caller does not cancel the send) *)\n"
               f"Definition py_send_data_arg (data : list N) : py_dataframe := ({', '.join(vals)}).\n\n")

    # ---- _send_data_frame --------------------------------------------------------------------------------------------------
    where = "AshProtocol._send_data_frame (source)"
    node = _fn_ast_async(P.__dict__["_send_data_frame"])
    if [a.arg for a in node.args.args] != ["self", "frame"] or node.args.vararg or node.args.kwarg or node.args.kwonlyargs:
        raise GenError(where, "parameters")
    body, removed = _tx_clean(node)
    bad = lambda what, n=None: GenError(where, what + (f": `{ast.unparse(n)[:100]}`" if n is not None else ""))
    if len(body) != 1 or not isinstance(body[0], ast.AsyncWith) or len(body[0].items) != 1 or body[0].items[0].optional_vars is not None \
            or ast.unparse(body[0].items[0].context_expr) != "self._send_data_frame_semaphore":
        raise bad("expected the whole body under `async with self._send_data_frame_semaphore:`")
    inner = list(body[0].body)
    if not inner or not isinstance(inner[-1], ast.Try):
        raise bad("expected local initialisations followed by try/finally under the semaphore")
    pre_loop, outer = inner[:-1], inner[-1]
    if outer.handlers or outer.orelse or not outer.finalbody or len(outer.body) != 1 or not isinstance(outer.body[0], ast.For):
        raise bad("expected `try: for ...: ... finally: ...`", outer)
    loop = outer.body[0]
    it = loop.iter
    if loop.orelse or not isinstance(loop.target, ast.Name) or not (isinstance(it, ast.Call) and ast.unparse(it.func) == "range"
                                                                    and len(it.args) == 1 and not it.keywords):
        raise bad("loop form", loop.iter)
    attempt = loop.target.id
    if not loop.body or not isinstance(loop.body[-1], ast.Try):
        raise bad("the wait for the acknowledgement (try/except around the await) must end the loop body")
    pre, wait = list(loop.body[:-1]), loop.body[-1]
    for n in pre:
        for x in ast.walk(n):
            if isinstance(x, (ast.Await, ast.AsyncWith, ast.AsyncFor, ast.Try, ast.For, ast.While, ast.With, ast.Return)):
                raise bad("suspension point / compound statement before the wait", n)
    w = wait.body[0] if len(wait.body) == 1 else None
    if wait.finalbody or not (isinstance(w, ast.AsyncWith) and len(w.items) == 1 and w.items[0].optional_vars is None
                              and isinstance(w.items[0].context_expr, ast.Call) and ast.unparse(w.items[0].context_expr.func) == "asyncio_timeout"
                              and len(w.items[0].context_expr.args) == 1 and not w.items[0].context_expr.keywords
                              and len(w.body) == 1 and isinstance(w.body[0], ast.Expr) and isinstance(w.body[0].value, ast.Await)
                              and isinstance(w.body[0].value.value, ast.Name)):
        raise bad("expected `try: async with asyncio_timeout(..): await <future>`", wait)
    timeout_expr, awaited = w.items[0].context_expr.args[0], w.body[0].value.value.id
    for n in list(wait.handlers) + list(wait.orelse) + list(outer.finalbody):
        for x in ast.walk(n):
            if isinstance(x, (ast.Await, ast.AsyncWith, ast.AsyncFor, ast.Try, ast.For, ast.While, ast.With, ast.Return)) and x is not n:
                raise bad("suspension point / compound statement after the wait", x)

    tr = TxTr(where, ash, TX_STATE, fields)
    count, cty = tr.ex(it.args[0], {})
    if cty != "N":
        raise bad("range() argument", it)

    # how control leaves: the finally clause, then the semaphore
    def leave(result):
        def run(env):
            tr.in_finally = True
            try:
                return tr.block(list(outer.finalbody), env, lambda e2: f"let eff := eff ++ [TRelease] in\n{result}")
            finally:
                tr.in_finally = False
        return run
    # locals at the loop head: the parameter and what is set before the loop (a raise there is outside the try: only the
    # semaphore is released)
    head = {}

    def grab(env):
        loc = {n: t for n, t in env.items() if not n.startswith("$")}
        if head and head != loc:
            raise bad(f"the locals at the loop head differ between paths: {head} / {loc}")
        head.update(loc)
        return "<HEAD>"
    tr.on_raise = lambda exc, env: f"let eff := eff ++ [TRelease] in\nRRaise {tr.state()} eff {exc}"
    pre_term = tr.block(pre_loop, {"frame": "frame"}, grab)
    if pre_term.count("<HEAD>") != 1:
        raise bad("the statements before the loop must reach it on exactly one path")
    tr.on_raise = lambda exc, env: leave(f"RRaise {tr.state()} eff {exc}")(env)
    tr.on_break = lambda env: leave(f"RReturn {tr.state()} eff")(env)
    carried = [(n, t) for n, t in head.items() if t != "future"]
    if any(t not in TX_COQTY for _, t in carried) or attempt in head or attempt in TX_RESERVED:
        raise bad(f"locals before the loop: {carried}")
    cargs = " ".join(n for n, _ in carried)
    cdecl = " ".join(f"({n} : {TX_COQTY[t]})" for n, t in carried)

    # ---- the segment from the loop head to the await
    at_await = []

    def suspend(env):
        if env.get(awaited) != "future":
            raise bad("the awaited name is not the future created in this attempt", wait)
        loc = [(n, t) for n, t in env.items() if not n.startswith("$") and t != "future"]
        if any(t not in TX_COQTY for _, t in loc):
            raise bad(f"locals at the await: {loc}")
        if at_await and at_await[0] != loc:
            raise bad(f"the locals at the await differ between paths: {at_await[0]} / {loc}")
        at_await[:] = [loc]
        return (f"let eff := eff ++ [TAwaitAck {tr.as_float(timeout_expr, env)}] in\n"
                f"RAwait {tr.state()} eff {' '.join(n for n, _ in loc)}")
    env_head = dict(head, **{attempt: "N"})
    begin = tr.block(pre, env_head, suspend)
    if not at_await:
        raise bad("no path reaches the await")
    loc = at_await[0]
    ldecl = " ".join(f"({n} : {TX_COQTY[t]})" for n, t in loc)

    # ---- the segment from the await to the end of the iteration
    def iter_end(env):
        vals = []
        for n, t in carried:
            have = env.get(n)
            if have == t:
                vals.append(n)
            elif (have, t) == ("N", "optN"):
                vals.append(f"(Some {n})")
            else:
                raise bad(f"type of `{n}` at the end of the iteration ({have}) differs from its type at the loop head ({t})")
        return f"RNext {tr.state()} eff {' '.join(vals)}"
    handlers = []
    for h in wait.handlers:
        if h.name is not None or h.type is None:
            raise bad("except clause form", h)
        types = h.type.elts if isinstance(h.type, ast.Tuple) else [h.type]
        classes = []
        for t_ in types:
            try:
                c = eval(compile(ast.Expression(body=t_), "<except>", "eval"), dict(vars(ash)))
            except Exception as exc:                                                         # noqa: BLE001
                raise bad(f"cannot resolve the exception class ({exc})", t_)
            if not (isinstance(c, type) and issubclass(c, BaseException)):
                raise bad("not an exception class", t_)
            classes.append(c)
        handlers.append((classes, list(h.body), h))
    outcomes = [("WNotAcked", ash.NotAcked, "XNotAcked"), ("WNcpFailure exc_code", ash.NcpFailure, "(XNcpFailure exc_code)"),
                ("WTimeout", asyncio.TimeoutError, "XTimeout")]
    used = set()
    env_res = dict(loc)
    arms = [f"| WAcked =>   (* else: *)\n{textwrap.indent(tr.block(list(wait.orelse), dict(env_res), iter_end), '    ')}"]
    for pat, cls, exc in outcomes:
        arm = None
        for i, (classes, hbody, h) in enumerate(handlers):
            if any(issubclass(cls, c) for c in classes):
                used.add(i)
                arm = (f"| {pat} =>   (* except {ast.unparse(h.type)}: *)\n"
                       f"{textwrap.indent(tr.block(hbody, dict(env_res, **{'$cur': exc}), iter_end), '    ')}")
                break
        if arm is None:
            arm = f"| {pat} =>   (* no except clause catches it *)\n{textwrap.indent(tr.on_raise(exc, dict(env_res)), '    ')}"
        arms.append(arm)
    for i, (_, _, h) in enumerate(handlers):
        if i not in used:
            raise bad("except clause that catches none of the outcomes of the wait (NotAcked / NcpFailure / TimeoutError)", h.type)
    end = "match waited with\n" + "\n".join(arms) + "\nend"
    exhausted = tr.on_break(dict(head))

    out.append("(* effects: what a segment of _send_data_frame does to other objects, in order *)\n"
               "Inductive tx_eff :=\n"
               "| TRegister (frm_num : N)       (* self._pending_data_frames[frm_num] = <the new future> *)\n"
               "| TWrite (f : py_dataframe)      (* self._write_frame(frame) (transport open) *)\n"
               "| TAwaitAck (timeout : float)   (* async with asyncio_timeout(timeout): await <the new future>  -- the segment ends here *)\n"
               "| TPop (frm_num : N)            (* self._pending_data_frames.pop(frm_num) *)\n"
               "| TRelease                      (* leaving `async with self._send_data_frame_semaphore` *)\n"
               "| TRx (e : py_eff).             (* a call made by an inlined method of gen/GenAshRxFn.v *)\n\n"
               "(* how a segment ends; the locals that live on are part of the result *)\n"
               "Inductive tx_result :=\n"
               f"| RAwait (s : tx_state) (eff : list tx_eff) {ldecl}    (* suspended in the await *)\n"
               f"| RNext (s : tx_state) (eff : list tx_eff) {cdecl}    (* the loop body ran to its end *)\n"
               "| RReturn (s : tx_state) (eff : list tx_eff)              (* the coroutine returned *)\n"
               "| RRaise (s : tx_state) (eff : list tx_eff) (e : tx_exc).  (* the coroutine raised *)\n\n")
    out.append(f"(* from the source of AshProtocol._send_data_frame.  time.monotonic() is `now` (one value per segment: no time passes\n"
               "   between two suspension points); a raise / break runs the finally clause and releases the semaphore.\n" + ghost(removed) +
               f"   `for {attempt} in range({ast.unparse(it.args[0])})`: *)\n"
               f"Definition py_send_first_attempt : option N := if 0 <? {count} then Some 0 else None.\n"
               f"Definition py_send_next_attempt ({attempt} : N) : option N := if {attempt} + 1 <? {count} then Some ({attempt} + 1) else None.\n\n"
               "(* the loop ran out of attempts without break / raise: finally clause, semaphore, return *)\n"
               f"Definition py_send_loop_exhausted (s : tx_state) (eff : list tx_eff) {cdecl} : tx_result :=\n"
               f"  let '({TX_S}) := s in\n{textwrap.indent(exhausted, '  ')}.\n\n"
               "(* one iteration, from the loop head to the await *)\n"
               f"Definition py_send_attempt_begin (s : tx_state) (eff : list tx_eff) {cdecl} ({attempt} : N) (now : float) : tx_result :=\n"
               f"  let '({TX_S}) := s in\n{textwrap.indent(begin, '  ')}.\n\n"
               "(* the same iteration from the resumption of the await (s: the attributes as they are then) to its end *)\n"
               f"Definition py_send_attempt_end (s : tx_state) {ldecl} (now : float) (waited : tx_waited) : tx_result :=\n"
               f"  let '({TX_S}) := s in\n  let eff := @nil tx_eff in\n{textwrap.indent(end, '  ')}.\n\n")
    first = (f"match py_send_first_attempt with\n| Some {attempt} => py_send_attempt_begin {tr.state()} eff {cargs} {attempt} now\n"
             f"| None => py_send_loop_exhausted {tr.state()} eff {cargs}\nend")
    out.append("(* from the grant of the semaphore to the first await *)\n"
               "Definition py_send_enter (s : tx_state) (frame : py_dataframe) (now : float) : tx_result :=\n"
               f"  let '({TX_S}) := s in\n  let eff := @nil tx_eff in\n{textwrap.indent(pre_term.replace('<HEAD>', first), '  ')}.\n\n"
               "(* from the resumption of the await to the next suspension point or the end of the coroutine: the rest of this\n"
               "   iteration and, when the loop goes on, the next one up to its await *)\n"
               f"Definition py_send_resume (s : tx_state) {ldecl} (now : float) (waited : tx_waited) : tx_result :=\n"
               f"  match py_send_attempt_end s {' '.join(n for n, _ in loc)} now waited with\n"
               f"  | RNext s eff {cargs} =>\n"
               f"      match py_send_next_attempt {attempt} with\n"
               f"      | Some {attempt} => py_send_attempt_begin s eff {cargs} {attempt} now\n"
               f"      | None => py_send_loop_exhausted s eff {cargs}\n      end\n"
               "  | r => r\n  end.\n")
    return "".join(out)




# ==================================================================================================
# ControllerApplication.send_packet (bellows/zigbee/application.py), C12: the coroutine from the concurrency limiter
# on, in continuation style.  Every suspension point resumes as an outcome parameter says (ol: the limiter; otop: awaits
# outside the retry loop; o <attempt>: the awaits of one loop iteration; oc: the wait for the confirmation); `with` /
# `async with` scopes are a stack of exit effects appended on EVERY way out (normal end, break, return, raise, an
# exception thrown in at an await); the retry loop is one emitted body function folded by py_for_else (Python's
# for / else: the else clause runs iff the items were exhausted without `break`).
# ==================================================================================================
SP_PRELUDE = """(* GENERATED by harness/pysrc.py from the SOURCE TEXT of ControllerApplication.send_packet
   (bellows/zigbee/application.py) -- do not edit *)
From Coq Require Import String ZArith NArith List Bool.
Import ListNotations.
Require Import BV.gen.GenApp BV.gen.GenStatus BV.model.Status.
Open Scope N_scope.

(* ---- fixed vocabulary (not derived from the source) ---------------------------------------------------------------
   what the code after the limiter reads of its inputs: packet.dst.addr_mode, packet.dst.address, the truth value of
   packet.extended_timeout, `device is not None`, `packet.source_route is not None` *)
Record sp_packet := { p_addr_mode : N; p_dst_address : N; p_extended_timeout : bool; p_device_known : bool;
                      p_has_source_route : bool }.
Inductive sp_exc :=
| XDeliveryError        (* zigpy.exceptions.DeliveryError *)
| XTimeoutError         (* raised by asyncio_timeout when its deadline passes *)
| XDuplicate            (* Requests.new: the key is already registered *)
| XUnboundLocal         (* a local read before any assignment *)
| XThrown.              (* whatever is thrown into the coroutine at an await: CancelledError, an error of the awaited command *)
Inductive sp_res := SpReturn | SpRaise (e : sp_exc).
(* effects, in program order *)
Inductive sp_eff :=
| ELimiterAcquire | ELimiterRelease            (* async with self._limit_concurrency(..): entered / left *)
| EGetSequence                                 (* self.get_sequence() *)
| EPendingNew (key : N * N)                    (* self._pending.new(key): entry registered *)
| EPendingRemove (key : N * N)                 (* the `with` block of that entry is left: entry removed *)
| ELockAcquire | ELockRelease                  (* async with self._req_lock: entered / left *)
| ECmd (name : string) (args : list (string * N))   (* await self._ezsp.<name>(..) issued (keyword arguments that are
                                                  the destination address or the message tag are kept) *)
| ESleep (delay : N * N)                       (* await asyncio.sleep(delay), seconds as (numerator, denominator) *)
| EAwaitConfirm (key : N * N) (timeout : N).   (* async with asyncio_timeout(timeout): .. = await <entry>.result *)
(* how a suspension point resumes *)
Inductive sp_aw := AwOk | AwThrow.
Inductive sp_sent := SentStatus (status : N) | SentThrow.
Inductive sp_conf := ConfResult (send_status : N) | ConfTimeout | ConfThrow.
(* the suspension points of one loop iteration (commands by name: a name is awaited at most once per iteration, checked) *)
Record sp_attempt := { o_lock : sp_aw; o_cmd : string -> sp_aw; o_send : sp_sent; o_sleep : sp_aw }.

Definition sp_mem_N (x : N) (l : list N) : bool := existsb (N.eqb x) l.
(* t.sl_Status.from_ember_status: model/Status.v mirrors it (pinned by its AST in gen.py); fam is the enum the argument
   belongs to *)
Definition py_from_ember_status (fam : family) (status : N) : N := normalise fam status.

(* Python's for / else over a list, the body returning how it ended *)
Inductive sp_flow :=
| FNext (status : option N) (eff : list sp_eff)       (* end of the body / continue *)
| FBreak (status : option N) (eff : list sp_eff)
| FExit (r : sp_res) (eff : list sp_eff).             (* return / raise, scopes inside the body already left *)
Inductive sp_loop :=
| LElse (status : option N) (eff : list sp_eff)       (* items exhausted *)
| LBroke (status : option N) (eff : list sp_eff)
| LExit (r : sp_res) (eff : list sp_eff).
Fixpoint py_for_else {X : Type} (body : X -> option N -> list sp_eff -> sp_flow) (items : list X)
    (status : option N) (eff : list sp_eff) : sp_loop :=
  match items with
  | [] => LElse status eff
  | x :: items' =>
      match body x status eff with
      | FNext status eff => py_for_else body items' status eff
      | FBreak status eff => LBroke status eff
      | FExit r eff => LExit r eff
      end
  end.
Fixpoint py_enumerate_from {X : Type} (k : N) (l : list X) : list (N * X) :=
  match l with [] => [] | x :: l' => (k, x) :: py_enumerate_from (k + 1) l' end.
Definition py_enumerate {X : Type} (l : list X) : list (N * X) := py_enumerate_from 0 l.

"""


class SpTr:
    PACKET_INTS = {"packet.dst.addr_mode": "p_addr_mode p", "packet.dst.address": "p_dst_address p"}
    PACKET_BOOLS = {"packet.extended_timeout": "p_extended_timeout p"}
    NOT_NONE = {"device": "p_device_known p", "packet.source_route": "p_has_source_route p"}
    LIMITER = "self._limit_concurrency(priority=packet.priority)"

    def __init__(self, where, ns):
        import bellows.types as bt
        import zigpy.exceptions
        import zigpy.types as zt
        self.where, self.ns = where, ns
        self.bt, self.zt, self.zexc = bt, zt, zigpy.exceptions
        self.defs = []            # definitions emitted before the main function (the loop body)
        self.busy = None          # the tuple of the membership test on the enqueue status: [(member name, value)]
        self.skipped = []         # what was left out, listed in the emitted comment
        self.seen_seq = self.seen_pending = self.seen_loop = self.seen_confirm = False

    def refuse(self, node, why="unsupported construct"):
        src = ast.unparse(node) if isinstance(node, ast.AST) else str(node)
        raise GenError(self.where, f"{why}: `{src[:110]}`")

    def skip(self, what):
        if what not in self.skipped:
            self.skipped.append(what)

    # ---- leaving ------------------------------------------------------------------------------------
    @staticmethod
    def unwind(hs):
        return "".join(f"let eff := eff ++ [{h}] in\n" for h in reversed(hs))

    def leave(self, res, hs, env):
        return self.unwind(hs) + (f"FExit {res} eff" if env["loop"] else f"(eff, {res})")

    # ---- expressions --------------------------------------------------------------------------------
    def member(self, e):
        """(enum class, name, value) of a dotted name that is a member of an integer enum of the live modules"""
        if not isinstance(e, ast.Attribute):
            return None
        obj = _resolve(self.ns, e)
        if obj is _MISSING or not isinstance(obj, __import__("enum").Enum):
            return None
        try:
            return type(obj), obj.name, int(obj)
        except (TypeError, ValueError):
            return None

    def ex_int(self, e, env, want_enum=None):
        src = ast.unparse(e)
        if isinstance(e, ast.Constant) and isinstance(e.value, int) and not isinstance(e.value, bool) and e.value >= 0:
            return str(e.value)
        if isinstance(e, ast.Name):
            if e.id == "status":
                if not env["sv"]:
                    raise GenError(self.where, "internal: status read without the unbound-local test")
                return "status_v"
            if e.id in env["ints"]:
                return e.id
            self.refuse(e, "unknown integer variable")
        if src in self.PACKET_INTS:
            return self.PACKET_INTS[src]
        if src == "len(RETRY_DELAYS)" and isinstance(self.ns.get("RETRY_DELAYS"), list):
            return "N.of_nat (List.length RETRY_DELAYS)"
        m = self.member(e)
        if m is not None and m[2] >= 0:
            return f"{m[2]} (* {_cmt(src)} *)"
        if isinstance(e, ast.Call) and len(e.args) == 1 and not e.keywords and isinstance(e.args[0], ast.Name) \
                and e.args[0].id in env["confirmed"] \
                and getattr(_resolve(self.ns, e.func), "__func__", None) is self.bt.sl_Status.from_ember_status.__func__:
            return f"py_from_ember_status fam {e.args[0].id}"
        self.refuse(e, "integer expression")

    def is_intlike(self, e, env):
        try:
            self.ex_int(e, dict(env, sv=True))
            return True
        except GenError:
            return False

    def cond(self, t, env):
        src = ast.unparse(t)
        if isinstance(t, ast.UnaryOp) and isinstance(t.op, ast.Not):
            return f"negb ({self.cond(t.operand, env)})"
        if isinstance(t, ast.BoolOp):
            op = " && " if isinstance(t.op, ast.And) else " || "
            return "(" + op.join(f"({self.cond(v, env)})" for v in t.values) + ")"
        if src in self.PACKET_BOOLS:
            return self.PACKET_BOOLS[src]
        if isinstance(t, ast.Compare) and len(t.ops) == 1:
            a, op, b = t.left, t.ops[0], t.comparators[0]
            if isinstance(op, (ast.Is, ast.IsNot)) and isinstance(b, ast.Constant) and b.value is None:
                k = ast.unparse(a)
                if k not in self.NOT_NONE:
                    self.refuse(t, "test against None")
                return self.NOT_NONE[k] if isinstance(op, ast.IsNot) else f"negb ({self.NOT_NONE[k]})"
            if isinstance(op, (ast.In, ast.NotIn)):
                if not (isinstance(a, ast.Name) and a.id == "status" and isinstance(b, (ast.Tuple, ast.List, ast.Set))):
                    self.refuse(t, "membership test")
                ms = [self.member(x) for x in b.elts]
                if not ms or any(m is None or m[0] is not self.bt.sl_Status for m in ms):
                    self.refuse(t, "membership in something other than a tuple of sl_Status members")
                busy = [(m[1], m[2]) for m in ms]
                if self.busy is not None and self.busy != busy:
                    self.refuse(t, "a second, different status tuple")
                self.busy = busy
                c = f"sp_mem_N {self.ex_int(a, env)} (map snd py_busy_statuses)"
                return c if isinstance(op, ast.In) else f"negb ({c})"
            ops = {ast.Eq: ("{a} =? {b}", False), ast.NotEq: ("{a} =? {b}", True), ast.Lt: ("{a} <? {b}", False),
                   ast.LtE: ("{a} <=? {b}", False), ast.Gt: ("{b} <? {a}", False), ast.GtE: ("{b} <=? {a}", False)}
            if type(op) in ops:
                fmt, neg = ops[type(op)]
                c = fmt.format(a=f"({self.ex_int(a, env)})", b=f"({self.ex_int(b, env)})")
                return f"negb ({c})" if neg else c
        self.refuse(t, "condition")

    @staticmethod
    def reads_status(t):
        return any(isinstance(n, ast.Name) and n.id == "status" and isinstance(n.ctx, ast.Load) for n in ast.walk(t))

    # ---- awaits -------------------------------------------------------------------------------------
    def ezsp_call(self, call, env):
        """await self._ezsp.<name>(keyword arguments) -> (name, Gallina list of the kept arguments)"""
        if not (isinstance(call, ast.Call) and isinstance(call.func, ast.Attribute) and ast.unparse(call.func.value) == "self._ezsp"
                and not call.args and all(k.arg for k in call.keywords)):
            self.refuse(call, "awaited call")
        name = call.func.attr
        if name in env["awaited"]:
            self.refuse(call, "the same command awaited twice on one path of an iteration")
        kept = []
        for k in call.keywords:
            if self.is_intlike(k.value, env) and not self.reads_status(k.value):
                kept.append(f'("{k.arg}"%string, {self.ex_int(k.value, env)})')
            else:
                self.skip(f"{name}({k.arg}={_cmt(ast.unparse(k.value))})")
        return name, "[" + "; ".join(kept) + "]"

    # ---- statements ---------------------------------------------------------------------------------
    def stmts(self, body, hs, env):
        ind = lambda txt, k=2: textwrap.indent(txt, " " * k)
        O = f"(o {env['loop']['attempt']})" if env["loop"] else "otop"
        if not body:
            if hs:
                raise GenError(self.where, "internal: scope stack not empty at the end of a block")
            return "FNext status eff" if env["loop"] else "(eff, SpReturn)"
        s, rest = body[0], body[1:]
        go = lambda env2=None: self.stmts(rest, hs, env2 or env)
        if isinstance(s, _Pop):
            return f"let eff := eff ++ [{hs[-1]}] in\n" + self.stmts(rest, hs[:-1], env)
        if isinstance(s, ast.Pass):
            return go()
        # ---- ways out
        if isinstance(s, ast.Return):
            if s.value is not None:
                self.refuse(s, "return value")
            return self.leave("SpReturn", hs, env)
        if isinstance(s, ast.Raise):
            c = s.exc
            cls = _resolve(self.ns, c.func) if isinstance(c, ast.Call) else _MISSING
            if s.cause is not None or cls is not self.zexc.DeliveryError:
                self.refuse(s, "raise")
            self.skip("arguments of DeliveryError(..)")
            return self.leave("(SpRaise XDeliveryError)", hs, env)
        if isinstance(s, ast.Break):
            if not env["loop"]:
                self.refuse(s, "break outside the loop")
            return self.unwind(hs) + "FBreak status eff"
        if isinstance(s, ast.Continue):
            if not env["loop"]:
                self.refuse(s, "continue outside the loop")
            return self.unwind(hs) + "FNext status eff"
        # ---- if
        if isinstance(s, ast.If):
            if self.reads_status(s.test) and not env["sv"]:
                inner = self.stmts(body, hs, dict(env, sv=True))
                return (f"match status with\n| None =>   (* UnboundLocalError *)\n{ind(self.leave('(SpRaise XUnboundLocal)', hs, env), 4)}\n"
                        f"| Some status_v =>\n{ind(inner, 4)}\nend")
            a = self.stmts(list(s.body) + rest, hs, env)
            b = self.stmts(list(s.orelse) + rest, hs, env)
            return f"if {self.cond(s.test, env)} then\n{ind(a)}\nelse\n{ind(b)}"
        # ---- scopes
        if isinstance(s, ast.AsyncWith) and len(s.items) == 1 and s.items[0].optional_vars is None:
            ce = s.items[0].context_expr
            src = ast.unparse(ce)
            if src == self.LIMITER and not env["loop"] and "ELimiterRelease" not in hs:
                inner = self.stmts(list(s.body) + [_Pop()] + rest, hs + ("ELimiterRelease",), env)
                return (f"match ol with\n| AwThrow =>\n{ind(self.leave('(SpRaise XThrown)', hs, env), 4)}\n| AwOk =>\n"
                        f"{ind('let eff := eff ++ [ELimiterAcquire] in' + chr(10) + inner, 4)}\nend")
            if src == "self._req_lock":
                if "ELockRelease" in hs or env["locked"]:
                    self.refuse(s, "the request lock taken while it is held (asyncio.Lock is not re-entrant)")
                inner = self.stmts(list(s.body) + [_Pop()] + rest, hs + ("ELockRelease",), env)
                return (f"match o_lock {O} with\n| AwThrow =>\n{ind(self.leave('(SpRaise XThrown)', hs, env), 4)}\n| AwOk =>\n"
                        f"{ind('let eff := eff ++ [ELockAcquire] in' + chr(10) + inner, 4)}\nend")
            if isinstance(ce, ast.Call) and ast.unparse(ce.func) == "asyncio_timeout" and len(ce.args) == 1 and not ce.keywords:
                if env["loop"] or self.seen_confirm:
                    self.refuse(s, "timeout block inside the loop / a second one")
                a0 = ce.args[0]
                if not (isinstance(a0, ast.Name) and a0.id == "APS_ACK_TIMEOUT" and isinstance(self.ns.get("APS_ACK_TIMEOUT"), int)):
                    self.refuse(s, "timeout value (expected the module constant APS_ACK_TIMEOUT)")
                if len(s.body) != 1 or env["req"] is None:
                    self.refuse(s, "body of the timeout block")
                w = s.body[0]
                ok = isinstance(w, ast.Assign) and len(w.targets) == 1 and isinstance(w.value, ast.Await) \
                    and ast.unparse(w.value.value) == f"{env['req'][0]}.result"
                names = PhTr._names(w.targets[0], 2) if ok else None
                if names is None or names[0] in ("status", "_") or names[0] in env["ints"]:
                    self.refuse(s, "body of the timeout block (expected `<status>, _ = await <entry>.result`)")
                self.seen_confirm = True
                env2 = dict(env, confirmed=env["confirmed"] + [names[0]])
                return (f"let eff := eff ++ [EAwaitConfirm {env['req'][1]} APS_ACK_TIMEOUT] in\nmatch oc with\n"
                        f"| ConfThrow =>\n{ind(self.leave('(SpRaise XThrown)', hs, env), 4)}\n"
                        f"| ConfTimeout =>\n{ind(self.leave('(SpRaise XTimeoutError)', hs, env), 4)}\n"
                        f"| ConfResult {names[0]} =>\n{ind(self.stmts(rest, hs, env2), 4)}\nend")
        if isinstance(s, ast.With) and len(s.items) == 1:
            ce, var = s.items[0].context_expr, s.items[0].optional_vars
            if isinstance(ce, ast.Call) and ast.unparse(ce.func) == "self._pending.new" and len(ce.args) == 1 and not ce.keywords \
                    and isinstance(ce.args[0], ast.Name) and ce.args[0].id in env["pairs"] and isinstance(var, ast.Name) \
                    and not env["loop"] and env["req"] is None:
                key = ce.args[0].id
                self.seen_pending = True
                inner = self.stmts(list(s.body) + [_Pop()] + rest, hs + (f"EPendingRemove {key}",), dict(env, req=(var.id, key)))
                return (f"if pending_has {key} then   (* Requests.new raises: the key is registered already *)\n"
                        f"{ind(self.leave('(SpRaise XDuplicate)', hs, env))}\nelse\n"
                        f"{ind(f'let eff := eff ++ [EPendingNew {key}] in' + chr(10) + inner)}")
        # ---- the retry loop
        if isinstance(s, ast.For):
            names = PhTr._names(s.target, 2)
            if env["loop"] or self.seen_loop or names is None or ast.unparse(s.iter) != "enumerate(RETRY_DELAYS)" \
                    or not isinstance(self.ns.get("RETRY_DELAYS"), list) or any(n in env["ints"] + env["pairs"] + ["status", "p", "o"] for n in names):
                self.refuse(s, "loop header (expected one `for <i>, <delay> in enumerate(RETRY_DELAYS)`)")
            self.seen_loop = True
            params = [("p", "sp_packet")] + [(n, "N") for n in env["ints"]] + [(n, "N * N") for n in env["pairs"]]
            benv = dict(env, loop={"attempt": names[0], "delay": names[1]}, ints=env["ints"] + [names[0]], pairs=env["pairs"] + [names[1]],
                        awaited=frozenset(), sent=False, sv=False, locked=env["locked"] or "ELockRelease" in hs, req=None)
            bterm = self.stmts(list(s.body), (), benv)
            self.defs.append(
                "(* the body of `for " + _cmt(ast.unparse(s.target)) + " in " + _cmt(ast.unparse(s.iter)) + "`: one attempt *)\n"
                "Definition py_send_attempt " + " ".join(f"({n} : {t})" for n, t in params)
                + " (o : N -> sp_attempt)\n    (item : N * (N * N)) (status : option N) (eff : list sp_eff) : sp_flow :=\n"
                + f"  let '({names[0]}, {names[1]}) := item in\n" + ind(bterm) + ".\n\n")
            call = "py_for_else (py_send_attempt " + " ".join(n for n, _ in params) + " o) (py_enumerate RETRY_DELAYS) status eff"
            env_after = dict(env, sv=False)
            return (f"match {call} with\n| LExit r eff =>\n{ind(self.unwind(hs) + '(eff, r)', 4)}\n"
                    f"| LElse status eff =>   (* the else clause of the loop *)\n{ind(self.stmts(list(s.orelse) + rest, hs, env_after), 4)}\n"
                    f"| LBroke status eff =>\n{ind(self.stmts(rest, hs, env_after), 4)}\nend")
        # ---- assignments
        if isinstance(s, ast.Assign) and len(s.targets) == 1:
            tgt, val = s.targets[0], s.value
            v = ast.unparse(val)
            if isinstance(tgt, ast.Name) and v == "self.get_sequence()" and not env["loop"] and not self.seen_seq \
                    and tgt.id not in env["ints"] + env["pairs"] + ["status", "p", "o"]:
                self.seen_seq = True
                return (f"let eff := eff ++ [EGetSequence] in\nlet {tgt.id} := next_sequence in\n"
                        + go(dict(env, ints=env["ints"] + [tgt.id])))
            if isinstance(tgt, ast.Name) and isinstance(val, ast.Tuple) and len(val.elts) == 2 and not env["loop"] \
                    and tgt.id not in env["ints"] + env["pairs"] + ["status", "p", "o"]:
                a, b = (self.ex_int(x, env) for x in val.elts)
                return f"let {tgt.id} := ({a}, {b}) in\n" + go(dict(env, pairs=env["pairs"] + [tgt.id]))
            names = PhTr._names(tgt, 2)
            if names == ["status", "_"] and isinstance(val, ast.Await):
                if env["sent"]:
                    self.refuse(s, "a second status-returning command on one path of an iteration")
                name, args = self.ezsp_call(val.value, env)
                env2 = dict(env, awaited=env["awaited"] | {name}, sent=True, sv=True)
                return (f'let eff := eff ++ [ECmd "{name}"%string {args}] in\nmatch o_send {O} with\n'
                        f"| SentThrow =>\n{ind(self.leave('(SpRaise XThrown)', hs, env), 4)}\n"
                        f"| SentStatus status_v =>\n{ind('let status := Some status_v in' + chr(10) + go(env2), 4)}\nend")
        # ---- awaits as statements
        if isinstance(s, ast.Expr) and isinstance(s.value, ast.Await):
            c = s.value.value
            if isinstance(c, ast.Call) and ast.unparse(c.func) == "asyncio.sleep" and len(c.args) == 1 and not c.keywords \
                    and isinstance(c.args[0], ast.Name) and c.args[0].id in env["pairs"] and _resolve(self.ns, c.func) is __import__("asyncio").sleep:
                return (f"let eff := eff ++ [ESleep {c.args[0].id}] in\nmatch o_sleep {O} with\n"
                        f"| AwThrow =>\n{ind(self.leave('(SpRaise XThrown)', hs, env), 4)}\n| AwOk =>\n{ind(go(), 4)}\nend")
            name, args = self.ezsp_call(c, env)
            env2 = dict(env, awaited=env["awaited"] | {name})
            return (f'let eff := eff ++ [ECmd "{name}"%string {args}] in\nmatch o_cmd {O} "{name}"%string with\n'
                    f"| AwThrow =>\n{ind(self.leave('(SpRaise XThrown)', hs, env), 4)}\n| AwOk =>\n{ind(go(env2), 4)}\nend")
        self.refuse(s)


def gen_sendpacket_fn() -> str:
    import asyncio
    import bellows.types as bt
    import bellows.zigbee.application as A
    import zigpy.types as zt
    C = A.ControllerApplication
    ns = vars(A)
    where = "ControllerApplication.send_packet (source)"
    node = _fn_ast_async(C.__dict__["send_packet"])
    if [a.arg for a in node.args.args] != ["self", "packet"] or node.args.vararg or node.args.kwarg or node.args.kwonlyargs:
        raise GenError(where, "signature is not (self, packet)")
    body = list(_StripLogs().visit(node).body)
    # the two objects the scopes are about
    init_src = inspect.getsource(C.__init__)
    for need in ("self._pending = zigpy.util.Requests()", "self._req_lock = asyncio.Lock()"):
        if need not in init_src:
            raise GenError("ControllerApplication.__init__", f"`{need}` not found")
    if ns.get("asyncio") is not asyncio:
        raise GenError(where, "`asyncio` is not the asyncio module")
    # ---- the part before the limiter: not translated; it must not touch what the property speaks of -----------------
    cut = [i for i, s in enumerate(body) if isinstance(s, ast.AsyncWith) and len(s.items) == 1
           and ast.unparse(s.items[0].context_expr) == SpTr.LIMITER]
    if len(cut) != 1 or cut[0] != len(body) - 1:
        raise GenError(where, f"expected `async with {SpTr.LIMITER}:` as the last statement of the function")
    pre = body[:cut[0]]
    for s in pre:
        for n in ast.walk(s):
            if isinstance(n, (ast.Await, ast.AsyncWith, ast.AsyncFor, ast.Yield, ast.YieldFrom, ast.Return, ast.With)):
                raise GenError(where, f"suspension point / scope / return before the limiter: `{ast.unparse(s)[:100]}`")
            if isinstance(n, ast.Attribute) and ast.unparse(n) in ("self._pending", "self._req_lock", "self.get_sequence", "self._ezsp",
                                                                    "self._limit_concurrency"):
                raise GenError(where, f"`{ast.unparse(n)}` used before the limiter: `{ast.unparse(s)[:100]}`")
    # inside the limiter the inputs are not re-bound (so they are the same on every attempt)
    for n in ast.walk(body[cut[0]]):
        if isinstance(n, ast.Name) and isinstance(n.ctx, (ast.Store, ast.Del)) and n.id in ("packet", "device", "self"):
            raise GenError(where, f"`{n.id}` is assigned inside the limiter block")
        if isinstance(n, (ast.Lambda, ast.FunctionDef, ast.AsyncFunctionDef, ast.NamedExpr, ast.Try, ast.While, ast.Global, ast.Nonlocal)):
            raise GenError(where, f"unsupported construct inside the limiter block: `{ast.unparse(n)[:100]}`")
    tr = SpTr(where, ns)
    env = {"loop": None, "sv": False, "awaited": frozenset(), "sent": False, "req": None, "ints": [], "pairs": [], "confirmed": [],
           "locked": False}
    term = tr.stmts([body[cut[0]]], (), env)
    for flag, what in ((tr.seen_seq, "self.get_sequence()"), (tr.seen_pending, "with self._pending.new(..)"),
                       (tr.seen_loop, "the retry loop"), (tr.seen_confirm, "the wait for the confirmation")):
        if not flag:
            raise GenError(where, f"{what} not found")
    if tr.busy is None:
        raise GenError(where, "no membership test of the enqueue status in a tuple of sl_Status members")
    modes = "".join(f"Definition AddrMode_{m.name} : N := {int(m)}.\n" for m in zt.AddrMode)
    out = [SP_PRELUDE,
           "(* zigpy.types.AddrMode, from the live module *)\n" + modes + "\n",
           "(* the tuple of the test `status [not] in (..)`: members named by the AST, values from the live bellows.types.sl_Status *)\n"
           "Definition py_busy_statuses : list (string * N) :=\n  [" + "; ".join(f'("{n}"%string, {v})' for n, v in tr.busy) + "].\n\n",
           "(* NOT translated: the statements before the limiter (they contain no suspension point, no `with`, no return and do not\n"
           "   mention self._pending / self._req_lock / self.get_sequence / self._ezsp -- checked):\n"
           + "".join("     " + _cmt(ast.unparse(s).split("\n")[0][:110]) + "\n" for s in pre)
           + "   and: log calls; " + "; ".join(tr.skipped) + " *)\n\n"]
    out += tr.defs
    out.append("(* from the source of ControllerApplication.send_packet, from `async with " + _cmt(SpTr.LIMITER) + "` on.\n"
               "   fam: the enum the status delivered by the confirmation belongs to; next_sequence: what self.get_sequence() returns;\n"
               "   pending_has k: k in self._pending at the call of new; ol / otop / o i / oc: how the limiter, the awaits outside the loop,\n"
               "   the awaits of iteration i and the wait for the confirmation resume.  Result: the effects in order, how the call ends *)\n"
               "Definition py_send_packet (fam : family) (p : sp_packet) (next_sequence : N) (pending_has : N * N -> bool)\n"
               "    (ol : sp_aw) (otop : sp_attempt) (o : N -> sp_attempt) (oc : sp_conf) : list sp_eff * sp_res :=\n"
               "  let eff := @nil sp_eff in\n  let status := @None N in\n" + textwrap.indent(term, "  ") + ".\n")
    return "".join(out)




# ==================================================================================================
# Gateway, the ASYNCHRONOUS half (bellows/uart.py): reset, wait_for_startup_reset, send_data and the done-callback
# _reset_cleanup; AshProtocol._write_frame / send_reset (bellows/ash.py).  Every coroutine is cut at its awaits into
# segment functions over the joint control state GwTr uses: `<name>_begin` runs from the call to the first suspension (or
# to the end), `<name>_resume_<k>` from the k-th await (source order) to the next suspension (or to the end); how the
# coroutine is woken (the awaited future is done | the timeout of the enclosing `async with asyncio_timeout(..)` expired |
# the task was cancelled) is the argument `w`.  try/finally and the timeout context are resolved structurally: every way
# out of a block (normal, return, exception) runs the finally body; an exception leaving the timeout block goes through
# `timeout_exit`.
# ==================================================================================================
GA_STATE = list(GW_STATE)
GA_ST = "(" + ", ".join(GA_STATE) + ")"
GA_FUTNAME = {"_reset_future": "FutReset", "_startup_reset_future": "FutStartup"}
GA_CREATE = ("asyncio.get_event_loop().create_future()", "asyncio.get_running_loop().create_future()")
GA_OWNER = {"_reset_future": "reset", "_startup_reset_future": "wait_for_startup_reset"}

GA_PRELUDE = """(* GENERATED by harness/pysrc.py from the SOURCE TEXT of the coroutines of Gateway (bellows/uart.py: reset,
   wait_for_startup_reset, send_data; the done-callback _reset_cleanup) and of AshProtocol._write_frame / send_reset
   (bellows/ash.py) -- do not edit *)
From Coq Require Import NArith List Bool.
Import ListNotations.
Require Import BV.gen.GenAsh BV.gen.GenAshFn BV.model.AshCodec BV.model.Gateway.
Open Scope N_scope.

(* ---- fixed vocabulary: asyncio's contract, NOT derived from the source ------------------------------------------------
   A coroutine runs from one suspension point to the next without interleaving.  `await f` on a future that is done
   does not suspend; on a pending future the coroutine is suspended until asyncio wakes it: because the future became
   done (WkFuture), because the timeout of the enclosing `async with asyncio_timeout(..)` expired (WkTimeout) or because
   the task was cancelled (WkCancel).  In the last two cases asyncio has cancelled the awaited future if it was still
   pending ([fut_cancel]) and throws CancelledError in at the await; the timeout context turns the CancelledError of its
   own expiry into TimeoutError on the way out ([timeout_exit]) and lets everything else pass.  When a future becomes
   done its callbacks run in registration order, those added with add_done_callback before the wake-ups of the tasks
   that await it. *)
Inductive gwa_fut := FutReset | FutStartup.
Inductive gwa_exc :=
| EXNcpFailure      (* bellows.exception.NcpFailure raised by _write_frame: the transport is closed *)
| EXAssertion       (* a failed assert *)
| EXFuture          (* the exception that was set on the awaited future (connection_lost: the connection error) *)
| EXTimeout         (* TimeoutError raised by the timeout context *)
| EXCancelled       (* asyncio.CancelledError *)
| EXOther.          (* raised by a callee that the translated source of the callee never raises *)
Inductive gwa_status :=
| ASuspend (point : nat) (f : gwa_fut) (timeout : option N)   (* suspended at await #point on f [under a timeout] *)
| AReturn
| ARaise (e : gwa_exc).
Inductive gwa_wake := WkFuture | WkTimeout | WkCancel.
Inductive gwa_await := AwPending | AwValue | AwRaise (e : gwa_exc).
Definition await_result (f : fstate) (w : gwa_wake) : gwa_await :=
  match w with
  | WkFuture => match f with
                | FOk => AwValue | FExn => AwRaise EXFuture | FCancelled => AwRaise EXCancelled
                | FPend | FNone => AwPending
                end
  | WkTimeout | WkCancel => AwRaise EXCancelled
  end.
Definition timeout_exit (w : gwa_wake) (e : gwa_exc) : gwa_exc :=
  match w, e with WkTimeout, EXCancelled => EXTimeout | _, _ => e end.
Definition fut_cancel (f : fstate) : fstate := match f with FPend => FCancelled | _ => f end.

Inductive gwa_write := WfWritten (data : list N) | WfNcpFailure | WfRaised.
Inductive gwa_delegate := DReturn | DRaise (e : gwa_exc).     (* how an awaited coroutine of another object ended *)
Inductive gwa_eff :=
| PSendReset (data : list N)       (* self._transport.send_reset(): the bytes AshProtocol.send_reset wrote *)
| PAshSendData (data : list N).    (* await self._transport.send_data(data) *)
(* state, as in gen/GenGatewayFn.v: (_reset_future is not None, its future; _startup_reset_future is not None, its
   future; transport open; _ezsp_event set; _gw is not None; an application callback is registered; effects so far).
   The future a suspended coroutine holds is the object in the slot (the expression after `await` is evaluated once). *)
Definition gwa_state := (bool * fstate * bool * fstate * bool * bool * bool * bool * list gwa_eff)%type.

"""


def _ga_reserved_tuple(e, where):
    """(Reserved.X, ...) -> ([ints], 'Reserved.X, ...')"""
    import bellows.ash as ash
    if not isinstance(e, ast.Tuple):
        raise GenError(where, f"expected a tuple of Reserved members: `{ast.unparse(e)}`")
    vals = []
    for x in e.elts:
        if not (isinstance(x, ast.Attribute) and isinstance(x.value, ast.Name) and x.value.id == "Reserved" and x.attr in ash.Reserved.__members__):
            raise GenError(where, f"expected a Reserved member: `{ast.unparse(x)}`")
        vals.append(int(ash.Reserved[x.attr]))
    return vals, ast.unparse(e)


def _ga_log_only_if(s, outside_loads):
    """`if _LOGGER.isEnabledFor(..):` whose body (log calls stripped) only assigns side-effect-free values to locals
    that nothing outside the block reads"""
    if not (isinstance(s, ast.If) and not s.orelse and isinstance(s.test, ast.Call)
            and ast.unparse(s.test.func) in ("_LOGGER.isEnabledFor", "LOGGER.isEnabledFor")):
        return False
    ok_nodes = (ast.Call, ast.Attribute, ast.Constant, ast.ListComp, ast.comprehension, ast.JoinedStr, ast.FormattedValue,
                ast.Name, ast.Load, ast.Store)
    for b in s.body:
        if isinstance(b, ast.Pass):
            continue
        if not (isinstance(b, ast.Assign) and len(b.targets) == 1 and isinstance(b.targets[0], ast.Name) and b.targets[0].id not in outside_loads):
            return False
        for n in ast.walk(b.value):
            if not isinstance(n, ok_nodes):
                return False
            if isinstance(n, ast.Call) and not (isinstance(n.func, ast.Attribute) and n.func.attr == "join" and isinstance(n.func.value, ast.Constant)):
                return False
    return True


def _ga_write_frame(P):
    """AshProtocol._write_frame and send_reset"""
    import bellows.ash as ash
    where = "AshProtocol._write_frame (source)"
    node = _StripLogs().visit(_fn_ast(P.__dict__["_write_frame"]))
    a = node.args
    if [x.arg for x in a.args] != ["self", "frame"] or [x.arg for x in a.kwonlyargs] != ["prefix", "suffix"] or a.vararg or a.kwarg or a.defaults:
        raise GenError(where, "parameters")
    defaults = {k.arg: _ga_reserved_tuple(d, where) for k, d in zip(a.kwonlyargs, a.kw_defaults)}
    body = [s for s in node.body if not isinstance(s, ast.Pass)]
    removed = []
    kept = []
    for i, s in enumerate(body):
        others = [x for j, x in enumerate(body) if j != i]
        loads = {n.id for o in others for n in ast.walk(o) if isinstance(n, ast.Name) and isinstance(n.ctx, ast.Load)}
        if _ga_log_only_if(s, loads):
            removed.append(f"if {ast.unparse(s.test)}: <locals of the log call>")
        else:
            kept.append(s)
    if len(kept) != 3:
        raise GenError(where, "expected: the closed-transport guard, the assignment of the bytes, one transport write; got\n"
                       + "\n".join(ast.unparse(s) for s in kept))
    guard, assign, write = kept
    if not (isinstance(guard, ast.If) and not guard.orelse and _dump(ast.unparse(guard.test)) == _dump("self._transport is None or self._transport.is_closing()")
            and len(guard.body) == 1 and isinstance(guard.body[0], ast.Raise) and isinstance(guard.body[0].exc, ast.Call)
            and ast.unparse(guard.body[0].exc.func) == "NcpFailure" and guard.body[0].cause is None):
        raise GenError(where, f"closed-transport guard: `{ast.unparse(guard)[:120]}`")
    if not (isinstance(assign, ast.Assign) and len(assign.targets) == 1 and isinstance(assign.targets[0], ast.Name)):
        raise GenError(where, f"assignment: `{ast.unparse(assign)[:120]}`")
    var = assign.targets[0].id

    def parts(e):
        if isinstance(e, ast.BinOp) and isinstance(e.op, ast.Add):
            return parts(e.left) + parts(e.right)
        return [e]
    terms, binds = [], []
    for p in parts(assign.value):
        src = ast.unparse(p)
        if src in ("bytes(prefix)", "bytes(suffix)"):
            terms.append(src[6:-1])
        elif src == "self._stuff_bytes(frame.to_bytes())":
            nm = f"stuffed{len(binds) + 1}"
            binds.append(nm)
            terms.append(nm)
        else:
            raise GenError(where, f"part of the written bytes: `{src[:100]}`")
    if not (isinstance(write, ast.Expr) and ast.unparse(write.value) == f"self._transport.write({var})"):
        raise GenError(where, f"expected self._transport.write({var}): `{ast.unparse(write)[:100]}`")
    inner = f"let {var} := {' ++ '.join(terms)} in\nWfWritten {var}"
    for nm in reversed(binds):
        inner = (f"match py_stuff_bytes frame_to_bytes with   (* self._stuff_bytes(frame.to_bytes()), gen/GenAshFn.v *)\n| None => WfRaised\n"
                 f"| Some {nm} =>\n{textwrap.indent(inner, '    ')}\nend")
    out = ("(* from the source of AshProtocol._write_frame; t_open: not (self._transport is None or self._transport.is_closing());\n"
           "   frame_to_bytes: frame.to_bytes(); result: the bytes handed to transport.write | NcpFailure raised\n"
           + (f"   not translated (feeds logging only): {'; '.join(removed)}\n" if removed else "") + "*)\n"
           "Definition py_AshProtocol_write_frame (t_open : bool) (frame_to_bytes : list N) (prefix suffix : list N) : gwa_write :=\n"
           f"  if negb t_open then WfNcpFailure   (* raise NcpFailure *)\n  else\n{textwrap.indent(inner, '    ')}.\n\n")
    # ---- send_reset
    where = "AshProtocol.send_reset (source)"
    node = _StripLogs().visit(_fn_ast(P.__dict__["send_reset"]))
    body = [s for s in node.body if not isinstance(s, ast.Pass)]
    if [x.arg for x in node.args.args] != ["self"] or len(body) != 1 or not (isinstance(body[0], ast.Expr) and isinstance(body[0].value, ast.Call)
                                                                          and ast.unparse(body[0].value.func) == "self._write_frame"):
        raise GenError(where, "expected a single call of self._write_frame")
    c = body[0].value
    if len(c.args) != 1 or ast.unparse(c.args[0]) != "RstFrame()":
        raise GenError(where, f"frame written: `{ast.unparse(c)[:100]}`")
    consts = {f"Reserved.{m.name}": int(m) for m in ash.Reserved}
    _, info = frame_class(ash.RstFrame, consts)          # to_bytes is self.append_crc(bytes([...])): py_RstFrame_header
    if info["payload"] is not None or info["hdr_fields"]:
        raise GenError(where, "RstFrame has fields")
    kw = {}
    for k in c.keywords:
        if k.arg not in ("prefix", "suffix") or k.arg in kw:
            raise GenError(where, f"keyword `{k.arg}`")
        kw[k.arg] = _ga_reserved_tuple(k.value, where)
    pre = kw.get("prefix", defaults["prefix"])
    suf = kw.get("suffix", defaults["suffix"])
    lst = lambda v: "[" + "; ".join(str(x) for x in v) + "]"
    out += ("(* from the source of AshProtocol.send_reset: " + ast.unparse(c) + f"\n   RstFrame().to_bytes() is append_crc py_RstFrame_header (gen/GenAshFn.v); prefix {pre[1]}"
            f"{'' if 'prefix' in kw else ' (default)'}, suffix {suf[1]}{'' if 'suffix' in kw else ' (default)'} *)\n"
            "Definition py_AshProtocol_send_reset (t_open : bool) : gwa_write :=\n"
            f"  py_AshProtocol_write_frame t_open (append_crc py_RstFrame_header) {lst(pre[0])} {lst(suf[0])}.\n\n")
    return out


class GaTr:
    """one coroutine (or done-callback) of Gateway.  hs: stack of enclosing blocks, ('finally', body) | ('timeout', const);
    known: the future attributes that certainly hold a future at this point (needed by `await self._x` and
    `self._x.add_done_callback`)"""

    def __init__(self, stem, where, ns, node, params=()):
        self.stem, self.where, self.ns, self.params = stem, where, ns, tuple(params)
        aw = sorted((n for n in ast.walk(node) if isinstance(n, ast.Await)), key=lambda n: (n.lineno, n.col_offset))
        self.points = {id(n): k + 1 for k, n in enumerate(aw)}
        self.jobs = {}            # k -> (future attribute, continuation, hs, is_return, timeout constant)
        self.callbacks = {}       # future attribute -> done-callbacks registered at its creation
        self.consts = {}          # emitted constant -> value
        self.delegates = 0

    def refuse(self, node, why="unsupported construct"):
        src = ast.unparse(node) if isinstance(node, ast.AST) else str(node)
        raise GenError(self.where, f"{why}: `{src[:110]}`")

    @staticmethod
    def fut_attr(e):
        if isinstance(e, ast.Attribute) and isinstance(e.value, ast.Name) and e.value.id == "self" and e.attr in GW_FUT:
            return e.attr
        return None

    def cond(self, t, known):
        """(term, known in the true branch, known in the false branch)"""
        if isinstance(t, ast.UnaryOp) and isinstance(t.op, ast.Not):
            c, kt, kf = self.cond(t.operand, known)
            return f"(negb {c})", kf, kt
        if isinstance(t, ast.Compare) and len(t.ops) == 1 and isinstance(t.comparators[0], ast.Constant) and t.comparators[0].value is None:
            f = self.fut_attr(t.left)
            if f and isinstance(t.ops[0], ast.IsNot):
                return GW_FUT[f][0], known | {f}, known - {f}
            if f and isinstance(t.ops[0], ast.Is):
                return f"(negb {GW_FUT[f][0]})", known - {f}, known | {f}
        f = self.fut_attr(t)
        if f:                                               # a Future object is truthy
            return GW_FUT[f][0], known | {f}, known - {f}
        self.refuse(t, "condition")

    def simple(self, body, known):
        """statements allowed in a finally body / a done-callback: no await, no way out"""
        out = ""
        for s in body:
            if isinstance(s, ast.Pass):
                continue
            f = self.fut_attr(s.targets[0]) if isinstance(s, ast.Assign) and len(s.targets) == 1 else None
            if f and isinstance(s.value, ast.Constant) and s.value.value is None:
                out += f"let {GW_FUT[f][0]} := false in\n"
                known = known - {f}
                continue
            self.refuse(s, "statement of a finally body / done-callback")
        return out, known

    # ---- ways out -----------------------------------------------------------------------------------
    def leave_return(self, hs, known):
        out = ""
        for h in reversed(hs):
            if h[0] == "finally":
                lets, known = self.simple(h[1], known)
                out += lets
        return out + f"({GA_ST}, AReturn)"

    def raise_static(self, exc, hs, known):
        out = ""
        for h in reversed(hs):
            if h[0] == "finally":
                lets, known = self.simple(h[1], known)
                out += lets
            # an exception that is not the CancelledError of the expiry passes the timeout context unchanged
        return out + f"({GA_ST}, ARaise {exc})"

    def raise_dyn(self, var, hs, known, wake):
        out = ""
        for h in reversed(hs):
            if h[0] == "finally":
                lets, known = self.simple(h[1], known)
                out += lets
            elif h[0] == "timeout":
                if not wake:
                    self.refuse(h[1], "an exception of a delegated await under a timeout context")
                out += f"let {var} := timeout_exit w {var} in   (* leaves `async with asyncio_timeout(..)` *)\n"
        return out + f"({GA_ST}, ARaise {var})"

    def const(self, e):
        if not (isinstance(e, ast.Name) and e.id in self.ns):
            self.refuse(e, "the timeout is not a module-level name")
        v = self.ns[e.id]
        if isinstance(v, bool) or not isinstance(v, int) or v < 0:
            raise GenError(self.where, f"{e.id} = {v!r} is not a natural number")
        self.consts[f"py_{e.id}"] = v
        return f"py_{e.id}"

    # ---- awaits --------------------------------------------------------------------------------------
    def await_(self, node, rest, hs, known, is_return):
        ind = lambda txt, k=2: textwrap.indent(txt, " " * k)
        v = node.value
        if isinstance(v, ast.Call):
            if ast.unparse(v) == "self._transport.send_data(data)" and "data" in self.params and self.delegates == 0:
                self.delegates += 1
                ok = self.leave_return(hs, known) if is_return else self.stmts(rest, hs, known)
                return ("let eff := eff ++ [PAshSendData data] in\nmatch sent with\n"
                        f"| DReturn =>\n{ind(ok, 4)}\n| DRaise e =>\n{ind(self.raise_dyn('e', hs, known, False), 4)}\nend")
            self.refuse(node, "awaited call")
        f = self.fut_attr(v)
        if not f:
            self.refuse(node, "awaited expression (only the two future attributes can be awaited)")
        if f not in known:
            self.refuse(node, "cannot show that the awaited attribute holds a future here")
        k = self.points[id(node)]
        timeout = hs[-1][1] if hs and hs[-1][0] == "timeout" else None
        job = (f, rest, hs, is_return, timeout)
        if k in self.jobs and self.jobs[k][2] != hs:
            self.refuse(node, "await reached under two different block stacks")
        self.jobs[k] = job
        susp = f"({GA_ST}, ASuspend {k} {GA_FUTNAME[f]} {'(Some ' + timeout + ')' if timeout else 'None'})"
        return (f"if is_pend {GW_FUT[f][1]} then\n  {susp}   (* suspends at await #{k} *)\n"
                f"else   (* the future is done: no suspension *)\n  {self.stem}_resume_{k} {GA_ST} WkFuture")

    def resume_fn(self, k):
        ind = lambda txt, n=2: textwrap.indent(txt, " " * n)
        f, rest, hs, is_return, timeout = self.jobs[k]
        none = frozenset()      # other code has run since: nothing is known about the attributes
        ok = self.leave_return(hs, none) if is_return else self.stmts(rest, hs, none)
        exn = self.raise_dyn("e", hs, none, True)
        susp = f"({GA_ST}, ASuspend {k} {GA_FUTNAME[f]} {'(Some ' + timeout + ')' if timeout else 'None'})"
        return (f"Definition {self.stem}_resume_{k} (s : gwa_state) (w : gwa_wake) : gwa_state * gwa_status :=\n"
                f"  let '{GA_ST} := s in\n  match await_result {GW_FUT[f][1]} w with\n"
                f"  | AwPending => {susp}   (* not woken: still suspended *)\n"
                f"  | AwValue =>\n{ind(ok, 6)}\n  | AwRaise e =>\n{ind(exn, 6)}\n  end.\n")

    # ---- statements ----------------------------------------------------------------------------------
    def stmts(self, body, hs, known):
        ind = lambda txt, k=2: textwrap.indent(txt, " " * k)
        if not body:
            return self.leave_return(hs, known)
        s, rest = body[0], body[1:]
        if isinstance(s, _Pop):
            if hs[-1][0] == "finally":
                lets, known2 = self.simple(hs[-1][1], known)
                return lets + self.stmts(rest, hs[:-1], known2)
            return self.stmts(rest, hs[:-1], known)
        if isinstance(s, ast.Pass):
            return self.stmts(rest, hs, known)
        if isinstance(s, ast.Return):
            if s.value is None:
                return self.leave_return(hs, known)
            if isinstance(s.value, ast.Await):
                return self.await_(s.value, [], hs, known, True)
            self.refuse(s, "return value")
        if isinstance(s, ast.Expr) and isinstance(s.value, ast.Await):
            return self.await_(s.value, rest, hs, known, False)
        if isinstance(s, ast.Assert) and s.msg is None:
            c, kt, kf = self.cond(s.test, known)
            return (f"if {c} then\n{ind(self.stmts(rest, hs, kt))}\nelse   (* AssertionError *)\n"
                    f"{ind(self.raise_static('EXAssertion', hs, kf))}")
        if isinstance(s, ast.If):
            c, kt, kf = self.cond(s.test, known)
            a = self.stmts(list(s.body) + rest, hs, kt)
            b = self.stmts(list(s.orelse) + rest, hs, kf)
            return f"if {c} then\n{ind(a)}\nelse\n{ind(b)}"
        if isinstance(s, ast.Try):
            if s.handlers or s.orelse or not s.finalbody:
                self.refuse(s, "only try / finally is supported")
            self.simple(list(s.finalbody), frozenset())
            return self.stmts(list(s.body) + [_Pop()] + rest, hs + (("finally", list(s.finalbody)),), known)
        if isinstance(s, ast.AsyncWith):
            ce = s.items[0].context_expr if len(s.items) == 1 and s.items[0].optional_vars is None else None
            if not (isinstance(ce, ast.Call) and ast.unparse(ce.func) == "asyncio_timeout" and len(ce.args) == 1 and not ce.keywords):
                self.refuse(s, "only `async with asyncio_timeout(<constant>):` is supported")
            b = s.body[0] if len(s.body) == 1 else None
            if not ((isinstance(b, ast.Return) and isinstance(b.value, ast.Await)) or (isinstance(b, ast.Expr) and isinstance(b.value, ast.Await))):
                self.refuse(s, "the block under the timeout must be a single await")
            return self.stmts(list(s.body) + [_Pop()] + rest, hs + (("timeout", self.const(ce.args[0])),), known)
        if isinstance(s, ast.Assign) and len(s.targets) == 1:
            f = self.fut_attr(s.targets[0])
            if f and isinstance(s.value, ast.Constant) and s.value.value is None:
                return f"let {GW_FUT[f][0]} := false in\n{self.stmts(rest, hs, known - {f})}"
            if f and ast.unparse(s.value) in GA_CREATE:
                cbs = []
                while rest and not isinstance(rest[0], _Pop) and ast.unparse(rest[0]).startswith(f"self.{f}.add_done_callback("):
                    c = rest[0].value if isinstance(rest[0], ast.Expr) else None
                    if not (isinstance(c, ast.Call) and len(c.args) == 1 and not c.keywords and isinstance(c.args[0], ast.Attribute)
                            and isinstance(c.args[0].value, ast.Name) and c.args[0].value.id == "self"):
                        self.refuse(rest[0], "done-callback")
                    cbs.append(c.args[0].attr)
                    rest = rest[1:]
                if self.callbacks.setdefault(f, cbs) != cbs:
                    self.refuse(s, "two creation sites with different done-callbacks")
                note = f" with the done-callbacks {', '.join(cbs)} ({self.stem}_future_done)" if cbs else ""
                return (f"let {GW_FUT[f][0]} := true in\nlet {GW_FUT[f][1]} := FPend in   (* a new future{note} *)\n"
                        f"{self.stmts(rest, hs, known | {f})}")
            self.refuse(s, "assignment")
        if isinstance(s, ast.Expr) and isinstance(s.value, ast.Call):
            src = ast.unparse(s.value)
            if src == "self._transport.send_reset()":
                return ("match py_AshProtocol_send_reset t_open with   (* self._transport is the AshProtocol *)\n"
                        f"| WfNcpFailure =>\n{ind(self.raise_static('EXNcpFailure', hs, known), 4)}\n"
                        f"| WfRaised =>\n{ind(self.raise_static('EXOther', hs, known), 4)}\n"
                        f"| WfWritten data =>\n    let eff := eff ++ [PSendReset data] in\n{ind(self.stmts(rest, hs, known), 4)}\nend")
            if ".add_done_callback(" in src:
                self.refuse(s, "a done-callback must be registered right after the creation of the future")
        self.refuse(s)

    def coroutine(self, node, comment, extra_sig=""):
        begin = self.stmts(list(node.body), (), frozenset())
        done, texts = set(), {}
        while set(self.jobs) - done:
            k = min(set(self.jobs) - done)
            texts[k] = self.resume_fn(k)
            done.add(k)
        if set(self.points.values()) - done - ({1} if self.delegates else set()):
            raise GenError(self.where, "an await was not reached by the translation")
        out = [comment]
        for k in sorted(texts, reverse=True):
            out.append(texts[k])
        out.append(f"Definition {self.stem}_begin (s : gwa_state){extra_sig} : gwa_state * gwa_status :=\n"
                   f"  let '{GA_ST} := s in\n{textwrap.indent(begin, '  ')}.\n\n")
        return "".join(out)


def _ga_scan_class(cls_node):
    """every use of the two future attributes in the class: created only by the owning coroutine, otherwise assigned
    None; only done / set_result / set_exception / add_done_callback are called on them (no cancel())"""
    for m in cls_node.body:
        if not isinstance(m, (ast.FunctionDef, ast.AsyncFunctionDef)):
            continue
        for n in ast.walk(m):
            if isinstance(n, (ast.Assign, ast.AugAssign, ast.AnnAssign)):
                tgts = n.targets if isinstance(n, ast.Assign) else [n.target]
                for tg in tgts:
                    for x in ast.walk(tg):
                        f = GaTr.fut_attr(x)
                        if not f:
                            continue
                        val = n.value
                        if isinstance(n, ast.Assign) and len(tgts) == 1 and x is tg and isinstance(val, ast.Constant) and val.value is None:
                            continue
                        if isinstance(n, ast.Assign) and len(tgts) == 1 and x is tg and ast.unparse(val) in GA_CREATE and m.name == GA_OWNER[f]:
                            continue
                        raise GenError(f"Gateway.{m.name}", f"assignment to self.{f}: `{ast.unparse(n)[:100]}`")
            if isinstance(n, ast.Attribute) and GaTr.fut_attr(n.value):
                f = GaTr.fut_attr(n.value)
                if n.attr not in ("done", "set_result", "set_exception", "add_done_callback"):
                    raise GenError(f"Gateway.{m.name}", f"self.{f}.{n.attr} is not modelled")
                if n.attr == "add_done_callback" and m.name != GA_OWNER[f]:
                    raise GenError(f"Gateway.{m.name}", f"done-callback added to self.{f} outside {GA_OWNER[f]}")


def gen_gateway_async_fn() -> str:
    import bellows.ash as ash
    import bellows.uart as U
    G = U.Gateway
    out = [GA_PRELUDE]
    ns = vars(U)
    # ---- linking: Gateway._transport is the AshProtocol; the timeout context is asyncio's
    if getattr(U.asyncio_timeout, "__name__", "") != "timeout" or getattr(U.asyncio_timeout, "__module__", "") not in ("asyncio.timeouts", "async_timeout"):
        raise GenError("bellows.uart", "asyncio_timeout is not asyncio.timeout / async_timeout.timeout")
    pins = [("Gateway.connection_made", G.__dict__["connection_made"], "self._transport = transport"),
            ("AshProtocol.connection_made", ash.AshProtocol.__dict__["connection_made"], "self._ezsp_protocol.connection_made(self)"),
            ("Gateway.__init__", G.__dict__["__init__"], "self._reset_future = None"),
            ("Gateway.__init__", G.__dict__["__init__"], "self._startup_reset_future = None")]
    for nm, fn, stmt in pins:
        if not any(ast.unparse(s) == stmt for s in _fn_ast(fn).body):
            raise GenError(nm, f"`{stmt}` not found")
    _ga_scan_class(ast.parse(textwrap.dedent(inspect.getsource(G))).body[0])
    out.append(_ga_write_frame(ash.AshProtocol))

    # ---- _reset_cleanup (a done-callback)
    node = _StripLogs().visit(_fn_ast(G.__dict__["_reset_cleanup"]))
    if [a.arg for a in node.args.args] != ["self", "future"]:
        raise GenError("Gateway._reset_cleanup", "parameters")
    tr = GaTr("py_Gateway__reset_cleanup", "Gateway._reset_cleanup (source)", ns, node)
    lets, _ = tr.simple(list(node.body), frozenset())
    out.append("(* from the source of Gateway._reset_cleanup *)\nDefinition py_Gateway__reset_cleanup_a (s : gwa_state) : gwa_state :=\n"
               f"  let '{GA_ST} := s in\n{textwrap.indent(lets, '  ')}  {GA_ST}.\n\n")
    known_cbs = {"_reset_cleanup": "py_Gateway__reset_cleanup_a"}

    consts, bodies = {}, []
    for name, stem, short in (("reset", "py_Gateway_reset", "reset"), ("wait_for_startup_reset", "py_Gateway_wait_for_startup_reset", "startup")):
        node = _StripLogs().visit(_fn_ast_async(G.__dict__[name]))
        if [a.arg for a in node.args.args] != ["self"] or node.args.vararg or node.args.kwarg or node.args.kwonlyargs:
            raise GenError(f"Gateway.{name}", "parameters")
        tr = GaTr(stem, f"Gateway.{name} (source)", ns, node)
        txt = tr.coroutine(node, f"(* from the source of Gateway.{name}: the segments between its awaits, last first *)\n")
        f = next(a for a, o in GA_OWNER.items() if o == name)
        if f not in tr.callbacks:
            raise GenError(f"Gateway.{name}", f"self.{f} is not created here")
        for o in tr.callbacks:
            if o != f:
                raise GenError(f"Gateway.{name}", f"creates self.{o}")
        cbs = tr.callbacks[f]
        term = "s"
        for cb in cbs:
            if cb not in known_cbs:
                raise GenError(f"Gateway.{name}", f"done-callback self.{cb} is not translated")
            term = f"{known_cbs[cb]} ({term})" if term != "s" else f"{known_cbs[cb]} s"
        bodies.append(f"(* what asyncio runs first when the future created by Gateway.{name} becomes done: the callbacks registered with\n"
                      f"   add_done_callback right after its creation, in order ({', '.join(cbs) if cbs else 'none'}) *)\n"
                      f"Definition {stem}_future_done (s : gwa_state) : gwa_state := {term}.\n\n" + txt)
        consts.update(tr.consts)
    for c, v in sorted(consts.items()):
        out.append(f"(* module constant of bellows.uart, read from the live module *)\nDefinition {c} : N := {v}.\n\n")
    out.extend(bodies)

    # ---- send_data: delegation to the ASH layer
    node = _StripLogs().visit(_fn_ast_async(G.__dict__["send_data"]))
    if [a.arg for a in node.args.args] != ["self", "data"] or node.args.vararg or node.args.kwarg or node.args.kwonlyargs:
        raise GenError("Gateway.send_data", "parameters")
    tr = GaTr("py_Gateway_send_data", "Gateway.send_data (source)", ns, node, params=("data",))
    term = tr.stmts(list(node.body), (), frozenset())
    if tr.jobs or tr.delegates != 1:
        raise GenError("Gateway.send_data", "expected exactly one delegated await")
    out.append("(* from the source of Gateway.send_data; sent: how AshProtocol.send_data(data) ended *)\n"
               "Definition py_Gateway_send_data (s : gwa_state) (data : list N) (sent : gwa_delegate) : gwa_state * gwa_status :=\n"
               f"  let '{GA_ST} := s in\n{textwrap.indent(term, '  ')}.\n")
    return "".join(out)




# ==================================================================================================
# C14: util.zha_security, ezsp_key_to_zigpy_key, zigpy_key_to_ezsp_key (bellows/zigbee/util.py), the per-version
# accessors write_nwk_frame_counter / write_aps_frame_counter / write_link_keys / write_child_data
# (bellows/ezsp/vN/__init__.py) and ControllerApplication.write_network_info / reset_network_info / _reset
# (bellows/zigbee/application.py) -> coq/gen/GenNetInfoFn.v
#
# Straight-line code with `if` joins is translated in let style: an `if` becomes `let '(x, y) := if c then .. (x, y)
# else .. (x, y) in` over the variables either branch assigns (a variable only one branch defines is unusable
# afterwards).  Locally created structs (EmberInitialSecurityState(), EmberNetworkParameters(), EmberKeyStruct(),
# zigpy.state.Key()) are one Coq variable per field; a field is readable / returnable only when it is assigned on
# every path.  Operations that can raise (a stack-specific key that is absent) make the emitted function partial
# (option).  In the coroutine every await appends a step to `eff`; the answers of the NCP that decide a branch are
# parameters.  The accessors are lists of commands (a `for` is a flat_map over the argument).
# ==================================================================================================
NETINFO_PRELUDE = r"""(* GENERATED by harness/pysrc.py from the SOURCE TEXT of bellows/zigbee/util.py (zha_security, ezsp_key_to_zigpy_key,
   zigpy_key_to_ezsp_key), of the write accessors of bellows/ezsp/vN/__init__.py and of ControllerApplication.write_network_info,
   reset_network_info, _reset (bellows/zigbee/application.py) -- do not edit *)
From Coq Require Import String NArith List Bool.
Import ListNotations.
Require Import BV.gen.GenSecurity BV.model.NetInfo.
Open Scope N_scope.

(* ---- fixed vocabulary (not derived from the source) -------------------------------------------------------------
   an EUI64 value that may be EUI64.UNKNOWN (ff:ff:ff:ff:ff:ff:ff:ff): None = UNKNOWN, the convention of
   NetInfo.tc_address; == / != between two such values *)
Definition py_eui := option bytes.
Definition py_eui_eqb (a b : py_eui) : bool :=
  match a, b with None, None => true | Some x, Some y => bytes_eqb x y | _, _ => false end.
(* the eight bytes of such a value *)
Definition py_eui_bytes (a : py_eui) : bytes := match a with Some x => x | None => [255; 255; 255; 255; 255; 255; 255; 255] end.
(* t.KeyData.deserialize(bytes.fromhex(x))[0]: NetInfo keeps a key as a byte string of any length and the stack-specific
   hashed key as the bytes its hex text denotes; KeyData's length check (exactly 16 bytes are taken) is outside the model *)
Definition py_key_of_hex (h : bytes) : bytes := h.
(* truth value of stack_specific.get("hashed_tclk"): absent -> None -> false; the empty string is false as well *)
Definition py_truthy_hex (h : option bytes) : bool := match h with Some (_ :: _) => true | _ => false end.
(* network_info.tc_link_key.partner_ieee = a ; network_info.stack_specific.setdefault("ezsp", {})["hashed_tclk"] = h *)
Definition ni_set_tc_address (ni : netinfo) (a : py_eui) : netinfo :=
  {| pan_id := pan_id ni; ext_pan_id := ext_pan_id ni; channel := channel ni; channel_mask := channel_mask ni;
     update_id := update_id ni; manager_id := manager_id ni; nwk_key := nwk_key ni; nwk_key_seq := nwk_key_seq ni;
     nwk_key_fc := nwk_key_fc ni; tclk := tclk ni; tclk_fc := tclk_fc ni; tc_address := a; hashed_tclk := hashed_tclk ni;
     link_keys := link_keys ni; children := children ni |}.
Definition ni_set_hashed_tclk (ni : netinfo) (h : option bytes) : netinfo :=
  {| pan_id := pan_id ni; ext_pan_id := ext_pan_id ni; channel := channel ni; channel_mask := channel_mask ni;
     update_id := update_id ni; manager_id := manager_id ni; nwk_key := nwk_key ni; nwk_key_seq := nwk_key_seq ni;
     nwk_key_fc := nwk_key_fc ni; tclk := tclk ni; tclk_fc := tclk_fc ni; tc_address := tc_address ni; hashed_tclk := h;
     link_keys := link_keys ni; children := children ni |}.
(* an element of NetInfo.children stands for an entry of network_info.children together with what
   network_info.nwk_addresses says about it: (ieee, Some nwk) iff the address is a key of nwk_addresses *)
Definition py_child_ieee (c : bytes * option N) : bytes := fst c.
Definition py_in_nwk_addresses (c : bytes * option N) : bool := match snd c with Some _ => true | None => false end.
Definition py_nwk_address (c : bytes * option N) : option N := snd c.

(* the two key records of the conversion functions; an option field is None where the Python attribute is None.
   EmberKeyStruct.type is not touched by the functions and is left out *)
Record py_ezsp_key := { ek_bitmask : N; ek_key : bytes; ek_outgoingFrameCounter : option N; ek_incomingFrameCounter : option N;
                        ek_sequenceNumber : option N; ek_partnerEUI64 : option bytes }.
Record py_zigpy_key := { zk_key : bytes; zk_tx_counter : option N; zk_rx_counter : option N; zk_seq : option N;
                         zk_partner_ieee : option bytes }.

(* commands a write accessor of the protocol handler sends, in order *)
Inductive py_cmd :=
| CQuery (name : string)                                 (* a command that only reads, e.g. networkState *)
| CGuard                                                 (* assert <test on the last answer>: the accessor raises if it fails *)
| CSetValue (value_id : N) (value : N)                   (* setValue(valueId=.., value=t.uint32_t(<value>).serialize()) *)
| CAddOrUpdateKeyTableEntry (address : bytes) (link_key : bool) (key : bytes)
| CImportLinkKey (index : N) (address : bytes) (key : bytes)
| CSetChildData (index : N) (eui64 : bytes) (id : N).

(* what ControllerApplication.write_network_info awaits, in order *)
Inductive py_app_step :=
| AResetNetworkInfo                                      (* await self.reset_network_info() *)
| AGetEui64 | ACanRewrite | ACanBurn                     (* getEui64, can_rewrite_custom_eui64, can_burn_userdata_custom_eui64 *)
| AWriteCustomEui64 (ieee : py_eui) (burn_into_userdata : bool)
| AReset                                                 (* await self._reset() *)
| AWriteNwkFc (n : N) | AWriteApsFc (n : N)              (* ezsp.write_nwk_frame_counter / write_aps_frame_counter *)
| ASetInitialSecurityState (s : secstate)
| AGuard                                                 (* assert on the last answer *)
| AWriteLinkKeys (l : list (bytes * bytes))
| AWriteChildData (l : list (bytes * N))
| AFormNetwork (p : netparams)
| AEnsureRunning.                                        (* await self._ensure_network_running() *)
Inductive py_wn_outcome := WnDone | WnRaised (exn : string).

(* calls of a straight-line coroutine: `target.name(..)`, awaited or not; try / except <exn>: pass / else *)
Inductive py_call :=
| RCall (target name : string)
| RTryElse (body : list py_call) (exn : string) (orelse : list py_call).

"""

NI_REC_FIELDS = {
    "netinfo": {"network_key.key": ("nwk_key", "bytes"), "network_key.seq": ("nwk_key_seq", "N"), "network_key.tx_counter": ("nwk_key_fc", "N"),
                "tc_link_key.key": ("tclk", "bytes"), "tc_link_key.tx_counter": ("tclk_fc", "N"), "tc_link_key.partner_ieee": ("tc_address", "eui"),
                "key_table": ("link_keys", "keys"), "pan_id": ("pan_id", "N"), "extended_pan_id": ("ext_pan_id", "bytes"),
                "channel": ("channel", "N"), "channel_mask": ("channel_mask", "N"), "nwk_update_id": ("update_id", "N"),
                "nwk_manager_id": ("manager_id", "N"), "children": ("children", "children")},
    "ekey": {"bitmask": ("ek_bitmask", "N"), "key": ("ek_key", "bytes"), "outgoingFrameCounter": ("ek_outgoingFrameCounter", "optN"),
             "incomingFrameCounter": ("ek_incomingFrameCounter", "optN"), "sequenceNumber": ("ek_sequenceNumber", "optN"),
             "partnerEUI64": ("ek_partnerEUI64", "optbytes")},
    "zkey": {"key": ("zk_key", "bytes"), "tx_counter": ("zk_tx_counter", "optN"), "rx_counter": ("zk_rx_counter", "optN"),
             "seq": ("zk_seq", "optN"), "partner_ieee": ("zk_partner_ieee", "optbytes")},
    "linkkey": {"partner_ieee": ("fst", "bytes"), "key": ("snd", "bytes")},
}
NI_REC_SETTERS = {"netinfo": {"tc_link_key.partner_ieee": ("ni_set_tc_address", "eui")}}
# locally created structs: class name -> (Coq record type | None, field -> (record field, type), fields left out of the record)
NI_STRUCTS = {
    "EmberInitialSecurityState": ("secstate", {"bitmask": ("s_bitmask", "N"), "preconfiguredKey": ("s_preconfigured", "bytes"),
                                               "networkKey": ("s_network_key", "bytes"), "networkKeySequenceNumber": ("s_seq", "N"),
                                               "preconfiguredTrustCenterEui64": ("s_tc_eui64", "bytes")}, ()),
    "EmberNetworkParameters": ("netparams", {"panId": ("p_pan", "N"), "extendedPanId": ("p_epan", "bytes"), "radioChannel": ("p_channel", "N"),
                                             "channels": ("p_mask", "N"), "nwkUpdateId": ("p_update", "N"), "nwkManagerId": ("p_manager", "N")},
                               ("radioTxPower", "joinMethod")),
    "EmberKeyStruct": ("py_ezsp_key", dict((k, v) for k, v in NI_REC_FIELDS["ekey"].items()), ("type",)),
    "Key": ("py_zigpy_key", dict((k, v) for k, v in NI_REC_FIELDS["zkey"].items()), ()),
}
NI_CASTS = {"KeyData": ("bytes",), "uint8_t": ("N",), "uint16_t": ("N",), "uint32_t": ("N",), "EmberPanId": ("N",), "EmberNodeId": ("N",),
            "Channels": ("N",), "EUI64": ("eui", "bytes")}
NI_ORACLES = {"can_rewrite_custom_eui64": ("ACanRewrite", "can_rewrite"), "can_burn_userdata_custom_eui64": ("ACanBurn", "can_burn")}


NI_RESERVED = {f[0] for d in NI_REC_FIELDS.values() for f in d.values()} | {
    "eff", "hashed_tclk", "urandom", "ncp_eui64", "can_rewrite", "can_burn", "stack_specific_flag", "ezsp_version", "enumerate", "flat_map",
    "has_bits", "bytes", "bytes_eqb", "hex_v", "nwk_v", "zero_eui", "ibit", "flag", "known_children", "write_plan", "v"}


def _ni_name(n: str) -> str:
    """a Python local must not capture a name the emitted terms use"""
    return n + "_l" if n in NI_RESERVED else n


def _ni_blist(b) -> str:
    return "[" + "; ".join(str(x) for x in bytes(b)) + "]"


class NiTr:
    """mode "pure": a synchronous function of util.py; mode "script": the coroutine write_network_info (awaits append to eff)"""

    def __init__(self, where, ns, mode):
        self.where, self.ns, self.mode = where, ns, mode
        self.raises = 0            # number of raising operations emitted (pure mode: the function is partial iff > 0)
        self.notes = []            # what was skipped / read from the live modules, for the emitted comment
        self.depth = 0

    def refuse(self, node, why="unsupported construct"):
        src = ast.unparse(node) if isinstance(node, ast.AST) else str(node)
        raise GenError(self.where, f"{why}: `{src[:120]}`")

    def note(self, text):
        if text not in self.notes:
            self.notes.append(text)

    # ---- environment ---------------------------------------------------------------------------------------------------
    @staticmethod
    def coqvar(key):
        return _ni_name({"node_info.ieee": "node_ieee"}.get(key, key.replace(".", "_")))

    def bind(self, env, key, ty):
        env = dict(env)
        env[key] = ("val", self.coqvar(key), ty)
        env["\0assigned"] = env.get("\0assigned", ()) + ((key,) if key not in env.get("\0assigned", ()) else ())
        return env

    @staticmethod
    def path(e):
        parts = []
        while isinstance(e, ast.Attribute):
            parts.append(e.attr)
            e = e.value
        if isinstance(e, ast.Name) and parts:
            return e.id, ".".join(reversed(parts))
        return None

    def ezsp_attr(self, e, env):
        """e is <the EZSP object>.<attr>: the attr"""
        if not isinstance(e, ast.Attribute):
            return None
        v = e.value
        if isinstance(v, ast.Name) and env.get(v.id, (None,))[0] == "ezsp":
            return e.attr
        if ast.unparse(v) == "self._ezsp" and "self" in env:
            return e.attr
        return None

    # ---- expressions ---------------------------------------------------------------------------------------------------
    def live(self, e, obj):
        import enum
        if isinstance(obj, enum.Enum) and isinstance(obj, int) and int(obj) >= 0:
            self.note(f"{type(obj).__name__}.{obj.name} = {int(obj)}")
            return f"{int(obj)}", "N"
        if type(obj).__name__ == "EUI64" and isinstance(obj, list):
            return self.eui_literal(obj)
        self.refuse(e, "a name of the live module that is neither an enum member nor an EUI64")

    def eui_literal(self, obj):
        import zigpy.types as zt
        if obj == zt.EUI64.UNKNOWN:
            return "(@None bytes)", "eui"
        return f"(Some {_ni_blist(obj.serialize())})", "eui"

    def coerce(self, c, ty, want, node):
        if ty == want:
            return c
        if (ty, want) in (("N", "optN"), ("bytes", "optbytes")):
            return f"(Some {c})"
        if (ty, want) == ("eui", "bytes"):
            return f"(py_eui_bytes {c})"
        self.refuse(node, f"a value of type {ty} where {want} is expected")

    def ex(self, e, env):
        import enum
        src = ast.unparse(e)
        if ("=" + src) in env:
            _, c, ty = env["=" + src]
            return c, ty
        if isinstance(e, ast.Constant):
            if isinstance(e.value, bool):
                return ("true" if e.value else "false"), "bool"
            if isinstance(e.value, int) and e.value >= 0:
                return str(e.value), "N"
            if isinstance(e.value, bytes):
                return _ni_blist(e.value), "bytes"
            self.refuse(e, "constant")
        if isinstance(e, ast.Name):
            b = env.get(e.id)
            if b and b[0] == "val":
                return b[1], b[2]
            self.refuse(e, "a name that is unknown, possibly unset on some path, or not a value")
        if isinstance(e, ast.Attribute):
            a = self.ezsp_attr(e, env)
            if a == "ezsp_version":
                return "ezsp_version", "N"
            p = self.path(e)
            if p and p[0] in env:
                base, attrs = p
                b = env[base]
                if b[0] == "rec":
                    f = NI_REC_FIELDS[b[2]].get(attrs)
                    if f is None:
                        self.refuse(e, f"attribute outside the model's record ({b[2]})")
                    return f"({f[0]} {b[1]})", f[1]
                if b[0] in ("node", "struct"):
                    key = f"{base}.{attrs}"
                    if key in env and env[key][0] == "val":
                        return env[key][1], env[key][2]
                    self.refuse(e, "attribute that is not assigned on every path (or not modelled)")
                self.refuse(e, "attribute of a local value")
            obj = _resolve(self.ns, e)
            if obj is not _MISSING:
                return self.live(e, obj)
            self.refuse(e, "attribute")
        if isinstance(e, ast.Call):
            f = e.func
            obj = _resolve(self.ns, f)
            if isinstance(obj, type) and not e.keywords and len(e.args) == 1:
                if issubclass(obj, enum.Flag) and issubclass(obj, int) and isinstance(e.args[0], ast.Constant) and isinstance(e.args[0].value, int) and e.args[0].value >= 0:
                    return str(e.args[0].value), "N"
                if obj.__name__ in NI_CASTS:
                    c, ty = self.ex(e.args[0], env)
                    if ty not in NI_CASTS[obj.__name__]:
                        self.refuse(e, f"{obj.__name__}(..) of a value of type {ty}")
                    self.note(f"{obj.__name__}(x) is x (range / length checks of the type are outside the model)")
                    return c, ty
            if isinstance(f, ast.Attribute) and f.attr == "convert" and len(e.args) == 1 and not e.keywords \
                    and isinstance(e.args[0], ast.Constant) and isinstance(e.args[0].value, str):
                cls = _resolve(self.ns, f.value)
                if isinstance(cls, type) and cls.__name__ == "EUI64":
                    return self.eui_literal(cls.convert(e.args[0].value))
            self.refuse(e, "call")
        if isinstance(e, ast.BinOp) and isinstance(e.op, ast.BitOr):
            (a, ta), (b, tb) = self.ex(e.left, env), self.ex(e.right, env)
            if ta != "N" or tb != "N":
                self.refuse(e, "| of non-numbers")
            return f"(N.lor {a} {b})", "N"
        if isinstance(e, ast.Compare) and len(e.ops) == 1:
            op, l, r = e.ops[0], e.left, e.comparators[0]
            if isinstance(op, ast.In):
                (a, ta), (b, tb) = self.ex(l, env), self.ex(r, env)
                lo, ro = _resolve(self.ns, l), None
                if ta == "N" and tb == "N" and isinstance(lo, enum.Flag) and isinstance(lo, int):
                    return f"(has_bits {b} {a})", "bool"            # flag in mask: mask & flag == flag
                self.refuse(e, "`in` other than <flag member> in <bitmask>")
            (a, ta), (b, tb) = self.ex(l, env), self.ex(r, env)
            if ta != tb:
                self.refuse(e, f"comparison of {ta} with {tb}")
            if isinstance(op, (ast.Eq, ast.NotEq)):
                eqb = {"N": "N.eqb", "bytes": "bytes_eqb", "eui": "py_eui_eqb", "bool": "Bool.eqb"}.get(ta)
                if eqb is None:
                    self.refuse(e, f"== on {ta}")
                t = f"({eqb} {a} {b})"
                return (t if isinstance(op, ast.Eq) else f"(negb {t})"), "bool"
            if ta == "N" and isinstance(op, (ast.Gt, ast.Lt, ast.GtE, ast.LtE)):
                return {ast.Gt: f"({b} <? {a})", ast.Lt: f"({a} <? {b})", ast.GtE: f"({b} <=? {a})", ast.LtE: f"({a} <=? {b})"}[type(op)], "bool"
            self.refuse(e, "comparison")
        if isinstance(e, ast.UnaryOp) and isinstance(e.op, ast.Not):
            return f"(negb {self.truth(e.operand, env)})", "bool"
        if isinstance(e, ast.BoolOp):
            parts = [self.truth(v, env) for v in e.values]
            fn = "andb" if isinstance(e.op, ast.And) else "orb"
            t = parts[-1]
            for p in reversed(parts[:-1]):
                t = f"({fn} {p} {t})"
            return t, "bool"
        self.refuse(e, "expression")

    def truth(self, e, env):
        """e in a boolean context (no awaits)"""
        # stack_specific.get("<key>")
        if isinstance(e, ast.Call) and isinstance(e.func, ast.Attribute) and e.func.attr == "get" and isinstance(e.func.value, ast.Name) \
                and env.get(e.func.value.id, (None,))[0] == "ss" and len(e.args) == 1 and not e.keywords \
                and isinstance(e.args[0], ast.Constant) and isinstance(e.args[0].value, str):
            if not env[e.func.value.id][1]:
                self.refuse(e, "the stack-specific dict is read after it may have been replaced by setdefault")
            key = e.args[0].value
            if key == "hashed_tclk":
                return f"(py_truthy_hex (hashed_tclk {env['network_info'][1]}))"
            if '"' in key:
                self.refuse(e, "key")
            return f'(stack_specific_flag "{key}"%string)'
        if isinstance(e, ast.UnaryOp) and isinstance(e.op, ast.Not):
            return f"(negb {self.truth(e.operand, env)})"
        if isinstance(e, ast.BoolOp):
            return self.ex(e, env)[0]
        c, ty = self.ex(e, env)
        if ty != "bool":
            self.refuse(e, f"truth value of a {ty}")
        return c

    def pure(self, e, env):
        """an expression the translation drops: no await, no call except casts / from_ember_status, no walrus"""
        for n in ast.walk(e):
            if isinstance(n, (ast.Await, ast.NamedExpr, ast.Yield, ast.YieldFrom, ast.Lambda)):
                self.refuse(e, "a dropped expression must have no effect")
            if isinstance(n, ast.Call):
                obj = _resolve(self.ns, n.func)
                ok = (isinstance(obj, type) and (obj.__name__ in NI_CASTS)) or ast.unparse(n.func).endswith("sl_Status.from_ember_status")
                if not ok:
                    self.refuse(e, f"a dropped expression calls {ast.unparse(n.func)}")

    # ---- statements ----------------------------------------------------------------------------------------------------
    def tuple_of(self, env, keys):
        names = [self.coqvar(k) if k != "eff" else "eff" for k in keys]
        return names[0] if len(names) == 1 else "(" + ", ".join(names) + ")"

    def seq(self, stmts, env, k):
        stmts = ThTr.clean(stmts)
        if not stmts:
            return k(env)
        s, rest = stmts[0], stmts[1:]
        go = lambda env2: self.seq(rest, env2, k)          # noqa: E731
        # ---- return
        if isinstance(s, ast.Return):
            if self.mode != "pure" or self.depth or rest:
                self.refuse(s, "return other than as the last statement of a synchronous function")
            return self.ret(s.value, env)
        # ---- if
        if isinstance(s, ast.If):
            return self.do_if(s, env, go)
        # ---- assert (script): a guard
        if isinstance(s, ast.Assert):
            if self.mode != "script":
                self.refuse(s)
            self.pure(s.test, env)
            return "let eff := eff ++ [AGuard] in\n" + go(self.touch(env, "eff"))
        # ---- expression statement: an await
        if isinstance(s, ast.Expr) and isinstance(s.value, ast.Await):
            return self.do_await(s.value.value, None, env, go, s)
        if isinstance(s, ast.AugAssign) and isinstance(s.op, ast.BitOr):
            key = self.target_key(s.target, env)
            if key is None or key not in env:
                self.refuse(s, "|= on something that is not an assigned struct field / local")
            c, ty = self.ex(s.value, env)
            if ty != "N" or env[key][2] != "N":
                self.refuse(s, "|= of non-numbers")
            return f"let {self.coqvar(key)} := N.lor {self.coqvar(key)} {c} in\n" + go(self.bind(env, key, "N"))
        if isinstance(s, ast.Assign) and len(s.targets) == 1:
            return self.do_assign(s, env, go)
        self.refuse(s)

    def touch(self, env, key):
        env = dict(env)
        env["\0assigned"] = env.get("\0assigned", ()) + ((key,) if key not in env.get("\0assigned", ()) else ())
        return env

    def target_key(self, t, env):
        if isinstance(t, ast.Name):
            return t.id
        p = self.path(t)
        if p and p[0] in env and env[p[0]][0] in ("struct", "node"):
            return f"{p[0]}.{p[1]}"
        return None

    def fail(self, env, exn):
        self.raises += 1
        if self.mode == "pure":
            return "None"
        if self.depth:
            self.refuse(exn, "an operation that can raise inside a branch of the coroutine")
        return f'(eff, WnRaised "{exn}"%string, {env["network_info"][1]}, node_ieee)'

    def do_assign(self, s, env, go):
        t, v = s.targets[0], s.value
        src = ast.unparse(s)
        # x = self._ezsp
        if isinstance(t, ast.Name) and ast.unparse(v) == "self._ezsp" and "self" in env:
            env = dict(env)
            env[t.id] = ("ezsp",)
            return go(env)
        # stack_specific = network_info.stack_specific.get("ezsp", {})
        if isinstance(t, ast.Name) and _dump(ast.unparse(v)) == _dump("network_info.stack_specific.get('ezsp', {})") \
                and env.get("network_info", (None,))[0] == "rec":
            env = dict(env)
            env[t.id] = ("ss", True)
            return go(env)
        # (x,) = await ezsp.cmd(..)
        if isinstance(v, ast.Await):
            return self.do_await(v.value, t, env, go, s)
        # network_info.stack_specific.setdefault("ezsp", {})["hashed_tclk"] = os.urandom(16).hex()
        if isinstance(t, ast.Subscript):
            import os as _os
            want_t = "network_info.stack_specific.setdefault('ezsp', {})['hashed_tclk']"
            ok = _dump(ast.unparse(t)) == _dump(want_t) and env.get("network_info", (None,))[0] == "rec" and self.mode == "script"
            ok = ok and isinstance(v, ast.Call) and isinstance(v.func, ast.Attribute) and v.func.attr == "hex" and not v.args and not v.keywords
            inner = v.func.value if ok else None
            ok = ok and isinstance(inner, ast.Call) and _resolve(self.ns, inner.func) is _os.urandom and len(inner.args) == 1 \
                and isinstance(inner.args[0], ast.Constant) and inner.args[0].value == 16 and not inner.keywords
            if not ok:
                self.refuse(s, "subscript assignment")
            self.note("os.urandom(16).hex() is the argument urandom (the bytes the hex text denotes)")
            env = {k2: (("ss", False) if b[0] == "ss" else b) for k2, b in env.items() if not k2.startswith("\0")} | \
                  {k2: b for k2, b in env.items() if k2.startswith("\0")}
            ni = env["network_info"][1]
            return f"let {ni} := ni_set_hashed_tclk {ni} (Some urandom) in\n" + go(self.touch(env, "network_info"))
        # a, _ = t.KeyData.deserialize(bytes.fromhex(network_info.stack_specific["ezsp"]["hashed_tclk"]))
        if isinstance(t, ast.Tuple):
            if len(t.elts) == 2 and isinstance(t.elts[1], ast.Name) and t.elts[1].id == "_" and isinstance(v, ast.Call) and len(v.args) == 1 \
                    and not v.keywords and isinstance(v.func, ast.Attribute) and v.func.attr == "deserialize":
                cls = _resolve(self.ns, v.func.value)
                a = v.args[0]
                if isinstance(cls, type) and cls.__name__ == "KeyData" and isinstance(a, ast.Call) and ast.unparse(a.func) == "bytes.fromhex" \
                        and len(a.args) == 1 and not a.keywords \
                        and _dump(ast.unparse(a.args[0])) == _dump("network_info.stack_specific['ezsp']['hashed_tclk']") \
                        and env.get("network_info", (None,))[0] == "rec":
                    key = self.target_key(t.elts[0], env)
                    if key is None:
                        self.refuse(s, "target")
                    fty = self.field_type(key, env, t.elts[0])
                    if fty != "bytes":
                        self.refuse(s, "a key stored into a field that is not key data")
                    self.note("network_info.stack_specific['ezsp']['hashed_tclk'] raises KeyError when absent (None)")
                    ni = env["network_info"][1]
                    bad = self.fail(env, "KeyError")
                    return (f"match hashed_tclk {ni} with\n| None => {bad}\n| Some hex_v =>\n"
                            f"let {self.coqvar(key)} := py_key_of_hex hex_v in\n" + go(self.bind(env, key, "bytes")) + "\nend")
            self.refuse(s, "tuple assignment")
        # x = <Struct>()
        if isinstance(t, ast.Name) and isinstance(v, ast.Call) and not v.args and not v.keywords:
            cls = _resolve(self.ns, v.func)
            if isinstance(cls, type) and cls.__name__ in NI_STRUCTS:
                return self.new_struct(t.id, cls, env, go)
        # x = {k: network_info.nwk_addresses[k] for k in network_info.children if k in network_info.nwk_addresses}
        if isinstance(t, ast.Name) and isinstance(v, ast.DictComp):
            return self.children_comp(t.id, v, env, go, s)
        # x = util.zha_security(network_info=.., use_hashed_tclk=..)
        if isinstance(t, ast.Name) and isinstance(v, ast.Call) and self.mode == "script":
            import bellows.zigbee.util as U
            if _resolve(self.ns, v.func) is U.zha_security:
                kw = {k.arg: k.value for k in v.keywords}
                if v.args or set(kw) != {"network_info", "use_hashed_tclk"}:
                    self.refuse(s, "arguments of zha_security")
                b = env.get(getattr(kw["network_info"], "id", None))
                if not b or b[0] != "rec" or b[2] != "netinfo":
                    self.refuse(s, "network_info argument")
                u, ty = self.ex(kw["use_hashed_tclk"], env)
                if ty != "bool":
                    self.refuse(s, "use_hashed_tclk argument")
                bad = self.fail(env, "KeyError")
                return (f"match py_zha_security {b[1]} {u} with\n| None => {bad}\n| Some {t.id} =>\n" + go(self.bind(env, t.id, "sec")) + "\nend")
        # plain value / struct field / record field
        key = self.target_key(t, env)
        if key is not None:
            p = self.path(t)
            if p and env[p[0]][0] == "struct":
                _, sname, left_out = env[p[0]]
                if p[1] in left_out:
                    self.pure(v, env)
                    self.note(f"{p[0]}.{p[1]} = {ast.unparse(v)} (a struct field that is not part of the model's record)")
                    return go(env)
            c, ty = self.ex(v, env)
            fty = self.field_type(key, env, t) or ty
            c = self.coerce(c, ty, fty, s)
            if fty not in ("N", "bool", "bytes", "eui", "optN", "optbytes", "keys", "kids", "sec"):
                self.refuse(s, f"a local of type {fty}")
            return f"let {self.coqvar(key)} := {c} in\n" + go(self.bind(env, key, fty))
        p = self.path(t)
        if p and p[0] in env and env[p[0]][0] == "rec":
            st = NI_REC_SETTERS.get(env[p[0]][2], {}).get(p[1])
            if st is None or self.mode != "script":
                self.refuse(s, "assignment to an attribute of the argument")
            c, ty = self.ex(v, env)
            c = self.coerce(c, ty, st[1], s)
            rec = env[p[0]][1]
            return f"let {rec} := {st[0]} {rec} {c} in\n" + go(self.touch(env, p[0]))
        self.refuse(s, "assignment")

    def field_type(self, key, env, node):
        if "." not in key:
            return None
        base, attr = key.split(".", 1)
        b = env[base]
        if b[0] == "node":
            if attr != "ieee":
                self.refuse(node, "attribute of node_info")
            return "eui"
        f = NI_STRUCTS[b[1]][1].get(attr)
        if f is None:
            self.refuse(node, f"field {attr} of {b[1]} is not modelled")
        return f[1]

    def new_struct(self, name, cls, env, go):
        sname = cls.__name__
        rec, fields, left_out = NI_STRUCTS[sname]
        if sname == "Key":
            import dataclasses
            import zigpy.state
            if cls is not zigpy.state.Key or [f.name for f in dataclasses.fields(cls)] != ["key", "tx_counter", "rx_counter", "seq", "partner_ieee"]:
                raise GenError(self.where, f"zigpy.state.Key has the fields {[f.name for f in dataclasses.fields(cls)]}")
            d = cls()
            init = {"key": (_ni_blist(d.key.serialize()), "bytes"), "tx_counter": (str(int(d.tx_counter)), "N"),
                    "rx_counter": (str(int(d.rx_counter)), "N"), "seq": (str(int(d.seq)), "N"),
                    "partner_ieee": (_ni_blist(d.partner_ieee.serialize()), "bytes")}
            self.note("zigpy.state.Key() starts from the dataclass defaults of the live class")
        else:
            live = [f.name for f in cls.fields]
            if sorted(live) != sorted(list(fields) + list(left_out)):
                raise GenError(self.where, f"{sname} has the fields {live}, expected {sorted(list(fields) + list(left_out))}")
            # an attribute of a zigpy Struct that was never assigned reads as None
            init = {f: ("(@None N)" if fty == "optN" else "(@None bytes)", fty) for f, (_, fty) in fields.items() if fty.startswith("opt")}
        env = dict(env)
        for k2 in [k2 for k2 in env if k2.startswith(name + ".")]:
            del env[k2]
        env[name] = ("struct", sname, left_out)
        out = ""
        for f, (c, ty) in init.items():
            fty = fields[f][1]
            out += f"let {self.coqvar(name + '.' + f)} := {self.coerce(c, ty, fty, f)} in\n"
            env = self.bind(env, f"{name}.{f}", fty)
        return out + go(env)

    def struct_record(self, name, env, node):
        sname = env[name][1]
        rec, fields, _ = NI_STRUCTS[sname]
        items = []
        for f, (rf, fty) in fields.items():
            key = f"{name}.{f}"
            if key not in env:
                self.refuse(node, f"{sname}.{f} is not assigned on every path")
            items.append(f"{rf} := {env[key][1]}")
        return "{| " + "; ".join(items) + " |}", rec

    def ret(self, v, env):
        if isinstance(v, ast.Name) and env.get(v.id, (None,))[0] == "struct":
            rec, ty = self.struct_record(v.id, env, v)
            self.ret_type = ty
            return f"Some {rec}" if self.partial else rec
        self.refuse(v, "return value")

    def children_comp(self, name, v, env, go, s):
        g = v.generators
        ok = len(g) == 1 and isinstance(g[0].target, ast.Name) and not g[0].is_async and isinstance(v.key, ast.Name) and v.key.id == g[0].target.id
        if ok:
            kname = g[0].target.id
            ok = (ast.unparse(g[0].iter) == "network_info.children" and env.get("network_info", (None,))[0] == "rec"
                  and _dump(ast.unparse(v.value)) == _dump(f"network_info.nwk_addresses[{kname}]"))
        if not ok:
            self.refuse(s, "dict comprehension")
        tests = [ast.unparse(i) for i in g[0].ifs]
        if tests != [f"{kname} in network_info.nwk_addresses"]:
            self.refuse(s, "the comprehension reads nwk_addresses[k] (KeyError when absent) without the filter `k in nwk_addresses`")
        ni = env["network_info"][1]
        self.note("a child whose address occurs twice in network_info.children gives one dict entry (children are taken to be distinct)")
        return (f"let {name} := flat_map (fun {kname} => if py_in_nwk_addresses {kname} then\n"
                f"    match py_nwk_address {kname} with Some nwk_v => [(py_child_ieee {kname}, nwk_v)] | None => [] end else []) (children {ni}) in\n"
                + go(self.bind(env, name, "kids")))

    # ---- if ------------------------------------------------------------------------------------------------------------
    def do_if(self, s, env, go):
        test = s.test
        pre = ""
        # `x is not None` / `x is None` on an optional attribute: a match that names the value
        opt = None
        if isinstance(test, ast.Compare) and len(test.ops) == 1 and isinstance(test.ops[0], (ast.Is, ast.IsNot)) \
                and isinstance(test.comparators[0], ast.Constant) and test.comparators[0].value is None:
            c, ty = self.ex(test.left, env)
            if ty not in ("optN", "optbytes"):
                self.refuse(test, f"`is None` on a value of type {ty}")
            opt = (c, ty[3:], ast.unparse(test.left), isinstance(test.ops[0], ast.IsNot))
        else:
            aw, neg = test, False
            if isinstance(aw, ast.UnaryOp) and isinstance(aw.op, ast.Not) and isinstance(aw.operand, ast.Await):
                aw, neg = aw.operand, True
            if isinstance(aw, ast.Await):
                if self.mode != "script":
                    self.refuse(test)
                call = aw.value
                a = self.ezsp_attr(call.func, env) if isinstance(call, ast.Call) else None
                if a not in NI_ORACLES or call.args or call.keywords:
                    self.refuse(test, "an awaited test other than the two EUI64 capability questions")
                step, oracle = NI_ORACLES[a]
                pre = f"let eff := eff ++ [{step}] in\n"
                env = self.touch(env, "eff")
                cond = f"(negb {oracle})" if neg else oracle
            else:
                for n in ast.walk(test):
                    if isinstance(n, ast.Await):
                        self.refuse(test, "an await inside a compound test (the step would be conditional on short-circuiting)")
                cond = self.truth(test, env)

        def branch(body, extra, tail):
            e0 = dict(env)
            e0["\0assigned"] = ()
            e0.update(extra)
            self.depth += 1
            try:
                got = {}

                def kk(e1):
                    got["env"] = e1
                    return tail(e1) if tail else "tt"
                txt = self.seq(list(body), e0, kk)
            finally:
                self.depth -= 1
            return txt, got["env"]

        some_extra = {}
        if opt:
            vname = _ni_ident(opt[2]) + "_v"
            some_extra = {"=" + opt[2]: ("val", vname, opt[1])}
        then_extra, else_extra = (some_extra, {}) if (not opt or opt[3]) else ({}, some_extra)
        r0 = self.raises
        _, e1 = branch(s.body, then_extra, None)
        _, e2 = branch(s.orelse, else_extra, None)
        raising = self.raises > r0
        self.raises = r0
        # joined environment and the variables handed on
        keys = []
        for e in (e1, e2):
            for k2 in e["\0assigned"]:
                if k2 not in keys:
                    keys.append(k2)
        joined = {}
        for k2 in set(e1) | set(e2):
            if k2.startswith("\0") or k2.startswith("="):
                continue
            if k2 in e1 and k2 in e2 and e1[k2] == e2[k2]:
                joined[k2] = e1[k2]
            elif k2 in e1 and k2 in e2 and e1[k2][0] == "ss" and e2[k2][0] == "ss":
                joined[k2] = ("ss", e1[k2][1] and e2[k2][1])
        keys = [k2 for k2 in keys if k2 == "eff" or k2 in joined]
        joined["\0assigned"] = env.get("\0assigned", ())
        for k2 in keys:
            joined = self.touch(joined, k2)
        if not keys:
            if raising:
                self.refuse(s, "a branch that can raise but assigns nothing")
            if opt is None:
                pass            # only log calls inside: the test has been translated, i.e. it is pure
            self.note(f"`if {ast.unparse(test)[:80]}`: nothing but log calls inside, dropped")
            return pre + go(joined)
        tup = self.tuple_of(joined, keys)
        wrap = (lambda e: f"Some {tup}") if raising else (lambda e: tup)
        t1, _ = branch(s.body, then_extra, wrap)
        t2, _ = branch(s.orelse, else_extra, wrap)
        if opt:
            some_b, none_b = (t1, t2) if opt[3] else (t2, t1)
            head = f"match {opt[0]} with\n| Some {vname} =>\n{textwrap.indent(some_b, '    ')}\n| None =>\n{textwrap.indent(none_b, '    ')}\nend"
        else:
            head = f"if {cond} then\n{textwrap.indent(t1, '    ')}\n  else\n{textwrap.indent(t2, '    ')}"
        pat = tup if len(keys) == 1 else "'" + tup
        if raising:
            if self.mode != "pure":
                self.refuse(s, "an operation that can raise inside a branch of the coroutine")
            return (pre + f"match (\n  {head})\nwith\n| None => None\n| Some {tup} =>\n" + go(joined) + "\nend")
        return pre + f"let {pat} :=\n  {head} in\n" + go(joined)

    # ---- awaits of the coroutine -----------------------------------------------------------------------------------------
    def do_await(self, call, target, env, go, s):
        if self.mode != "script" or not isinstance(call, ast.Call):
            self.refuse(s, "await")
        f = ast.unparse(call.func)
        kw = {k.arg: k.value for k in call.keywords}
        if None in kw:
            self.refuse(s, "** arguments")

        def step(term, env2=None):
            return f"let eff := eff ++ [{term}] in\n" + go(self.touch(env2 or env, "eff"))

        def no_target():
            if target is not None:
                self.refuse(s, "the result of this await is not modelled")
        own = {"self.reset_network_info": "AResetNetworkInfo", "self._reset": "AReset", "self._ensure_network_running": "AEnsureRunning"}
        if f in own and "self" in env:
            no_target()
            if call.args or kw:
                self.refuse(s, "arguments")
            return step(own[f])
        a = self.ezsp_attr(call.func, env)
        if a is None:
            self.refuse(s, "await of something other than a method of self / the EZSP object")
        if a == "getEui64":
            if call.args or kw or not (isinstance(target, ast.Tuple) and len(target.elts) == 1 and isinstance(target.elts[0], ast.Name)):
                self.refuse(s, "getEui64")
            name = target.elts[0].id
            return f"let eff := eff ++ [AGetEui64] in\nlet {name} := Some ncp_eui64 in\n" + go(self.touch(self.bind(env, name, "eui"), "eff"))
        if a == "write_custom_eui64":
            no_target()
            if len(call.args) != 1 or set(kw) - {"burn_into_userdata"}:
                self.refuse(s, "arguments of write_custom_eui64")
            c, ty = self.ex(call.args[0], env)
            burn = "false"
            if "burn_into_userdata" in kw:
                burn, bty = self.ex(kw["burn_into_userdata"], env)
                if bty != "bool":
                    self.refuse(s, "burn_into_userdata")
            else:
                import bellows.ezsp
                import inspect as _i
                if _i.signature(bellows.ezsp.EZSP.write_custom_eui64).parameters["burn_into_userdata"].default is not False:
                    self.refuse(s, "default of burn_into_userdata")
            if ty != "eui":
                self.refuse(s, "address argument")
            return step(f"AWriteCustomEui64 {c} {burn}")
        if a in ("write_nwk_frame_counter", "write_aps_frame_counter"):
            no_target()
            if len(call.args) != 1 or kw:
                self.refuse(s, "arguments")
            c, ty = self.ex(call.args[0], env)
            if ty != "N":
                self.refuse(s, "argument")
            return step(("AWriteNwkFc " if a == "write_nwk_frame_counter" else "AWriteApsFc ") + c)
        if a == "setInitialSecurityState":
            if call.args or set(kw) != {"state"}:
                self.refuse(s, "arguments of setInitialSecurityState")
            c, ty = self.ex(kw["state"], env)
            if ty != "sec":
                self.refuse(s, "state argument")
            if target is not None and not (isinstance(target, ast.Tuple) and all(isinstance(x, ast.Name) for x in target.elts)):
                self.refuse(s, "target")
            env2 = dict(env)
            for x in (target.elts if target is not None else ()):
                env2[x.id] = ("answer",)
            return step(f"ASetInitialSecurityState {c}", env2)
        if a in ("write_link_keys", "write_child_data"):
            no_target()
            if len(call.args) != 1 or kw:
                self.refuse(s, "arguments")
            c, ty = self.ex(call.args[0], env)
            if ty != ("keys" if a == "write_link_keys" else "kids"):
                self.refuse(s, "argument")
            return step(("AWriteLinkKeys " if a == "write_link_keys" else "AWriteChildData ") + c)
        if a == "formNetwork":
            no_target()
            if call.args or set(kw) != {"parameters"} or not isinstance(kw["parameters"], ast.Name) \
                    or env.get(kw["parameters"].id, (None,))[0] != "struct" or env[kw["parameters"].id][1] != "EmberNetworkParameters":
                self.refuse(s, "arguments of formNetwork")
            rec, _ = self.struct_record(kw["parameters"].id, env, s)
            return step(f"AFormNetwork {rec}")
        self.refuse(s, "await with no modelled step")


def _ni_ident(src: str) -> str:
    return __import__("re").sub(r"\W+", "_", src).strip("_")


# ---- write accessors of the protocol handlers: lists of commands -------------------------------------------------------
class NiAccTr:
    def __init__(self, where, ns):
        self.where, self.ns = where, ns
        self.tr = NiTr(where, ns, "pure")

    def refuse(self, node, why="unsupported construct"):
        src = ast.unparse(node) if isinstance(node, ast.AST) else str(node)
        raise GenError(self.where, f"{why}: `{src[:120]}`")

    def body(self, stmts, env):
        """a Gallina list expression: the commands of the statements, in order"""
        parts = []
        for s in ThTr.clean(stmts):
            if isinstance(s, ast.Assert):
                self.tr.pure(s.test, env)
                parts.append("[CGuard]")
                continue
            if isinstance(s, ast.If):
                # only `if <pure test on an answer>: LOGGER...`
                if ThTr.clean(s.body) or ThTr.clean(s.orelse):
                    self.refuse(s, "a branch with statements")
                self.tr.pure(s.test, env)
                continue
            if isinstance(s, ast.For):
                parts.append(self.loop(s, env))
                continue
            call = None
            if isinstance(s, ast.Expr) and isinstance(s.value, ast.Await):
                call = s.value.value
            elif isinstance(s, ast.Assign) and len(s.targets) == 1 and isinstance(s.value, ast.Await) and isinstance(s.targets[0], ast.Tuple) \
                    and all(isinstance(x, ast.Name) for x in s.targets[0].elts):
                call = s.value.value
                env = dict(env)
                for x in s.targets[0].elts:
                    env[x.id] = ("answer",)
            if call is None:
                self.refuse(s)
            parts.append("[" + self.command(call, env) + "]")
        if not parts:
            return "[]"
        return " ++ ".join(parts)

    def command(self, call, env):
        if not (isinstance(call, ast.Call) and isinstance(call.func, ast.Attribute) and isinstance(call.func.value, ast.Name) and call.func.value.id == "self"):
            self.refuse(call, "await of something other than a command of self")
        name = call.func.attr
        kw = {k.arg: k.value for k in call.keywords}
        if call.args or None in kw:
            self.refuse(call, "positional arguments")

        def arg(k, ty):
            c, t = self.tr.ex(kw[k], env)
            if t != ty:
                self.refuse(call, f"{k}= of type {t}")
            return c
        if name == "networkState" and not kw:
            return 'CQuery "networkState"%string'
        if name == "setValue" and set(kw) == {"valueId", "value"}:
            v = kw["value"]
            # t.uint32_t(x).serialize()
            ok = isinstance(v, ast.Call) and isinstance(v.func, ast.Attribute) and v.func.attr == "serialize" and not v.args and not v.keywords \
                and isinstance(v.func.value, ast.Call) and getattr(_resolve(self.ns, v.func.value.func), "__name__", "") == "uint32_t" \
                and len(v.func.value.args) == 1 and not v.func.value.keywords
            if not ok:
                self.refuse(call, "value= is not t.uint32_t(<number>).serialize()")
            c, t = self.tr.ex(v.func.value.args[0], env)
            if t != "N":
                self.refuse(call, "value")
            return f"CSetValue {arg('valueId', 'N')} {c}"
        if name == "addOrUpdateKeyTableEntry" and set(kw) == {"address", "linkKey", "keyData"}:
            return f"CAddOrUpdateKeyTableEntry {arg('address', 'bytes')} {arg('linkKey', 'bool')} {arg('keyData', 'bytes')}"
        if name == "importLinkKey" and set(kw) == {"index", "address", "key"}:
            return f"CImportLinkKey {arg('index', 'N')} {arg('address', 'bytes')} {arg('key', 'bytes')}"
        if name == "setChildData" and set(kw) == {"index", "child_data"}:
            cd = kw["child_data"]
            cls = _resolve(self.ns, cd.func) if isinstance(cd, ast.Call) else None
            if not (isinstance(cls, type) and cls.__name__.startswith("EmberChildData")) or cd.args:
                self.refuse(call, "child_data= is not an EmberChildData..(..) construction")
            ckw = {k.arg: k.value for k in cd.keywords}
            if not {"eui64", "id"} <= set(ckw):
                self.refuse(call, "child data without eui64= / id=")
            rest = []
            for k2, v2 in ckw.items():
                if k2 in ("eui64", "id"):
                    continue
                self.tr.pure(v2, env)
                rest.append(f"{k2}={ast.unparse(v2)}")
            self.tr.note(f"{cls.__name__}: fields other than eui64 / id are not part of the model ({', '.join(rest)})")
            e, te = self.tr.ex(ckw["eui64"], env)
            i, ti = self.tr.ex(ckw["id"], env)
            if te != "bytes" or ti != "N":
                self.refuse(call, "child data")
            return f"CSetChildData {arg('index', 'N')} {e} {i}"
        self.refuse(call, "a command this translator has no constructor for")

    def loop(self, s, env):
        if s.orelse:
            self.refuse(s, "for / else")
        it, tg = s.iter, s.target
        env = dict(env)

        def elem(name, kind):
            if kind == "keys":
                env[name] = ("rec", name, "linkkey")
            else:
                self.refuse(s, "loop variable")
        src_it = ast.unparse(it)
        # for key in keys
        if isinstance(it, ast.Name) and env.get(it.id, (None,))[:1] == ("val",) and env[it.id][2] == "keys" and isinstance(tg, ast.Name):
            elem(tg.id, "keys")
            return f"flat_map (fun {tg.id} => {self.body(s.body, env)}) {env[it.id][1]}"
        # for index, key in enumerate(keys)
        if isinstance(it, ast.Call) and ast.unparse(it.func) == "enumerate" and len(it.args) == 1 and not it.keywords and isinstance(tg, ast.Tuple) \
                and len(tg.elts) == 2 and isinstance(tg.elts[0], ast.Name):
            idx, a = tg.elts[0].id, it.args[0]
            env[idx] = ("val", idx, "N")
            if isinstance(a, ast.Name) and env.get(a.id, (None,))[:1] == ("val",) and env[a.id][2] == "keys" and isinstance(tg.elts[1], ast.Name):
                elem(tg.elts[1].id, "keys")
                return f"flat_map (fun '({idx}, {tg.elts[1].id}) => {self.body(s.body, env)}) (enumerate 0 {env[a.id][1]})"
            # for index, (eui64, nwk) in enumerate(children.items())
            if isinstance(a, ast.Call) and isinstance(a.func, ast.Attribute) and a.func.attr == "items" and not a.args and not a.keywords \
                    and isinstance(a.func.value, ast.Name) and env.get(a.func.value.id, (None,))[:1] == ("val",) and env[a.func.value.id][2] == "kids" \
                    and isinstance(tg.elts[1], ast.Tuple) and len(tg.elts[1].elts) == 2 and all(isinstance(x, ast.Name) for x in tg.elts[1].elts):
                k2, v2 = (x.id for x in tg.elts[1].elts)
                env[k2] = ("val", k2, "bytes")
                env[v2] = ("val", v2, "N")
                return f"flat_map (fun '({idx}, ({k2}, {v2})) => {self.body(s.body, env)}) (enumerate 0 {env[a.func.value.id][1]})"
        self.refuse(s, f"loop over {src_it}")


NI_ACCESSORS = (("write_nwk_frame_counter", "frame_counter", "N", "N"), ("write_aps_frame_counter", "frame_counter", "N", "N"),
                ("write_link_keys", "keys", "keys", "list (bytes * bytes)"), ("write_child_data", "children", "kids", "list (bytes * N)"))


def _ni_calls(C, name, ns):
    """a straight-line coroutine of the application as the list of the calls it makes"""
    node = _StripLogs().visit(_fn_ast_async(C.__dict__[name]))
    where = f"ControllerApplication.{name} (source)"
    if [a.arg for a in node.args.args] != ["self"] or node.args.kwonlyargs or node.args.vararg or node.args.kwarg:
        raise GenError(where, "parameters")

    def one(s):
        v = s.value if isinstance(s, ast.Expr) else None
        if isinstance(v, ast.Await):
            v = v.value
        if isinstance(v, ast.Call) and isinstance(v.func, ast.Attribute):
            tgt = ast.unparse(v.func.value)
            if tgt in ("self", "self._ezsp") and '"' not in v.func.attr:
                for a in list(v.args) + [k.value for k in v.keywords]:
                    for n in ast.walk(a):
                        if isinstance(n, (ast.Await, ast.Call)):
                            raise GenError(where, f"a call inside an argument: `{ast.unparse(s)[:100]}`")
                return f'RCall "{tgt}"%string "{v.func.attr}"%string'
        if isinstance(s, ast.Try) and len(s.handlers) == 1 and not s.finalbody and s.handlers[0].name is None and s.handlers[0].type is not None \
                and not ThTr.clean(s.handlers[0].body):
            exn = _resolve(ns, s.handlers[0].type)
            if not (isinstance(exn, type) and issubclass(exn, BaseException)):
                raise GenError(where, f"except clause `{ast.unparse(s.handlers[0].type)}`")
            return f'RTryElse {lst(s.body)} "{exn.__name__}"%string {lst(s.orelse)}'
        raise GenError(where, f"unsupported construct: `{ast.unparse(s)[:100]}`")

    def lst(body):
        return "[" + "; ".join(one(s) for s in ThTr.clean(body)) + "]"
    return lst(node.body)


def gen_netinfo_fn() -> str:
    import dataclasses  # noqa: F401
    import bellows.ezsp as E
    import bellows.types as bt
    import bellows.zigbee.application as A
    import bellows.zigbee.util as U
    import zigpy.types as zt
    out = [NETINFO_PRELUDE]
    if bt.EUI64 is not zt.EUI64 or bt.KeyData is not zt.KeyData:
        raise GenError("bellows.types", "EUI64 / KeyData are not zigpy's")

    def comment(tr):
        return "".join(f"   - {_cmt(n)}\n" for n in tr.notes)

    # ---- util.zha_security ---------------------------------------------------------------------------------------------
    ns = vars(U)
    node = _StripLogs().visit(_fn_ast(U.zha_security))
    a = node.args
    if a.args or a.vararg or a.kwarg or [x.arg for x in a.kwonlyargs] != ["network_info", "use_hashed_tclk"] or any(d is not None for d in a.kw_defaults):
        raise GenError("util.zha_security", "parameters")
    for attempt in (False, True):
        tr = NiTr("util.zha_security (source)", ns, "pure")
        tr.partial = attempt
        env = {"network_info": ("rec", "network_info", "netinfo"), "use_hashed_tclk": ("val", "use_hashed_tclk", "bool")}
        term = tr.seq(list(node.body), env, lambda e: tr.refuse("zha_security", "control reaches the end without a return"))
        if (tr.raises > 0) == attempt:
            break
    if tr.ret_type != "secstate":
        raise GenError("util.zha_security", "does not return the security state")
    out.append("(* from the source of util.zha_security; None: the function raises (KeyError)\n" + comment(tr) + "*)\n"
               f"Definition py_zha_security (network_info : netinfo) (use_hashed_tclk : bool) : {'option secstate' if tr.partial else 'secstate'} :=\n"
               + textwrap.indent(term, "  ") + ".\n\n")
    zha_partial = tr.partial

    # ---- the two key conversions ---------------------------------------------------------------------------------------
    for fname, pname, rect, coqt, want in (("ezsp_key_to_zigpy_key", "key", "ekey", "py_ezsp_key", "py_zigpy_key"),
                                           ("zigpy_key_to_ezsp_key", "zigpy_key", "zkey", "py_zigpy_key", "py_ezsp_key")):
        node = _StripLogs().visit(_fn_ast(getattr(U, fname)))
        a = node.args
        if [x.arg for x in a.args] != [pname] or a.vararg or a.kwarg or a.kwonlyargs:
            raise GenError(f"util.{fname}", "parameters")
        tr = NiTr(f"util.{fname} (source)", ns, "pure")
        tr.partial = False
        term = tr.seq(list(node.body), {pname: ("rec", pname, rect)}, lambda e: tr.refuse(fname, "control reaches the end without a return"))
        if tr.raises or tr.ret_type != want:
            raise GenError(f"util.{fname}", "raising operation / result type")
        out.append(f"(* from the source of util.{fname}\n" + comment(tr) + "*)\n"
                   f"Definition py_{fname} ({pname} : {coqt}) : {want} :=\n" + textwrap.indent(term, "  ") + ".\n\n")

    # ---- write accessors, per class; which class serves which protocol version --------------------------------------------
    out.append("(* value ids of the two frame counters, from the live enum *)\n"
               f"Definition VALUE_NWK_FRAME_COUNTER : N := {int(bt.EzspValueId.VALUE_NWK_FRAME_COUNTER)}.\n"
               f"Definition VALUE_APS_FRAME_COUNTER : N := {int(bt.EzspValueId.VALUE_APS_FRAME_COUNTER)}.\n\n")
    versions = sorted(E.EZSP._BY_VERSION)
    for v in versions:
        if E.EZSP._BY_VERSION[v].VERSION != v:
            raise GenError("EZSP._BY_VERSION", f"key {v} maps to a class of VERSION {E.EZSP._BY_VERSION[v].VERSION}")
    done = {}
    for acc, pname, pty, coqt in NI_ACCESSORS:
        table = []
        for v in versions:
            cls = E.EZSP._BY_VERSION[v]
            owner = next(c for c in cls.__mro__ if acc in c.__dict__)
            fn = owner.__dict__[acc]
            if getattr(fn, "__isabstractmethod__", False):
                raise GenError(f"{cls.__name__}.{acc}", "abstract")
            cname = f"py_{owner.__name__}_{acc}"
            if (owner, acc) not in done:
                node = _StripLogs().visit(_fn_ast_async(fn))
                ar = node.args
                if [x.arg for x in ar.args] != ["self", pname] or ar.vararg or ar.kwarg or ar.kwonlyargs:
                    raise GenError(f"{owner.__name__}.{acc}", "parameters")
                at = NiAccTr(f"{owner.__name__}.{acc} (source)", vars(inspect.getmodule(owner)))
                term = at.body(node.body, {pname: ("val", _ni_name(pname), pty)})
                done[(owner, acc)] = cname
                out.append(f"(* from the source of {owner.__name__}.{acc}\n" + comment(at.tr) + "*)\n"
                           f"Definition {cname} ({_ni_name(pname)} : {coqt}) : list py_cmd :=\n  {term}.\n\n")
            table.append((v, cname))
        body = "".join(f"if v =? {v} then {c} {_ni_name(pname)} else " for v, c in table) + "[]"
        out.append(f"(* <handler of protocol version v>.{acc}: the method the class registered for v in EZSP._BY_VERSION inherits *)\n"
                   f"Definition py_{acc} (v : N) ({_ni_name(pname)} : {coqt}) : list py_cmd :=\n  {body}.\n\n")
    out.append("Definition PY_VERSIONS : list N := [" + "; ".join(str(v) for v in versions) + "].\n\n")

    # ---- write_network_info --------------------------------------------------------------------------------------------
    C = A.ControllerApplication
    ns = vars(A)
    node = _StripLogs().visit(_fn_ast_async(C.__dict__["write_network_info"]))
    a = node.args
    if [x.arg for x in a.args] != ["self"] or a.vararg or a.kwarg or [x.arg for x in a.kwonlyargs] != ["network_info", "node_info"] \
            or any(d is not None for d in a.kw_defaults):
        raise GenError("ControllerApplication.write_network_info", "parameters")
    if not zha_partial:
        raise GenError("util.zha_security", "expected to be partial (KeyError on an absent hashed key); write_network_info matches on its result")
    # EZSP.ezsp_version is the version of the protocol handler in use (GenBringupFn translates the property); attributes
    # that are not commands are looked up on the handler
    tr = NiTr("ControllerApplication.write_network_info (source)", ns, "script")
    tr.partial = False
    env = {"self": ("self",), "network_info": ("rec", "network_info", "netinfo"), "node_info": ("node",),
           "node_info.ieee": ("val", "node_ieee", "eui")}
    term = tr.seq(list(node.body), env, lambda e: f"(eff, WnDone, {e['network_info'][1]}, node_ieee)")
    out.append("(* from the source of ControllerApplication.write_network_info.  Arguments: the protocol version in use, the two\n"
               "   arguments (node_info as its ieee), the address the NCP reports, the answers to the two capability questions, the\n"
               "   truth value of the other stack-specific keys, the 16 random bytes.  Result: the steps awaited in order, how the\n"
               "   coroutine ends, and the two argument objects as the caller finds them afterwards (they are updated in place)\n"
               + comment(tr) + "*)\n"
               "Definition py_write_network_info (ezsp_version : N) (network_info : netinfo) (node_ieee : py_eui) (ncp_eui64 : bytes)\n"
               "    (can_rewrite can_burn : bool) (stack_specific_flag : string -> bool) (urandom : bytes)\n"
               "  : list py_app_step * py_wn_outcome * netinfo * py_eui :=\n  let eff := @nil py_app_step in\n"
               + textwrap.indent(term, "  ") + ".\n\n")
    for name in ("_reset", "reset_network_info"):
        out.append(f"(* from the source of ControllerApplication.{name}: the calls it makes, in order *)\n"
                   f"Definition py_calls_{name.lstrip('_')} : list py_call :=\n  {_ni_calls(C, name, ns)}.\n\n")
    return "".join(out)




# ==================================================================================================
# Multicast.__init__ / _initialize / startup (bellows/multicast.py): the rest of the class next to McTr's subscribe /
# unsubscribe.  Coroutines with awaits inside `for` loops: every loop is a fold_left of one emitted step function over
# (state variables, Running | Raised); the NCP's answers are oracle arguments (None = the awaited command raised)
# ==================================================================================================
MI_METHODS = ("__init__", "_initialize", "startup", "subscribe", "unsubscribe")
MI_TYPES = {"subs": "list (N * N)", "avail": "list N", "k": "N", "ws": "list (N * N * N)"}
MI_ORACLES = {"cfg": "(cfg : N -> option (N * N))", "rd": "(rd : N -> option (N * (N * N)))", "o": "(o : N -> N * answer)"}
MI_ENTRY_FIELDS = {"multicastId": "id", "endpoint": "ep"}


class MiTr:
    """Statement translator in continuation style (the rest of a block is duplicated into both branches of an `if`).

    State variables: subs (self._multicast, association list multicastId -> index; the entry object stored next to the
    index is not represented), avail (self._available), and for a coroutine that awaits self.subscribe also k (number of
    subscribe calls made so far = argument of the oracle `o`) and ws (table writes issued, in order).
    Kinds of locals: "N" (a number), "entry" (a table entry read from the NCP: two variables <name>_id / <name>_ep),
    "ep" (an endpoint object, represented by the iteration order of its member_of), "coordinator" (the items of
    coordinator.endpoints in order: (endpoint id, endpoint))."""

    def __init__(self, where, stem, ns, statevars, callees):
        self.where, self.stem, self.ns, self.sv = where, stem, ns, list(statevars)
        self.callees = callees            # name of an awaited method of self -> oracles of its emitted function
        self.defs = []                    # emitted loop step functions, innermost first
        self.nloops = 0
        self.uses = [set()]               # oracles used, one set per enclosing loop body (innermost last)
        self.consts = {}
        self.skipped = []

    # ---- helpers
    def refuse(self, node, why="unsupported construct"):
        txt = ast.unparse(node) if isinstance(node, ast.AST) else str(node)
        raise GenError(self.where, f"{why}: `{txt[:100]}`")

    def use(self, oracle):
        for u in self.uses:
            u.add(oracle)

    def tuple_ty(self, ctx):
        return " * ".join([MI_TYPES[v] for v in self.sv] + ["py_ctl" if ctx == "loop" else "ret"])

    def leaf(self, ctx, what):
        """what: 'none' (return None / end of the coroutine), 'raise' (an awaited call raised), 'next' (end of a loop body)"""
        last = {("top", "none"): "py_none", ("top", "raise"): "RRaised", ("loop", "next"): "Running", ("loop", "raise"): "Raised"}[(ctx, what)]
        return "(" + ", ".join(self.sv + [last]) + ")"

    @staticmethod
    def is_self_attr(node, attr):
        return isinstance(node, ast.Attribute) and node.attr == attr and isinstance(node.value, ast.Name) and node.value.id == "self"

    def binders(self, name, kind):
        if kind == "N":
            return [(name, "N")]
        if kind == "entry":
            return [(f"{name}_{s}", "N") for s in MI_ENTRY_FIELDS.values()]
        if kind == "ep":
            return [(name, "list N")]
        if kind == "coordinator":
            return [(name, "list (N * list N)")]
        raise GenError(self.where, f"local `{name}` of kind {kind} cannot be passed into a loop body")

    # ---- expressions: (term, "N" | "bool")
    def expr(self, e, env):
        if isinstance(e, ast.Constant) and type(e.value) is int and e.value >= 0:
            return str(e.value), "N"
        if isinstance(e, ast.Name):
            if env.get(e.id) == "N":
                return e.id, "N"
            self.refuse(e, "name is not a number bound on every path to this point (loop-carried locals are not supported)")
        if isinstance(e, ast.Attribute) and isinstance(e.value, ast.Name) and env.get(e.value.id) == "entry":
            if e.attr not in MI_ENTRY_FIELDS:
                self.refuse(e, "field of the table entry")
            return f"{e.value.id}_{MI_ENTRY_FIELDS[e.attr]}", "N"
        if isinstance(e, ast.UnaryOp) and isinstance(e.op, ast.Not):
            return f"negb ({self.test(e.operand, env)})", "bool"
        if isinstance(e, ast.BoolOp):
            op = " && " if isinstance(e.op, ast.And) else " || "
            return op.join(f"({self.test(v, env)})" for v in e.values), "bool"
        if isinstance(e, ast.Compare):
            return self.compare(e, env), "bool"
        self.refuse(e, "expression")

    def test(self, e, env):
        term, ty = self.expr(e, env)
        return term if ty == "bool" else f"negb ({term} =? 0)"       # truth value of an int

    def compare(self, e, env):
        T = self.ns["t"]
        # t.sl_Status.from_ember_status(x) ==/!= t.sl_Status.OK  (from_ember_status itself is pinned: Status.normalise)
        if len(e.ops) == 1 and isinstance(e.left, ast.Call) and _resolve(self.ns, e.left.func) == T.sl_Status.from_ember_status:
            if len(e.left.args) != 1 or e.left.keywords or _resolve(self.ns, e.comparators[0]) is not T.sl_Status.OK \
                    or not isinstance(e.ops[0], (ast.Eq, ast.NotEq)):
                self.refuse(e, "status test")
            x, ty = self.expr(e.left.args[0], env)
            if ty != "N":
                self.refuse(e, "status test")
            return f"status_ok {x}" if isinstance(e.ops[0], ast.Eq) else f"negb (status_ok {x})"
        terms = []
        for v in [e.left] + list(e.comparators):
            x, ty = self.expr(v, env)
            if ty != "N":
                self.refuse(e, "comparison of non-numbers")
            terms.append(x if x.isalnum() or "_" in x and " " not in x else f"({x})")
        parts = []
        for a, op, b in zip(terms, e.ops, terms[1:]):
            m = {ast.Eq: f"{a} =? {b}", ast.NotEq: f"negb ({a} =? {b})", ast.Lt: f"{a} <? {b}", ast.LtE: f"{a} <=? {b}",
                 ast.Gt: f"{b} <? {a}", ast.GtE: f"{b} <=? {a}"}
            if type(op) not in m:
                self.refuse(e, "comparison operator")
            parts.append(m[type(op)])
        return parts[0] if len(parts) == 1 else " && ".join(f"({p})" for p in parts)

    def number(self, e, env):
        x, ty = self.expr(e, env)
        if ty != "N":
            self.refuse(e, "a number is expected")
        return x if " " not in x else f"({x})"

    # ---- awaited commands of self._ezsp
    def ezsp_call(self, value, name):
        if isinstance(value, ast.Await) and isinstance(value.value, ast.Call):
            c = value.value
            if isinstance(c.func, ast.Attribute) and c.func.attr == name and self.is_self_attr(c.func.value, "_ezsp") and not c.keywords and len(c.args) == 1:
                return c.args[0]
        return None

    def self_call(self, value):
        if isinstance(value, ast.Await) and isinstance(value.value, ast.Call):
            c = value.value
            if isinstance(c.func, ast.Attribute) and isinstance(c.func.value, ast.Name) and c.func.value.id == "self" and not c.keywords:
                return c.func.attr, c.args
        return None, None

    # ---- statements
    def stmts(self, body, env, ctx):
        if not body:
            return self.leaf(ctx, "next" if ctx == "loop" else "none")
        s, rest = body[0], list(body[1:])
        ind = lambda t, n=4: textwrap.indent(t, " " * n)
        if isinstance(s, ast.Pass):
            return self.stmts(rest, env, ctx)
        if isinstance(s, ast.Return):
            if ctx != "top":
                self.refuse(s, "return inside a loop")
            if s.value is not None and not (isinstance(s.value, ast.Constant) and s.value.value is None):
                self.refuse(s, "return value")
            return self.leaf(ctx, "none")
        if isinstance(s, ast.Continue):
            if ctx != "loop":
                self.refuse(s)
            return self.leaf(ctx, "next")
        if isinstance(s, ast.If):
            return (f"if {self.test(s.test, env)} then\n{ind(self.stmts(list(s.body) + rest, env, ctx), 2)}\nelse\n"
                    f"{ind(self.stmts(list(s.orelse) + rest, env, ctx), 2)}")
        if isinstance(s, ast.For):
            return self.loop(s, rest, env, ctx)
        if isinstance(s, ast.Assign) and len(s.targets) == 1:
            tgt, val = s.targets[0], s.value
            if self.is_self_attr(tgt, "_multicast"):
                if not (isinstance(val, ast.Dict) and not val.keys) and ast.unparse(val) != "dict()":
                    self.refuse(s, "self._multicast is an (initially empty) dict")
                return "let subs := [] in\n" + self.stmts(rest, env, ctx)
            if self.is_self_attr(tgt, "_available"):
                if ast.unparse(val) != "set()":
                    self.refuse(s, "self._available is an (initially empty) set")
                return "let avail := [] in\n" + self.stmts(rest, env, ctx)
            # self._multicast[<key>] = (<entry>, <index>)
            if isinstance(tgt, ast.Subscript) and self.is_self_attr(tgt.value, "_multicast"):
                if not (isinstance(val, ast.Tuple) and len(val.elts) == 2 and isinstance(val.elts[0], ast.Name)
                        and env.get(val.elts[0].id) == "entry"):
                    self.refuse(s, "the dict holds (entry read from the NCP, index)")
                return (f"let subs := dict_set {self.number(tgt.slice, env)} {self.number(val.elts[1], env)} subs in\n"
                        + self.stmts(rest, env, ctx))
            # status, size = await self._ezsp.getConfigurationValue(<member of EzspConfigId>)
            arg = self.ezsp_call(val, "getConfigurationValue")
            if arg is not None:
                names = self.pair(tgt, s)
                member = _resolve(self.ns, arg)
                if not isinstance(member, self.ns["t"].EzspConfigId):
                    self.refuse(arg, "configuration id")
                cname = "py_" + "_".join(ast.unparse(arg).split(".")[1:])
                self.consts[cname] = int(member)
                self.use("cfg")
                env2 = {**env, names[0]: "N", names[1]: "N"}
                return (f"match cfg {cname} with\n| None => {self.leaf(ctx, 'raise')}\n| Some ({names[0]}, {names[1]}) =>\n"
                        f"{ind(self.stmts(rest, env2, ctx))}\nend")
            # status, entry = await self._ezsp.getMulticastTableEntry(<index>)
            arg = self.ezsp_call(val, "getMulticastTableEntry")
            if arg is not None:
                names = self.pair(tgt, s)
                self.use("rd")
                env2 = {k: v for k, v in env.items() if k not in names}
                env2.update({names[0]: "N", names[1]: "entry"})
                fields = ", ".join(f"{names[1]}_{f}" for f in MI_ENTRY_FIELDS.values())
                return (f"match rd {self.number(arg, env)} with\n| None => {self.leaf(ctx, 'raise')}\n| Some ({names[0]}, ({fields})) =>\n"
                        f"{ind(self.stmts(rest, env2, ctx))}\nend")
            if isinstance(tgt, ast.Name) and tgt.id not in self.sv and tgt.id not in MI_ORACLES and not isinstance(val, ast.Await):
                x, ty = self.expr(val, env)
                if ty != "N":
                    self.refuse(s, "local of another type than a number")
                return f"let {tgt.id} := {x} in\n" + self.stmts(rest, {**env, tgt.id: "N"}, ctx)
            self.refuse(s, "assignment")
        if isinstance(s, ast.Expr):
            v = s.value
            # self._available.add(<index>)
            if isinstance(v, ast.Call) and isinstance(v.func, ast.Attribute) and v.func.attr == "add" and self.is_self_attr(v.func.value, "_available") \
                    and len(v.args) == 1 and not v.keywords:
                return f"let avail := set_add {self.number(v.args[0], env)} avail in\n" + self.stmts(rest, env, ctx)
            name, args = self.self_call(v)
            if name is not None and name in self.callees:
                for oname in self.callees[name]:
                    self.use(oname)
                if name == "_initialize" and not args:
                    return (f"let '(subs, avail, r) := py_initialize subs avail cfg rd in\nmatch r with\n| RRaised => {self.leaf(ctx, 'raise')}\n"
                            f"| RStatus _ =>\n{ind(self.stmts(rest, env, ctx))}\nend")
                if name == "subscribe" and len(args) == 1 and "k" in self.sv:
                    # the value the call returns is discarded; an exception leaves the coroutine (no try around it)
                    return (f"let '(choice, a) := o k in\n"
                            f"let '(subs, avail, r, w) := py_subscribe subs avail {self.number(args[0], env)} choice a in\n"
                            f"let k := k + 1 in\nlet ws := ws ++ py_opt_list w in\n"
                            f"match r with\n| RRaised => {self.leaf(ctx, 'raise')}\n| RStatus _ =>\n{ind(self.stmts(rest, env, ctx))}\nend")
            self.refuse(s)
        self.refuse(s)

    def pair(self, tgt, s):
        if not (isinstance(tgt, ast.Tuple) and len(tgt.elts) == 2 and all(isinstance(x, ast.Name) for x in tgt.elts)):
            self.refuse(s, "the answer is unpacked into two names")
        names = [x.id for x in tgt.elts]
        if names[0] == names[1] or any(n in self.sv or n in MI_ORACLES or n in ("st", "c", "r", "w", "a", "choice", "item") for n in names):
            self.refuse(s, "name clashes with a variable of the translation")
        return names

    # ---- for loops
    def loop(self, s, rest, env, ctx):
        if s.orelse:
            self.refuse(s, "for ... else")
        self.nloops += 1
        fname = f"{self.stem}_loop{self.nloops}"
        it = s.iter
        # what is iterated, and what the target binds
        if isinstance(it, ast.Call) and isinstance(it.func, ast.Name) and it.func.id == "range" and not it.keywords and len(it.args) in (1, 2):
            lo = "0" if len(it.args) == 1 else self.number(it.args[0], env)
            seq, elt_ty = f"py_range {lo} {self.number(it.args[-1], env)}", "N"
            if not isinstance(s.target, ast.Name):
                self.refuse(s.target, "loop target")
            elt, unpack, bound = s.target.id, "", {s.target.id: "N"}
        elif isinstance(it, ast.Call) and not it.args and not it.keywords and isinstance(it.func, ast.Attribute) and it.func.attr == "items" \
                and isinstance(it.func.value, ast.Attribute) and it.func.value.attr == "endpoints" \
                and isinstance(it.func.value.value, ast.Name) and env.get(it.func.value.value.id) == "coordinator":
            if not (isinstance(s.target, ast.Tuple) and len(s.target.elts) == 2 and all(isinstance(x, ast.Name) for x in s.target.elts)):
                self.refuse(s.target, "loop target over .items()")
            a, b = (x.id for x in s.target.elts)
            seq, elt_ty = it.func.value.value.id, "N * list N"
            elt, unpack, bound = "item", f"let '({a}, {b}) := item in\n", {a: "N", b: "ep"}
        elif isinstance(it, ast.Attribute) and it.attr == "member_of" and isinstance(it.value, ast.Name) and env.get(it.value.id) == "ep":
            if not isinstance(s.target, ast.Name):
                self.refuse(s.target, "loop target")
            seq, elt_ty = it.value.id, "N"
            elt, unpack, bound = s.target.id, "", {s.target.id: "N"}
        else:
            self.refuse(it, "iterable")
        for n in bound:
            if n in self.sv or n in MI_ORACLES or n in ("st", "c", "r", "w", "a", "choice", "item"):
                self.refuse(s.target, "name clashes with a variable of the translation")
        # locals of the enclosing scope: those the body (re)binds are not visible in it (no loop-carried locals), the others
        # are loop invariant and passed as parameters when the body mentions them
        stored = {n.id for x in s.body for n in ast.walk(x) if isinstance(n, ast.Name) and isinstance(n.ctx, ast.Store)} | set(bound)
        loaded = [n.id for x in s.body for n in ast.walk(x) if isinstance(n, ast.Name) and isinstance(n.ctx, ast.Load)]
        env_body = {k: v for k, v in env.items() if k not in stored}
        inv = []
        for n in loaded:
            if n in env_body and n not in inv:
                inv.append(n)
        env_body.update(bound)
        self.uses.append(set())
        body = self.stmts(list(s.body), env_body, "loop")
        used = self.uses.pop()
        oracles = [o for o in MI_ORACLES if o in used]
        params = [MI_ORACLES[o] for o in oracles] + [f"({x} : {ty})" for n in inv for x, ty in self.binders(n, env_body[n])]
        args = oracles + [x for n in inv for x, _ in self.binders(n, env_body[n])]
        ty = self.tuple_ty("loop")
        pat = "(" + ", ".join(self.sv + ["c"]) + ")"
        self.defs.append(
            f"(* one iteration of `{_cmt(ast.unparse(s).splitlines()[0])}` of {self.where.split(' ')[0]} *)\n"
            f"Definition {fname} {' '.join(params)}{' ' if params else ''}(st : {ty}) ({elt} : {elt_ty})\n  : {ty} :=\n"
            f"  let '{pat} := st in\n  match c with\n  | Raised => st\n  | Running =>\n"
            f"{textwrap.indent(unpack + body, '      ')}\n  end.\n\n")
        env_after = {k: v for k, v in env.items() if k not in stored}
        call = " ".join([fname] + args)
        init = "(" + ", ".join(self.sv + ["Running"]) + ")"
        return (f"let '{pat} := fold_left ({call}) ({seq}) {init} in\nmatch c with\n| Raised => {self.leaf(ctx, 'raise')}\n| Running =>\n"
                f"{textwrap.indent(self.stmts(rest, env_after, ctx), '    ')}\nend")


def gen_multicast_init_fn() -> str:
    import bellows.multicast as M
    ns = vars(M)
    T = ns.get("t")
    if T is None or not hasattr(T, "sl_Status") or not hasattr(T, "EzspConfigId"):
        raise GenError("bellows.multicast", "the module does not import bellows.types as t")
    # the class consists of the five methods translated here and by McTr (a further method could touch the two containers)
    cls = ast.parse(textwrap.dedent(inspect.getsource(M.Multicast))).body[0]
    names = []
    for x in cls.body:
        if isinstance(x, ast.Expr) and isinstance(x.value, ast.Constant) and isinstance(x.value.value, str):
            continue
        if not isinstance(x, (ast.FunctionDef, ast.AsyncFunctionDef)) or x.decorator_list:
            raise GenError("Multicast", f"class-level statement `{ast.unparse(x)[:80]}`")
        names.append(x.name)
    if sorted(names) != sorted(MI_METHODS):
        raise GenError("Multicast", f"methods {names}: expected exactly {list(MI_METHODS)}")
    nodes = {x.name: _StripLogs().visit(x) for x in cls.body if isinstance(x, (ast.FunctionDef, ast.AsyncFunctionDef))}

    def params(name, want, is_async):
        node = nodes[name]
        if isinstance(node, ast.AsyncFunctionDef) != is_async:
            raise GenError(f"Multicast.{name}", "coroutine function expected" if is_async else "plain function expected")
        a = node.args
        got = [x.arg for x in a.args]
        if got != ["self"] + want or a.vararg or a.kwarg or a.kwonlyargs or a.posonlyargs or a.defaults:
            raise GenError(f"Multicast.{name}", f"parameters {got}")
        return node

    out = ["(* GENERATED by harness/pysrc.py from the SOURCE TEXT of bellows/multicast.py -- do not edit *)\n"
           "From Coq Require Import NArith List Bool.\nImport ListNotations.\n"
           "Require Import BV.gen.GenStatus BV.model.Status BV.model.Multicast BV.gen.GenMulticastFn.\nOpen Scope N_scope.\n\n"
           "(* fixed vocabulary (prelude, not derived from the source) *)\n"
           "(* a loop runs until an awaited call raises: the exception leaves the loop and the coroutine *)\n"
           "Inductive py_ctl := Running | Raised.\n"
           "(* range(lo, hi) *)\n"
           "Definition py_range (lo hi : N) : list N := map N.of_nat (seq (N.to_nat lo) (N.to_nat hi - N.to_nat lo)).\n"
           "(* a coroutine that returns None reports what the model's Init reports *)\n"
           "Definition py_none : ret := RStatus 0.\n"
           "Definition py_opt_list {A} (w : option A) : list A := match w with Some x => [x] | None => [] end.\n\n"
           "(* state: subs = self._multicast as an association list multicastId -> index (the entry object stored with the index is\n"
           "   not represented), avail = self._available.  Oracles (the NCP's answers; None = the awaited command raised):\n"
           "   cfg id = (status, value) of getConfigurationValue(id); rd i = (status, (multicastId, endpoint)) of\n"
           "   getMulticastTableEntry(i); o k = (the element set.pop() returns, the outcome of the table write) for the k-th\n"
           "   subscribe call of one start-up.  Log calls are skipped. *)\n\n"]

    # ---- __init__: the two containers
    node = params("__init__", ["ezsp"], False)
    tr = MiTr("Multicast.__init__ (source)", "py_init", ns, ["subs", "avail"], {})
    lets, seen = [], set()
    for s in node.body:
        if isinstance(s, ast.Assign) and len(s.targets) == 1 and tr.is_self_attr(s.targets[0], "_ezsp") \
                and isinstance(s.value, ast.Name) and s.value.id == "ezsp":
            continue
        if not (isinstance(s, ast.Assign) and len(s.targets) == 1 and any(tr.is_self_attr(s.targets[0], a) for a in ("_multicast", "_available"))):
            tr.refuse(s, "only the creation of self._ezsp / self._multicast / self._available is expected")
        seen.add(s.targets[0].attr)
        lets.append(tr.stmts([s], {}, "top").rsplit("\n", 1)[0])
    if seen != {"_multicast", "_available"}:
        raise GenError("Multicast.__init__", f"creates {sorted(seen)}: both self._multicast and self._available are expected")
    out.append("(* from the source of Multicast.__init__ (self._ezsp = ezsp skipped) *)\n"
               "Definition py_init : list (N * N) * list N :=\n" + textwrap.indent("\n".join(lets), "  ") + "\n  (subs, avail).\n\n")

    # ---- _initialize
    node = params("_initialize", [], True)
    tr = MiTr("Multicast._initialize (source)", "py_initialize", ns, ["subs", "avail"], {})
    term = tr.stmts(list(node.body), {}, "top")
    if tr.uses[0] != {"cfg", "rd"}:
        raise GenError("Multicast._initialize", f"commands awaited: {sorted(tr.uses[0])} (the table-size read and the entry reads are expected)")
    consts = dict(tr.consts)
    body_init = ("".join(tr.defs) + "(* from the source of Multicast._initialize *)\n"
                 f"Definition py_initialize (subs : list (N * N)) (avail : list N) {MI_ORACLES['cfg']} {MI_ORACLES['rd']}\n"
                 f"  : {tr.tuple_ty('top')} :=\n{textwrap.indent(term, '  ')}.\n\n")

    # ---- startup
    node = params("startup", ["coordinator"], True)
    tr = MiTr("Multicast.startup (source)", "py_startup", ns, ["subs", "avail", "k", "ws"],
              {"_initialize": ["cfg", "rd"], "subscribe": ["o"]})
    term = tr.stmts(list(node.body), {"coordinator": "coordinator"}, "top")
    if tr.uses[0] != {"cfg", "rd", "o"}:
        raise GenError("Multicast.startup", f"awaits {sorted(tr.uses[0])}: self._initialize() and self.subscribe(..) are expected")
    consts.update(tr.consts)
    for c, v in sorted(consts.items()):
        out.append(f"(* member of bellows.types, value read from the live enum *)\nDefinition {c} : N := {v}.\n\n")
    out.append(body_init)
    out.append("".join(tr.defs) + "(* from the source of Multicast.startup; coordinator: the items of coordinator.endpoints in order, an endpoint being the\n"
               "   iteration order of its member_of; result: dict, set, number of subscribe calls made, table writes issued, outcome *)\n"
               f"Definition py_startup (subs : list (N * N)) (avail : list N) (coordinator : list (N * list N)) "
               f"{MI_ORACLES['cfg']} {MI_ORACLES['rd']} {MI_ORACLES['o']}\n"
               f"  : {tr.tuple_ty('top')} :=\n  let k := 0 in\n  let ws := @nil (N * N * N) in\n{textwrap.indent(term, '  ')}.\n")
    return "".join(out)




# ==================================================================================================
# C18: sl_Status.from_ember_status and the SL_STATUS_MAP definition (bellows/types/named.py), the per-version
# wrappers that hand a status to the application (bellows/ezsp/protocol.py, bellows/ezsp/vN/__init__.py) and every
# comparison of a status with an enum member in the controller modules  ->  coq/gen/GenStatusFn.v
# ==================================================================================================
ST_CLASSES = ("EzspStatus", "EmberStatus", "sl_Status")       # class tags 0 / 1 / 2 (= Status.fam_tag)
ST_ABSENT, ST_NOT_STATUS = 3, 4                                # answer field: command absent in the version / not a status
ST_RESERVED = {"cls", "status", "fun", "let", "in", "match", "with", "end", "if", "then", "else", "fix", "forall", "exists",
               "Type", "Set", "Prop", "as", "at", "return", "where", "struct", "using", "for"}

ST_PRELUDE = r"""(* GENERATED by harness/pysrc.py from the SOURCE TEXT of bellows/types/named.py (sl_Status.from_ember_status, the
   definition of SL_STATUS_MAP), of the per-version wrappers in bellows/ezsp/protocol.py and bellows/ezsp/vN/__init__.py,
   and of the controller modules that compare a status with an enum member -- do not edit *)
From Coq Require Import NArith List Bool String.
Import ListNotations.
Require Import BV.gen.GenStatus.
Open Scope N_scope.

(* ---- fixed vocabulary (not derived from the source) ---------------------------------------------
   A status value is a member or pseudo-member of one of the three enum classes: (class tag, integer).
   Class tags: 0 EzspStatus, 1 EmberStatus, 2 sl_Status.  Python facts used (each re-checked on the live classes when
   this file is generated): `==` and `hash` of these enum values are those of the integer (so a tuple key
   (class, value) is found iff the class is the same object and the integers are equal); `type(x)` is the class;
   `isinstance(x, C)` holds iff type(x) is C or one of its subclasses ([py_subclasses], read from the live classes);
   `C.NAME` on a class object is the member of that name ([py_getattr]: AttributeError when there is none);
   `d[k]` raises KeyError on an absent key; a dict display / comprehension assigns its items in order. *)
Definition pyclass := N.
Definition pystatus := (pyclass * N)%type.
Inductive pyexn := KeyError | AttributeError.
Inductive pyres := PRet (v : pystatus) | PExn (e : pyexn).
Definition pykey := (pyclass * pystatus)%type.
Definition pydict := list (pykey * pystatus).

Definition py_type (s : pystatus) : pyclass := fst s.
Definition py_key_eqb (a b : pykey) : bool := (fst a =? fst b) && (snd (snd a) =? snd (snd b)).
Fixpoint py_dict_get (k : pykey) (d : pydict) : option pystatus :=
  match d with
  | [] => None
  | (k', v) :: d' => if py_key_eqb k' k then Some v else py_dict_get k d'
  end.
Definition py_dict_mem (k : pykey) (d : pydict) : bool :=
  match py_dict_get k d with Some _ => true | None => false end.
Fixpoint py_dict_set (k : pykey) (v : pystatus) (d : pydict) : pydict :=
  match d with
  | [] => [(k, v)]
  | (k', v') :: d' => if py_key_eqb k' k then (k', v) :: d' else (k', v') :: py_dict_set k v d'
  end.
Definition py_dict_of (items : list (pykey * pystatus)) : pydict :=
  fold_left (fun d kv => py_dict_set (fst kv) (snd kv) d) items [].

Definition py_class_members (c : pyclass) : list (string * N) :=
  if c =? 0 then ezsp_members else if c =? 1 then ember_members else if c =? 2 then sl_members else [].
Fixpoint py_member_lookup (name : string) (l : list (string * N)) : option N :=
  match l with
  | [] => None
  | (n, v) :: l' => if String.eqb n name then Some v else py_member_lookup name l'
  end.
Definition py_getattr (c : pyclass) (name : string) : option pystatus :=
  match py_member_lookup name (py_class_members c) with Some v => Some (c, v) | None => None end.

(* how a wrapper produces the status it returns from the field of the command's answer *)
Inductive conv_kind :=
| KConv                      (* t.sl_Status.from_ember_status(x) *)
| KAsIs                      (* x itself *)
| KCast (cls : pyclass)      (* Cls(x): another class around the same integer -- not a conversion *)
| KConst (m : pystatus).     (* an enum member written in the source, no command involved *)
(* version, wrapper, version of the class that defines it (0: ProtocolHandler), ordinal of the return statement,
   element of the returned tuple (None: the bare value), command, position of the field in its answer, class of that
   field in this version's command table (3: the version has no such command, 4: not a status type), kind *)
Record wrapper_row := mkW { w_version : N; w_name : string; w_defined : N; w_path : N; w_ret : option N;
                            w_command : string; w_ans_pos : N; w_ans_class : N; w_kind : conv_kind }.

(* where the operand of a comparison with an enum member comes from (data flow inside the enclosing function) *)
Inductive provenance :=
| PConv                                                   (* t.sl_Status.from_ember_status(..) *)
| PWrapper (name : string) (ret : option N)               (* what a per-version wrapper returned *)
| PRaw (cmd : string) (pos : N) (classes : list (N * N))  (* a field of a command's answer, unconverted; (version, class) *)
| PCast (cls : pyclass)
| PMember (m : pystatus)
| PParam (name : string)
| PUnknown.
Record compare_site := mkS { s_module : string; s_function : string; s_index : N;
                             s_members : list pystatus; s_prov : list provenance }.

"""


def _st_class_tag(obj):
    import bellows.types as t
    for i, n in enumerate(ST_CLASSES):
        if obj is getattr(t, n):
            return i
    return None


def _st_member(obj):
    """(class tag, int) of a member of one of the three classes, else None"""
    tag = _st_class_tag(type(obj))
    return None if tag is None else (tag, int(obj))


class StTr:
    """from_ember_status and the SL_STATUS_MAP definition.  Expression types: 'status' (class tag, int), 'class', 'key'
    ((class, status)), 'bool', 'dict'.  expr() returns (term, type, binds, python value or _MISSING); binds are the
    raising sub-expressions in evaluation order: (variable, option-valued term, exception)."""

    def __init__(self, where, ns, env, counter=None):
        self.where, self.ns, self.env = where, ns, dict(env)
        self.counter = counter if counter is not None else [0]

    def refuse(self, node, why="unsupported construct"):
        raise GenError(self.where, f"{why}: `{ast.unparse(node)[:100] if isinstance(node, ast.AST) else node}`")

    def sub(self):
        return StTr(self.where, self.ns, self.env, self.counter)

    def fresh(self, stem):
        self.counter[0] += 1
        return f"{stem}{self.counter[0]}"

    def expr(self, e):
        if isinstance(e, ast.Name):
            if e.id in self.env:
                c, ty = self.env[e.id]
                return c, ty, [], _MISSING
            obj = self.ns.get(e.id, _MISSING)
            tag = _st_class_tag(obj) if obj is not _MISSING else None
            if tag is not None:
                return f"{tag}", "class", [], obj
            if e.id == "SL_STATUS_MAP":
                return "py_SL_STATUS_MAP", "dict", [], _MISSING
            self.refuse(e, "unknown name")
        if isinstance(e, ast.Attribute):
            if isinstance(e.value, ast.Name) and e.value.id in self.env:
                c, ty = self.env[e.value.id]
                if ty != "class":
                    self.refuse(e, "attribute of something that is not a class")
                v = self.fresh("m")
                return v, "status", [(v, f"py_getattr {c} {_coq_str(e.attr)}", "AttributeError")], _MISSING
            obj = _resolve(self.ns, e)
            m = _st_member(obj) if obj is not _MISSING else None
            if m is None:
                self.refuse(e, "not a member of EzspStatus / EmberStatus / sl_Status")
            if type(obj).__dict__.get(e.attr) is not obj and getattr(type(obj), e.attr, None) is not obj:
                self.refuse(e, "member name does not name the member")
            return f"({m[0]}, {m[1]})", "status", [], obj
        if isinstance(e, ast.Call) and isinstance(e.func, ast.Name) and not e.keywords and e.func.id not in self.env:
            fn = e.func.id
            if fn in self.ns and self.ns[fn] is not getattr(__import__("builtins"), fn, _MISSING):
                self.refuse(e, f"`{fn}` is rebound in the module")
            if fn == "isinstance" and len(e.args) == 2:
                a, ta, ba, _ = self.expr(e.args[0])
                b, tb, bb, _ = self.expr(e.args[1])
                if (ta, tb) != ("status", "class"):
                    self.refuse(e, "isinstance(<status>, <class>) expected")
                return f"py_isinstance {_par(a)} {_par(b)}", "bool", ba + bb, _MISSING
            if fn == "type" and len(e.args) == 1:
                a, ta, ba, va = self.expr(e.args[0])
                if ta != "status":
                    self.refuse(e, "type(<status>) expected")
                return f"py_type {_par(a)}", "class", ba, (type(va) if va is not _MISSING else _MISSING)
            self.refuse(e, "call")
        if isinstance(e, ast.Tuple) and len(e.elts) == 2 and isinstance(e.ctx, ast.Load):
            a, ta, ba, va = self.expr(e.elts[0])
            b, tb, bb, vb = self.expr(e.elts[1])
            if (ta, tb) != ("class", "status"):
                self.refuse(e, "only (class, status) tuples are dict keys here")
            return f"({a}, {b})", "key", ba + bb, ((va, vb) if _MISSING not in (va, vb) else _MISSING)
        if isinstance(e, ast.Compare) and len(e.ops) == 1 and isinstance(e.ops[0], (ast.In, ast.NotIn)):
            a, ta, ba, _ = self.expr(e.left)
            d, td, bd, _ = self.expr(e.comparators[0])
            if (ta, td) != ("key", "dict"):
                self.refuse(e, "membership of a (class, status) key in SL_STATUS_MAP expected")
            t_ = f"py_dict_mem {_par(a)} {d}"
            return (t_ if isinstance(e.ops[0], ast.In) else f"negb ({t_})"), "bool", ba + bd, _MISSING
        if isinstance(e, ast.UnaryOp) and isinstance(e.op, ast.Not):
            a, ta, ba, _ = self.expr(e.operand)
            if ta != "bool":
                self.refuse(e, "`not` of a non-boolean")
            return f"negb ({a})", "bool", ba, _MISSING
        if isinstance(e, ast.BoolOp):
            parts = [self.expr(x) for x in e.values]
            if any(p[1] != "bool" for p in parts) or any(p[2] for p in parts[1:]):
                self.refuse(e, "and / or over anything but non-raising booleans")
            op = " && " if isinstance(e.op, ast.And) else " || "
            return "(" + op.join(f"({p[0]})" for p in parts) + ")", "bool", parts[0][2], _MISSING
        if isinstance(e, ast.Subscript) and isinstance(e.ctx, ast.Load):
            d, td, bd, _ = self.expr(e.value)
            k, tk, bk, _ = self.expr(e.slice)
            if (td, tk) != ("dict", "key"):
                self.refuse(e, "SL_STATUS_MAP[<(class, status) key>] expected")
            v = self.fresh("v")
            return v, "status", bd + bk + [(v, f"py_dict_get {_par(k)} {d}", "KeyError")], _MISSING
        self.refuse(e)

    @staticmethod
    def wrap(binds, body):
        for var, term, exn in reversed(binds):
            body = f"match {term} with\n| Some {var} =>\n{textwrap.indent(body, '    ')}\n| None => PExn {exn}\nend"
        return body

    def stmts(self, body):
        if not body:
            raise GenError(self.where, "control reaches the end of the function (it would return None, not a status)")
        s, rest = body[0], body[1:]
        if isinstance(s, ast.Pass):
            return self.stmts(rest)
        if isinstance(s, ast.Return):
            if s.value is None:
                self.refuse(s, "returns None")
            c, ty, b, _ = self.expr(s.value)
            if ty != "status":
                self.refuse(s, f"returns a {ty}")
            return self.wrap(b, f"PRet {_par(c)}")
        if isinstance(s, ast.Assign) and len(s.targets) == 1 and isinstance(s.targets[0], ast.Name):
            name = s.targets[0].id
            if name in ST_RESERVED or not name.isidentifier() or name.startswith("py_") or name in self.ns:
                self.refuse(s, "local name")
            c, ty, b, _ = self.expr(s.value)
            if ty not in ("status", "class", "key", "bool"):
                self.refuse(s, f"binds a {ty}")
            self.env[name] = (name, ty)
            return self.wrap(b, f"let {name} := {c} in\n{self.stmts(rest)}")
        if isinstance(s, ast.If):
            c, ty, b, _ = self.expr(s.test)
            if ty != "bool":
                self.refuse(s.test, "condition is not a boolean")
            a_ = self.sub().stmts(list(s.body) + rest)
            b_ = self.sub().stmts(list(s.orelse) + rest)
            return self.wrap(b, f"if {c} then\n{textwrap.indent(a_, '  ')}\nelse\n{textwrap.indent(b_, '  ')}")
        self.refuse(s)


def _par(c: str) -> str:
    return c if (c.isidentifier() or c.isdigit() or (c.startswith("(") and c.endswith(")"))) else f"({c})"


def _coq_str(s: str) -> str:
    if '"' in s or "\\" in s or "\n" in s:
        raise GenError(s, "character not representable in a Gallina string")
    return f'"{s}"%string'


def _st_named_parts():
    """(module AST, ClassDef sl_Status, FunctionDef from_ember_status, the statement defining SL_STATUS_MAP)"""
    from bellows.types import named
    tree = ast.parse(inspect.getsource(named))
    classes = [n for n in ast.walk(tree) if isinstance(n, ast.ClassDef) and n.name == "sl_Status"]
    if len(classes) != 1 or classes[0] not in tree.body:
        raise GenError("bellows.types.named", f"{len(classes)} definitions of class sl_Status at module level expected 1")
    fns = [n for n in ast.walk(tree) if isinstance(n, (ast.FunctionDef, ast.AsyncFunctionDef)) and n.name == "from_ember_status"]
    if len(fns) != 1 or fns[0] not in classes[0].body or not isinstance(fns[0], ast.FunctionDef):
        raise GenError("sl_Status.from_ember_status", "expected exactly one plain definition, in the body of sl_Status")
    fn = fns[0]
    # nothing may replace the attribute or the table afterwards: every other mention of either name is refused
    inside = {id(n) for n in ast.walk(fn)}
    defs = []
    for n in ast.walk(tree):
        if isinstance(n, ast.Name) and n.id == "SL_STATUS_MAP" and id(n) not in inside:
            defs.append(n)
        if isinstance(n, ast.Attribute) and n.attr == "from_ember_status":
            raise GenError("bellows.types.named", f"`{ast.unparse(n)}` mentioned outside its definition")
        if isinstance(n, ast.Constant) and n.value in ("SL_STATUS_MAP", "from_ember_status"):
            raise GenError("bellows.types.named", f"the name {n.value!r} as a string (setattr / globals access?)")
    stmt = [s for s in tree.body if (isinstance(s, ast.AnnAssign) and s.value is not None and isinstance(s.target, ast.Name) and s.target.id == "SL_STATUS_MAP")
            or (isinstance(s, ast.Assign) and len(s.targets) == 1 and isinstance(s.targets[0], ast.Name) and s.targets[0].id == "SL_STATUS_MAP")]
    if len(stmt) != 1 or len(defs) != 1:
        raise GenError("SL_STATUS_MAP", f"expected one module-level assignment and no other mention outside from_ember_status, found {len(stmt)} / {len(defs)}")
    for n in ast.walk(tree):
        if isinstance(n, ast.Name) and n.id == "sl_Status" and isinstance(n.ctx, (ast.Store, ast.Del)):
            raise GenError("bellows.types.named", "sl_Status is rebound")
    return named, tree, classes[0], fn, stmt[0]


def _st_map_def(named, stmt):
    """Gallina for the dict the defining expression denotes + the Python dict computed from the same AST"""
    ns = vars(named)
    where = "SL_STATUS_MAP (source)"
    val = stmt.value
    out = []
    if isinstance(val, ast.DictComp):
        if len(val.generators) != 1:
            raise GenError(where, "more than one generator")
        g = val.generators[0]
        if g.is_async or g.ifs:
            raise GenError(where, "async / filtered comprehension")
        if not (isinstance(g.target, ast.Tuple) and len(g.target.elts) == 2 and all(isinstance(x, ast.Name) for x in g.target.elts)):
            raise GenError(where, f"comprehension target `{ast.unparse(g.target)}` (expected two names)")
        kn, vn = (x.id for x in g.target.elts)
        if kn == vn or {kn, vn} & (ST_RESERVED | set(ns)) :
            raise GenError(where, "comprehension variable names")
        if not isinstance(g.iter, (ast.List, ast.Tuple)):
            raise GenError(where, f"iterates over `{ast.unparse(g.iter)[:60]}` (expected a display of pairs)")
        rows, pairs = [], []
        for el in g.iter.elts:
            if not (isinstance(el, ast.Tuple) and len(el.elts) == 2):
                raise GenError(where, f"item `{ast.unparse(el)}` is not a pair")
            tr = StTr(where, ns, {})
            a, ta, ba, va = tr.expr(el.elts[0])
            b, tb, bb, vb = tr.expr(el.elts[1])
            if (ta, tb) != ("status", "status") or ba or bb:
                raise GenError(where, f"item `{ast.unparse(el)}` is not a pair of enum members")
            rows.append(f"({a}, {b})   (* {_cmt(ast.unparse(el))} *)")
            pairs.append((va, vb))
        tr = StTr(where, ns, {kn: (kn, "status"), vn: (vn, "status")})
        k, tk, bk, _ = tr.expr(val.key)
        v, tv, bv, _ = tr.expr(val.value)
        if (tk, tv) != ("key", "status") or bk or bv:
            raise GenError(where, f"`{ast.unparse(val.key)}: {ast.unparse(val.value)}` is not (class, status): status")
        lines = []
        for i, r in enumerate(rows):
            term, cm = r.split("   (*", 1)
            lines.append(f"{term}{';' if i < len(rows) - 1 else ''}   (*{cm}")
        out.append("(* the display the comprehension iterates over, item by item *)\n"
                   "Definition py_SL_STATUS_MAP_items : list (pystatus * pystatus) :=\n  [" + "\n   ".join(lines) + "\n  ].\n\n")
        out.append(f"(* {{{_cmt(ast.unparse(val.key))}: {_cmt(ast.unparse(val.value))} for {kn}, {vn} in <the display>}} *)\n"
                   f"Definition py_SL_STATUS_MAP : pydict :=\n  py_dict_of (map (fun kv => let {kn} := fst kv in let {vn} := snd kv in ({k}, {v})) py_SL_STATUS_MAP_items).\n\n")
        # the same denotation in Python, for the cross-check against the live object
        denot = {}
        for va, vb in pairs:
            e2 = StTrEval(ns, {kn: va, vn: vb})
            denot[e2.ev(val.key)] = e2.ev(val.value)
    elif isinstance(val, ast.Dict):
        lines, denot = [], {}
        for i, (ke, ve) in enumerate(zip(val.keys, val.values)):
            if ke is None:
                raise GenError(where, "dict unpacking in the display")
            tr = StTr(where, ns, {})
            k, tk, bk, kv = tr.expr(ke)
            v, tv, bv, vv = tr.expr(ve)
            if (tk, tv) != ("key", "status") or bk or bv or _MISSING in (kv, vv):
                raise GenError(where, f"`{ast.unparse(ke)}: {ast.unparse(ve)}` is not (class, member): member")
            lines.append(f"({k}, {v}){';' if i < len(val.keys) - 1 else ''}   (* {_cmt(ast.unparse(ke))}: {_cmt(ast.unparse(ve))} *)")
            denot[kv] = vv
        out.append("Definition py_SL_STATUS_MAP : pydict :=\n  py_dict_of\n  [" + "\n   ".join(lines) + "\n  ].\n\n")
    else:
        raise GenError(where, f"defined by `{ast.unparse(val)[:60]}` (expected a dict display or comprehension)")
    live = named.SL_STATUS_MAP
    if type(live) is not dict or list(denot.items()) != list(live.items()) or any(type(a) is not type(b) or type(x[1]) is not type(y[1]) for (x, a), (y, b) in zip(denot.items(), live.items())):
        raise GenError(where, "the dict denoted by the defining expression differs from the live SL_STATUS_MAP (changed after its definition?)")
    return "".join(out)


class StTrEval:
    """the pure expressions StTr accepts, evaluated in Python (cross-check of the emitted dict against the live one)"""

    def __init__(self, ns, env):
        self.ns, self.env = ns, env

    def ev(self, e):
        if isinstance(e, ast.Name):
            return self.env[e.id] if e.id in self.env else self.ns[e.id]
        if isinstance(e, ast.Attribute):
            return _resolve(self.ns, e)
        if isinstance(e, ast.Call) and isinstance(e.func, ast.Name) and e.func.id == "type" and len(e.args) == 1:
            return type(self.ev(e.args[0]))
        if isinstance(e, ast.Tuple):
            return tuple(self.ev(x) for x in e.elts)
        raise GenError("SL_STATUS_MAP (source)", f"cannot evaluate `{ast.unparse(e)}`")


def _st_python_facts():
    """the facts of the fixed vocabulary, re-checked on the live classes; returns the subclass table"""
    import bellows.types as t
    classes = [getattr(t, n) for n in ST_CLASSES]
    for c in classes:
        if c.__subclasses__():
            raise GenError(c.__name__, "has subclasses")
        a = c(0x17)
        for d in classes:
            b = d(0x17)
            if not (a == b and hash(a) == hash(b) and not (a != b)) or c(0x18) == b:
                raise GenError(c.__name__, "== / hash of an enum value is not that of its integer")
        if type(c(0xEE)) is not c or int(c(0xEE)) != 0xEE:
            raise GenError(c.__name__, "an undefined code does not construct a pseudo-member of the class")
        if "__eq__" in c.__dict__ or "__hash__" in c.__dict__ or type(c).__dict__.get("__instancecheck__") is not None:
            raise GenError(c.__name__, "overrides __eq__ / __hash__ / __instancecheck__")
    sub = [(i, j) for i, c in enumerate(classes) for j, d in enumerate(classes) if issubclass(c, d)]
    return sub


# ---- data flow inside one function: where does a value compared with / returned as a status come from -------------
class FlowTr:
    """Abstract interpretation of one function body over sets of provenances:
        ("conv", inner)            t.sl_Status.from_ember_status(<inner>)
        ("cast", cls, inner)       <one of the three classes>(<inner>)
        ("raw", cmd, pos)          the answer of an EZSP command (pos None) or its pos-th field
        ("wrapper", name, pos)     what a per-version wrapper returned (pos None: the value itself)
        ("member", cls, int)       an enum member written in the source
        ("param", name) / ("tuple", (sets..)) / ("unknown",) / ("unbound",): no assignment on some path (dropped when read)
    Branches join, loops run to a fixed point, handlers start from the join of every point of the guarded body."""

    RECEIVERS_ANY = ("self._ezsp", "ezsp", "self._protocol", "app._ezsp", "self._app._ezsp", "self.app._ezsp", "self._application._ezsp")

    def __init__(self, where, ns, commands, wrappers, self_is_ezsp):
        self.where, self.ns, self.commands, self.wrappers = where, ns, commands, wrappers
        self.receivers = self.RECEIVERS_ANY + (("self",) if self_is_ezsp else ())
        self.sites = {}          # (lineno, col) -> [source, members, set of provenances]
        self.returns = {}        # (lineno, col) -> [source, value set]
        self.loops = []
        self.nested = []

    UNKNOWN = frozenset([("unknown",)])
    UNBOUND = frozenset([("unbound",)])      # a local no statement on this path has assigned: reading it raises

    @staticmethod
    def bound(vals):
        return frozenset(v for v in vals if v != ("unbound",))

    def refuse(self, node, why="unsupported construct"):
        raise GenError(self.where, f"{why}: `{ast.unparse(node)[:100]}`")

    # -- values
    def member(self, e):
        if isinstance(e, ast.Attribute):
            obj = _resolve(self.ns, e)
            if obj is not _MISSING:
                m = _st_member(obj)
                if m is not None and isinstance(type(obj), type) and getattr(type(obj), e.attr, None) is obj:
                    return m
        return None

    def project(self, vals, i):
        out = set()
        for v in self.bound(vals):
            if v[0] in ("raw", "wrapper") and v[2] is None:
                out.add((v[0], v[1], i))
            elif v[0] == "tuple" and i < len(v[1]):
                out |= v[1][i]
            else:
                out.add(("unknown",))
        return frozenset(out)

    def ev(self, e, env):
        """value set of an expression; also records the comparison sites inside it"""
        if isinstance(e, ast.Await):
            return self.ev(e.value, env)
        if isinstance(e, ast.NamedExpr):
            v = self.ev(e.value, env)
            self.bind(e.target, v, env)
            return v
        if isinstance(e, ast.Name):
            return self.bound(env.get(e.id, self.UNKNOWN))
        m = self.member(e)
        if m is not None:
            return frozenset([("member",) + m])
        if isinstance(e, ast.Compare):
            self.compare(e, env)
            return self.UNKNOWN
        if isinstance(e, ast.Tuple) and isinstance(e.ctx, ast.Load) and not any(isinstance(x, ast.Starred) for x in e.elts):
            return frozenset([("tuple", tuple(self.ev(x, env) for x in e.elts))])
        if isinstance(e, ast.Subscript) and isinstance(e.slice, ast.Constant) and isinstance(e.slice.value, int) \
                and not isinstance(e.slice.value, bool) and e.slice.value >= 0:
            return self.project(self.ev(e.value, env), e.slice.value)
        if isinstance(e, ast.Call):
            fsrc = ast.unparse(e.func)
            args = [self.ev(a, env) for a in e.args] + [self.ev(k.value, env) for k in e.keywords]
            if fsrc == "t.sl_Status.from_ember_status" and self.ns.get("t") is __import__("bellows.types", fromlist=["x"]):
                if len(e.args) != 1 or e.keywords or isinstance(e.args[0], ast.Starred):
                    self.refuse(e, "conversion call with other than one positional argument")
                return frozenset([("conv", args[0])])
            obj = _resolve(self.ns, e.func)
            tag = _st_class_tag(obj) if obj is not _MISSING else None
            if tag is not None:
                if len(e.args) != 1 or e.keywords:
                    self.refuse(e, "status class called with other than one positional argument")
                return frozenset([("cast", tag, args[0])])
            if isinstance(e.func, ast.Attribute) and ast.unparse(e.func.value) in self.receivers:
                name = e.func.attr
                if name in ("_command", "command") and e.args and isinstance(e.args[0], ast.Constant) and isinstance(e.args[0].value, str):
                    name = e.args[0].value
                    if name not in self.commands:
                        return self.UNKNOWN
                    return frozenset([("raw", name, None)])
                if name in self.commands and name in self.wrappers:
                    self.refuse(e, "name is both an EZSP command and a wrapper")
                if name in self.commands:
                    return frozenset([("raw", name, None)])
                if name in self.wrappers:
                    return frozenset([("wrapper", name, None)])
            return self.UNKNOWN
        if isinstance(e, ast.IfExp):
            self.ev(e.test, env)
            return self.ev(e.body, env) | self.ev(e.orelse, env)
        if isinstance(e, (ast.ListComp, ast.SetComp, ast.GeneratorExp, ast.DictComp)):
            inner = dict(env)
            for g in e.generators:
                self.ev(g.iter, inner)
                self.bind(g.target, self.UNKNOWN, inner)
                for c in g.ifs:
                    self.ev(c, inner)
            for x in ([e.key, e.value] if isinstance(e, ast.DictComp) else [e.elt]):
                self.ev(x, inner)
            return self.UNKNOWN
        if isinstance(e, ast.Lambda):
            inner = dict(env)
            for a in ast.walk(e.args):
                if isinstance(a, ast.arg):
                    inner[a.arg] = self.UNKNOWN
            self.ev(e.body, inner)
            return self.UNKNOWN
        for c in ast.iter_child_nodes(e):
            if isinstance(c, ast.expr):
                self.ev(c, env)
        return self.UNKNOWN

    def compare(self, e, env):
        operands = [e.left] + list(e.comparators)
        for l, op, r in zip(operands, e.ops, operands[1:]):
            found = None
            if isinstance(op, (ast.Eq, ast.NotEq, ast.Is, ast.IsNot)):
                ml, mr = self.member(l), self.member(r)
                if mr is not None and ml is None:
                    found = (l, [mr])
                elif ml is not None and mr is None:
                    found = (r, [ml])
            elif isinstance(op, (ast.In, ast.NotIn)) and isinstance(r, (ast.Tuple, ast.List, ast.Set)) and r.elts:
                ms = [self.member(x) for x in r.elts]
                if all(m is not None for m in ms):
                    found = (l, ms)
                elif any(m is not None for m in ms):
                    self.refuse(e, "collection mixing enum members with other values")
            if found is None:
                for x in (l, r):
                    self.ev(x, env)
                continue
            operand, members = found
            vals = self.ev(operand, env)
            key = (e.lineno, e.col_offset, operands.index(l))
            ent = self.sites.setdefault(key, [ast.unparse(e), members, set()])
            ent[2] |= vals

    def bind(self, target, vals, env):
        if isinstance(target, ast.Name):
            env[target.id] = vals
        elif isinstance(target, (ast.Tuple, ast.List)):
            starred = any(isinstance(x, ast.Starred) for x in target.elts)
            for i, x in enumerate(target.elts):
                if isinstance(x, ast.Starred):
                    self.bind(x.value, self.UNKNOWN, env)
                else:
                    self.bind(x, self.UNKNOWN if starred else self.project(vals, i), env)
        elif isinstance(target, (ast.Attribute, ast.Subscript)):
            self.ev(target.value, env)
        else:
            self.refuse(target, "assignment target")

    # -- statements: exec returns the environment after the block, or None when control cannot fall through
    @staticmethod
    def join(*envs):
        envs = [e for e in envs if e is not None]
        if not envs:
            return None
        out = {}
        for k in set().union(*envs):
            out[k] = frozenset().union(*[e.get(k, FlowTr.UNBOUND) for e in envs])
        return out

    def block(self, body, env, trace=None):
        for s in body:
            if env is None:
                return None
            env = self.stmt(s, env)
            if trace is not None and env is not None:
                trace.append(dict(env))
        return env

    def loop(self, s, env, head):
        """head(env) evaluates the loop test / binds the loop target"""
        entry = dict(env)
        for _ in range(12):
            self.loops.append({"cont": [], "brk": []})
            cur = dict(entry)
            head(cur)
            out = self.block(s.body, dict(cur))
            fr = self.loops.pop()
            new = self.join(entry, out, *fr["cont"])
            if new == entry:
                break
            entry = new
        else:
            raise GenError(self.where, "loop analysis did not stabilise")
        exit_env = dict(entry)
        head(exit_env)
        after = self.block(s.orelse, exit_env)
        return self.join(after, *fr["brk"])

    def stmt(self, s, env):
        if isinstance(s, (ast.Pass, ast.Import, ast.ImportFrom, ast.Global, ast.Nonlocal)):
            return env
        if isinstance(s, ast.Expr):
            self.ev(s.value, env)
            return env
        if isinstance(s, ast.Assign):
            v = self.ev(s.value, env)
            for t_ in s.targets:
                self.bind(t_, v, env)
            return env
        if isinstance(s, ast.AnnAssign):
            if s.value is not None:
                self.bind(s.target, self.ev(s.value, env), env)
            return env
        if isinstance(s, ast.AugAssign):
            self.ev(s.value, env)
            self.bind(s.target, self.UNKNOWN, env)
            return env
        if isinstance(s, ast.Delete):
            for t_ in s.targets:
                if isinstance(t_, ast.Name):
                    env[t_.id] = self.UNKNOWN
            return env
        if isinstance(s, ast.Return):
            if s.value is not None:
                v = self.ev(s.value, env)
                ent = self.returns.setdefault((s.lineno, s.col_offset), [ast.unparse(s), set()])
                ent[1] |= v
            return None
        if isinstance(s, ast.Raise):
            for x in (s.exc, s.cause):
                if x is not None:
                    self.ev(x, env)
            return None
        if isinstance(s, ast.Assert):
            self.ev(s.test, env)
            if s.msg is not None:
                self.ev(s.msg, env)
            return env
        if isinstance(s, ast.If):
            self.ev(s.test, env)
            return self.join(self.block(s.body, dict(env)), self.block(s.orelse, dict(env)))
        if isinstance(s, (ast.For, ast.AsyncFor)):
            self.ev(s.iter, env)
            return self.loop(s, env, lambda e_: self.bind(s.target, self.UNKNOWN, e_))
        if isinstance(s, ast.While):
            return self.loop(s, env, lambda e_: self.ev(s.test, e_))
        if isinstance(s, ast.Continue):
            if not self.loops:
                self.refuse(s, "outside a loop")
            self.loops[-1]["cont"].append(dict(env))
            return None
        if isinstance(s, ast.Break):
            if not self.loops:
                self.refuse(s, "outside a loop")
            self.loops[-1]["brk"].append(dict(env))
            return None
        if isinstance(s, (ast.With, ast.AsyncWith)):
            for it in s.items:
                self.ev(it.context_expr, env)
                if it.optional_vars is not None:
                    self.bind(it.optional_vars, self.UNKNOWN, env)
            # a context manager may swallow an exception raised inside: what follows may see any point of the body
            trace = [dict(env)]
            out = self.block(s.body, dict(env), trace)
            return self.join(out, *trace) if out is not None else self.join(*trace)
        if isinstance(s, ast.Try) or s.__class__.__name__ == "TryStar":
            trace = [dict(env)]
            out = self.block(s.body, dict(env), trace)
            anywhere = self.join(*trace, out)
            outs = [self.block(s.orelse, dict(out)) if out is not None else None]
            for h in s.handlers:
                he = dict(anywhere)
                if h.type is not None:
                    self.ev(h.type, he)
                if h.name:
                    he[h.name] = self.UNKNOWN
                outs.append(self.block(h.body, he))
            res = self.join(*outs)
            if s.finalbody:
                fin = self.block(s.finalbody, self.join(anywhere, *outs))
                return None if (res is None or fin is None) else self.join(fin)
            return res
        if isinstance(s, (ast.FunctionDef, ast.AsyncFunctionDef, ast.ClassDef)):
            self.nested.append(s)
            if not isinstance(s, ast.ClassDef):
                for d in s.decorator_list:
                    self.ev(d, env)
            env[s.name] = self.UNKNOWN
            return env
        self.refuse(s)

    def run(self, node):
        env = {}
        a = node.args
        for x in a.posonlyargs + a.args + a.kwonlyargs + ([a.vararg] if a.vararg else []) + ([a.kwarg] if a.kwarg else []):
            env[x.arg] = frozenset([("param", x.arg)])
        for d in list(a.defaults) + [d for d in a.kw_defaults if d is not None]:
            self.ev(d, {})
        self.block(node.body, env)
        return self


def _st_functions(tree):
    """(qualified name, node, enclosing class name or None) of every function of a module, nested ones included"""
    out = []

    def walk(body, prefix, cls):
        for s in body:
            if isinstance(s, ast.ClassDef):
                walk(s.body, prefix + s.name + ".", s.name)
            elif isinstance(s, (ast.FunctionDef, ast.AsyncFunctionDef)):
                out.append((prefix + s.name, s, cls))
            elif isinstance(s, (ast.If, ast.Try, ast.With)):
                for f in ("body", "orelse", "finalbody"):
                    walk(getattr(s, f, []) or [], prefix, cls)
                for h in getattr(s, "handlers", []):
                    walk(h.body, prefix, cls)
    walk(tree.body, "", None)
    return out


def _st_module_ns(path, tree):
    """names a scanned module binds to bellows.types (only these are resolved; everything else stays symbolic)"""
    import bellows.types as t
    ns = {}
    for s in ast.walk(tree):
        if isinstance(s, ast.Import):
            for al in s.names:
                if al.name == "bellows.types" and al.asname:
                    ns[al.asname] = t
        if isinstance(s, ast.ImportFrom) and s.module == "bellows" and s.level == 0:
            for al in s.names:
                if al.name == "types":
                    ns[al.asname or "types"] = t
    for n in ast.walk(tree):
        if isinstance(n, ast.Name) and n.id in ns and isinstance(n.ctx, (ast.Store, ast.Del)):
            raise GenError(str(path), f"`{n.id}` (bellows.types) is rebound")
        if isinstance(n, ast.arg) and n.arg in ns:
            raise GenError(str(path), f"`{n.arg}` (bellows.types) is a parameter name")
    return ns


def _st_field_class(cls, cmd, pos):
    import bellows.types as t
    if cmd not in cls.COMMANDS:
        return ST_ABSENT
    rx = cls.COMMANDS[cmd][2]
    if not isinstance(rx, dict) or pos is None or pos >= len(rx):
        return ST_NOT_STATUS
    ty = list(rx.values())[pos]
    for i, n in enumerate(ST_CLASSES):
        if isinstance(ty, type) and issubclass(ty, getattr(t, n)):
            return i
    return ST_NOT_STATUS


def _st_annotation_positions(node):
    """positions of the declared result that are `t.sl_Status`: {None} for the bare value, {k, ..} for a tuple"""
    r = node.returns
    if isinstance(r, ast.Constant) and isinstance(r.value, str):
        r = ast.parse(r.value, mode="eval").body
    if r is None:
        return set()
    if ast.unparse(r) == "t.sl_Status":
        return {None}
    if isinstance(r, ast.Subscript) and ast.unparse(r.value) in ("tuple", "Tuple", "typing.Tuple") and isinstance(r.slice, ast.Tuple):
        return {i for i, x in enumerate(r.slice.elts) if ast.unparse(x) == "t.sl_Status"}
    if "sl_Status" in ast.unparse(r):
        raise GenError(node.name, f"result annotation `{ast.unparse(r)}` mentions sl_Status in a form that is not understood")
    return set()


def _optN(p):
    return "None" if p is None else f"(Some {p})"


def _st_wrappers_and_sites():
    import bellows.ezsp as E
    import bellows.ezsp.protocol as P
    import common
    versions = sorted(E.EZSP._BY_VERSION)
    vclass = {v: E.EZSP._BY_VERSION[v] for v in versions}
    for v, c in vclass.items():
        if c.VERSION != v or not issubclass(c, P.ProtocolHandler):
            raise GenError(f"EZSP._BY_VERSION[{v}]", "VERSION / base class")
    commands = set().union(*[set(c.COMMANDS) for c in vclass.values()])
    # every class on the way from a version's class to ProtocolHandler, with its source
    owners = {}                    # class object -> (tag, tree, path)
    for v in versions:
        for c in vclass[v].__mro__:
            if c is object or c in owners or not issubclass(c, P.ProtocolHandler):
                continue
            if c is P.ProtocolHandler:
                owners[c] = 0
            elif c in vclass.values():
                owners[c] = c.VERSION
            else:
                raise GenError(c.__name__, "a class between a version's handler and ProtocolHandler that is not itself a version's handler")
        for c in vclass[v].__mro__:
            if c is not object and not issubclass(c, P.ProtocolHandler) and c.__name__ not in ("ABC", "Generic"):
                raise GenError(c.__name__, f"unexpected base class of {vclass[v].__name__}")

    repo = common.REPO
    files = [repo / "bellows" / "ezsp" / "protocol.py"] + [repo / "bellows" / "ezsp" / f"v{v}" / "__init__.py" for v in versions] + \
            [repo / "bellows" / "ezsp" / "__init__.py", repo / "bellows" / "multicast.py"] + sorted((repo / "bellows" / "zigbee").glob("*.py"))
    trees = {}
    for f in files:
        src = f.read_text()
        trees[f] = ast.parse(src)
    for c in owners:
        f = pathlib.Path(inspect.getsourcefile(c)).resolve()
        if f not in [x.resolve() for x in files]:
            raise GenError(c.__name__, f"defined in {f}, which is not scanned")

    # candidate wrapper names: every method a handler class defines that is not an EZSP command
    method_defs = {}               # (class name, method) -> node
    for f, tree in trees.items():
        for q, node, cls in _st_functions(tree):
            if cls is not None and q == f"{cls}.{node.name}":
                method_defs[(f, cls, node.name)] = node
    owner_file = {c: next(x for x in files if x.resolve() == pathlib.Path(inspect.getsourcefile(c)).resolve()) for c in owners}
    wrapper_names = set()
    for c in owners:
        for name, obj in vars(c).items():
            if inspect.isfunction(obj) and not (name.startswith("__") and name.endswith("__")):
                if (owner_file[c], c.__name__, name) not in method_defs:
                    raise GenError(f"{c.__name__}.{name}", "method without a plain definition in the class body (assigned / decorated away?)")
                wrapper_names.add(name)
            elif not name.startswith("__") and callable(obj) and not isinstance(obj, type):
                raise GenError(f"{c.__name__}.{name}", f"callable attribute of kind {type(obj).__name__}")
    both = wrapper_names & commands
    if both:
        raise GenError("ProtocolHandler", f"methods shadow EZSP commands: {sorted(both)}")

    # ---- analyse every function of every scanned module once
    analysed = {}                  # (file, qualname) -> FlowTr
    order = []
    for f, tree in trees.items():
        ns = _st_module_ns(f, tree)
        rel = str(f.relative_to(repo))
        self_is_ezsp = rel.startswith("bellows/ezsp/")
        todo = list(_st_functions(tree))
        seen = set()
        while todo:
            q, node, cls = todo.pop(0)
            if (f, q) in seen:
                raise GenError(f"{rel}:{q}", "defined twice")
            seen.add((f, q))
            tr = FlowTr(f"{rel}:{q} (source)", ns, commands, wrapper_names, self_is_ezsp).run(node)
            analysed[(f, q)] = (tr, node, cls)
            order.append((f, q))
            for n in tr.nested:
                if isinstance(n, ast.ClassDef):
                    todo += [(f"{q}.<locals>.{a}", b, c_) for a, b, c_ in _st_functions(ast.Module(body=[n], type_ignores=[]))]
                else:
                    todo.append((f"{q}.<locals>.{n.name}", n, None))

    # ---- wrapper table
    rows, covered = [], {}
    for v in versions:
        c = vclass[v]
        for name in sorted(wrapper_names):
            definer = next((k for k in c.__mro__ if k in owners and name in vars(k)), None)
            if definer is None:
                continue
            tr, node, _ = analysed[(owner_file[definer], f"{definer.__name__}.{name}")]
            if getattr(c, name) is not vars(definer)[name]:
                raise GenError(f"{c.__name__}.{name}", "resolves to something else than the function in the class body")
            declared = _st_annotation_positions(node)
            if not tr.returns:
                continue
            if declared and not isinstance(node, ast.AsyncFunctionDef):
                raise GenError(f"{definer.__name__}.{name}", "a status-returning wrapper that is not a coroutine function")
            for path, key in enumerate(sorted(tr.returns)):
                src, vals = tr.returns[key]
                # (position, value) pairs of this return statement
                cells = []
                for val in sorted(vals, key=repr):
                    if val[0] == "tuple":
                        cells += [(i, x) for i, s_ in enumerate(val[1]) for x in sorted(s_, key=repr)]
                        if any(p is None for p in declared):
                            raise GenError(f"{definer.__name__}.{name}", f"declared to return a status, returns a tuple: `{src}`")
                    else:
                        cells.append((None, val))
                        if any(p is not None for p in declared):
                            raise GenError(f"{definer.__name__}.{name}", f"declared to return a tuple with a status, returns `{src}`")
                for pos, val in cells:
                    kind = None
                    if val[0] == "conv":
                        inner = val[1]
                        if len(inner) != 1 or next(iter(inner))[0] != "raw" or next(iter(inner))[2] is None:
                            raise GenError(f"{definer.__name__}.{name}", f"converts something that is not one field of a command's answer: `{src}`")
                        _, cmd, apos = next(iter(inner))
                        kind = ("KConv", cmd, apos)
                    elif val[0] == "raw" and val[2] is not None:
                        kind = ("KAsIs", val[1], val[2])
                    elif val[0] == "cast":
                        inner = val[2]
                        if len(inner) != 1 or next(iter(inner))[0] != "raw" or next(iter(inner))[2] is None:
                            raise GenError(f"{definer.__name__}.{name}", f"casts something that is not one field of a command's answer: `{src}`")
                        _, cmd, apos = next(iter(inner))
                        kind = (f"(KCast {val[1]})", cmd, apos)
                    elif val[0] == "member":
                        kind = (f"(KConst ({val[1]}, {val[2]}))", "", 0)
                    if kind is None:
                        if pos in declared:
                            raise GenError(f"{definer.__name__}.{name}", f"cannot tell where the status returned by `{src}` comes from")
                        continue
                    k, cmd, apos = kind
                    fc = _st_field_class(c, cmd, apos) if cmd else 2
                    if pos not in declared and (fc == ST_NOT_STATUS or (fc == ST_ABSENT and k == "KAsIs")) and k == "KAsIs":
                        continue            # an undeclared position handing on a field that is not a status
                    rows.append(f'mkW {v} {_coq_str(name)} {owners[definer]} {path} {_optN(pos)} {_coq_str(cmd)} {apos} {fc} {k}'
                                f'   (* {definer.__name__}.{name}: {_cmt(src)[:90]} *)')
                    covered.setdefault(name, set()).add(v)
                for pos in declared:
                    if not any(p == pos for p, _ in cells):
                        raise GenError(f"{definer.__name__}.{name}", f"`{src}` has no element {pos}")
    if not rows:
        raise GenError("ProtocolHandler", "no status-returning wrapper found")

    # ---- comparison sites
    sites = []
    for f, q in order:
        tr, node, cls = analysed[(f, q)]
        rel = str(f.relative_to(repo))
        # versions in which this function is the one that runs (methods of handler classes), else all
        applicable = versions
        own = next((k for k in owners if owner_file[k] == f and k.__name__ == cls), None) if cls else None
        if own is not None and q == f"{cls}.{node.name}":
            applicable = [v for v in versions if next((k for k in vclass[v].__mro__ if k in owners and node.name in vars(k)), None) is own]
        for idx, key in enumerate(sorted(tr.sites)):
            src, members, vals = tr.sites[key]
            provs = set()
            for val in vals:
                if val[0] == "conv":
                    provs.add("PConv")
                elif val[0] == "wrapper":
                    provs.add(f"PWrapper {_coq_str(val[1])} {_optN(val[2])}")
                elif val[0] == "raw" and val[2] is not None:
                    cl = [(v, _st_field_class(vclass[v], val[1], val[2])) for v in applicable if val[1] in vclass[v].COMMANDS]
                    provs.add(f"PRaw {_coq_str(val[1])} {val[2]} [{'; '.join(f'({a}, {b})' for a, b in cl)}]")
                elif val[0] == "cast":
                    provs.add(f"PCast {val[1]}")
                elif val[0] == "member":
                    provs.add(f"PMember ({val[1]}, {val[2]})")
                elif val[0] == "param":
                    provs.add(f"PParam {_coq_str(val[1])}")
                else:
                    provs.add("PUnknown")
            sites.append(f"mkS {_coq_str(rel)} {_coq_str(q)} {idx} [{'; '.join(f'({a}, {b})' for a, b in members)}] [{'; '.join(sorted(provs))}]"
                         f"   (* {_cmt(src)[:100]} *)")
    return rows, sites, versions, sorted(covered)


def _coq_list(name, ty, items, per_line=True):
    lines = []
    for i, r in enumerate(items):
        term, _, cm = r.partition("   (*")
        lines.append(f"{term}{';' if i < len(items) - 1 else ''}" + (f"   (*{cm}" if cm else ""))
    return f"Definition {name} : list {ty} :=\n  [" + "\n   ".join(lines) + "\n  ].\n\n"


def gen_status_fn() -> str:
    import bellows.types as t
    named, tree, cls_node, fn, map_stmt = _st_named_parts()
    ns = vars(named)
    out = [ST_PRELUDE]
    sub = _st_python_facts()
    out.append("(* issubclass(a, b) on the live classes *)\n"
               f"Definition py_subclasses : list (pyclass * pyclass) := [{'; '.join(f'({a}, {b})' for a, b in sub)}].\n"
               "Definition py_isinstance (s : pystatus) (c : pyclass) : bool :=\n"
               "  existsb (fun ab => (fst ab =? py_type s) && (snd ab =? c)) py_subclasses.\n\n")
    out.append(_st_map_def(named, map_stmt))

    # ---- from_ember_status
    where = "sl_Status.from_ember_status (source)"
    if [ast.unparse(d) for d in fn.decorator_list] != ["classmethod"]:
        raise GenError(where, f"decorators {[ast.unparse(d) for d in fn.decorator_list]} (expected exactly @classmethod: a cache keyed by the "
                              "bare value would confuse the families, whose values compare and hash as integers)")
    a = fn.args
    if [x.arg for x in a.args] != ["cls", "status"] or a.posonlyargs or a.kwonlyargs or a.vararg or a.kwarg or a.defaults:
        raise GenError(where, f"parameters `{ast.unparse(a)}`")
    if not isinstance(vars(t.sl_Status).get("from_ember_status"), classmethod) or named.sl_Status is not t.sl_Status:
        raise GenError(where, "the live attribute is not the classmethod of the class body")
    live_src = textwrap.dedent(inspect.getsource(vars(t.sl_Status)["from_ember_status"].__func__))
    if ast.dump(ast.parse(live_src).body[0]) != ast.dump(fn):
        raise GenError(where, "the live function is not the one in the class body")
    clean = _StripLogs().visit(ast.parse(live_src).body[0])
    stripped = [ast.unparse(s)[:70] for s in ast.walk(fn) if isinstance(s, ast.Expr) and isinstance(s.value, ast.Call)
                and ast.unparse(s.value.func).split(".")[0] in ("LOGGER", "_LOGGER")]
    tr = StTr(where, ns, {"cls": ("cls", "class"), "status": ("status", "status")})
    term = tr.stmts(list(clean.body))
    out.append("(* from the source of sl_Status.from_ember_status; cls: the class the method is called on; the result is the value\n"
               "   returned or the exception an operation of the body raises.  Log calls removed: "
               + "; ".join(_cmt(s).replace("\n", " ") for s in stripped) + " *)\n"
               f"Definition py_from_ember_status (cls : pyclass) (status : pystatus) : pyres :=\n{textwrap.indent(term, '  ')}.\n\n")

    rows, sites, versions, covered = _st_wrappers_and_sites()
    out.append("(* ---- the wrappers of the protocol handlers that return a status, one row per version x wrapper x return\n"
               "   statement x status position (from the AST of the function that version's class resolves the name to) *)\n")
    out.append(f"Definition py_versions : list N := [{'; '.join(str(v) for v in versions)}].\n")
    out.append(f"Definition py_wrapper_names : list string := [{'; '.join(_coq_str(n) for n in covered)}].\n\n")
    out.append(_coq_list("py_wrappers", "wrapper_row", rows))
    out.append("(* ---- every comparison (== != is in, also inside assert / while / conditional expressions) of a value with members\n"
               "   of the three status classes in bellows/ezsp/*.py, bellows/ezsp/vN/__init__.py, bellows/multicast.py and\n"
               "   bellows/zigbee/*.py: module, function, ordinal inside the function, the members, where the other operand\n"
               "   comes from on the paths that reach the comparison (bellows/cli is not part of the controller and not scanned) *)\n")
    out.append(_coq_list("py_compare_sites", "compare_site", sites))
    return "".join(out)
