"""C15: real bellows.multicast.Multicast against a simulated NCP multicast table."""
import asyncio
import itertools

from framework import PropertyCheck

T_LOST, T_APPLIED = 1000, 1001
GROUPS = [0x11, 0x22, 0x33]


class FakeNcp:
    def __init__(self, table):
        self.table = [list(e) for e in table]
        self.size_status = 0
        self.read_status = []
        self.answer = 0
        self.writes = []
        self.sl = False            # a v14 NCP: unified statuses

    async def getConfigurationValue(self, cfg):
        import bellows.types as t
        return t.EmberStatus(self.size_status), len(self.table)

    async def getMulticastTableEntry(self, i):
        import bellows.types as t
        st = self.read_status[i] if i < len(self.read_status) else 0
        e = t.EmberMulticastTableEntry()
        e.multicastId = t.EmberMulticastId(self.table[i][0])
        e.endpoint = t.uint8_t(self.table[i][1])
        e.networkIndex = t.uint8_t(0)
        return t.EmberStatus(st), e

    async def setMulticastTableEntry(self, idx, entry):
        import bellows.types as t
        await asyncio.sleep(0)          # a real command suspends its caller until the response arrives
        self.writes.append((int(idx), int(entry.multicastId), int(entry.endpoint)))
        a = self.answer
        if a == T_LOST:
            raise asyncio.TimeoutError()
        if a == T_APPLIED or a == 0:
            self.table[idx] = [int(entry.multicastId), int(entry.endpoint)]
        if a == T_APPLIED:
            raise asyncio.TimeoutError()
        return ((t.sl_Status if self.sl else t.EmberStatus)(a),)


# coordinator layouts for Multicast.startup(): endpoint id -> groups the endpoint is a member of (endpoint 0 is skipped by
# the library; a group may be listed by several endpoints)
LAYOUTS = [{1: [0x11]}, {1: [0x11], 2: [0x11]}, {1: [0x11, 0x22], 2: [0x22]}, {0: [0x33], 1: [0x11], 2: [0x11, 0x22], 3: [0x11]},
           {1: [0x11, 0x22, 0x33]}, {}]


class FakeCoordinator:
    def __init__(self, layout):
        import types
        self.endpoints = {ep: types.SimpleNamespace(member_of={g: None for g in groups}) for ep, groups in layout.items()}


def startup_calls(layout, writes):
    """The subscribe calls one Multicast.startup() makes for this layout, as the model's Startup operation takes them:
    (group, index set.pop() returned) per call.  The index is read off the implementation's own writes, which are matched
    to the calls in order by their group id; a call that issued no write gets 0 (the model does not consult it unless it
    reaches the pop, in which case it writes where the implementation did not and the two disagree)."""
    calls, k = [], 0
    for ep, groups in layout.items():
        if ep == 0:
            continue
        for g in groups:
            if k < len(writes) and writes[k][1] == g:
                calls.append((g, writes[k][0]))
                k += 1
            else:
                calls.append((g, 0))
    return calls


def initial_tables(size):
    """NCP tables of this size in which each group appears at most once (entries: group, endpoint)."""
    if size == 0:
        return [[]]
    out = [[(0, 0)] * size]                                # empty
    out.append([(GROUPS[i % 3], 1) for i in range(min(size, 3))] + [(0, 0)] * max(0, size - 3))  # (nearly) full
    if size >= 2:
        out.append([(GROUPS[1], 1)] + [(0, 0)] * (size - 1))
        out.append([(0, 0)] * (size - 1) + [(GROUPS[0], 2)])
        out.append([(GROUPS[2], 0)] + [(GROUPS[0], 1)] + [(0, 0)] * (size - 2))   # stale id with endpoint 0
    # any non-zero endpoint byte means "in use", also the values above the application range (240, 241 reserved,
    # 242 Green Power, 255)
    out.append([(GROUPS[0], 242)] + [(0, 0)] * (size - 1))
    if size >= 2:
        out.append([(GROUPS[1], 255), (GROUPS[2], 240)] + [(0, 0)] * (size - 2))
        out.append([(GROUPS[i % 3], (241, 254, 128)[i % 3]) for i in range(min(size, 3))] + [(0, 0)] * max(0, size - 3))
    return out


class Check(PropertyCheck):
    pid = "C15"
    gen_files = ["GenStatus", "GenMulticastFn", "GenMulticastInitFn"]
    model_imports = ["gen.GenStatus", "model.Status", "model.Multicast"]
    run_expr = "run_case"
    case_type = "(list (N * N) * list (N * N * N * N * list N * list (N * N)))"
    shard = 300
    rule = ("start-up (table scan, and Multicast.startup() re-subscribing coordinator layouts in which several endpoints list one group -- compared "
            "with the model's Startup operation: all the table writes of the call, in order, its outcome and the state after it) then every subscribe/unsubscribe sequence up to a length bound over 3 groups, table sizes 0..4, "
            "each write answered {success, rejection (every status of the legacy and of the unified family), timeout (write lost), timeout (write applied)}, from initial NCP tables in "
            "which each group appears at most once; plus random longer sequences incl. unreadable entries; non-trivial = at "
            "least one table write was issued; distinct by (table, op sequence)")
    assumptions = ["the NCP applies a table write iff it answers success (or applied it before the response was lost)"]

    def case_from_json(self, j):
        return {"table": [tuple(e) for e in j["table"]], "init": (j["init"][0], list(j["init"][1])),
                "ops": [tuple(o) for o in j["ops"]], "sl": bool(j.get("sl"))}

    def setup(self):
        import stack
        self.loop = stack.new_loop()

    def teardown(self):
        self.loop.close()

    def _ops(self, answers):
        ops = []
        for g in GROUPS:
            for a in answers:
                ops.append(("sub", g, a))
                ops.append(("unsub", g, a))
        return ops

    def build_cases(self, tier, rng):
        cases = []
        ex_len = 2 if tier == "quick" else 3
        sizes = range(0, 4) if tier == "quick" else range(0, 5)
        ops = self._ops([0, 1, T_LOST, T_APPLIED])
        for size in sizes:
            for tbl in initial_tables(size):
                for n in range(0, ex_len + 1):
                    for seq in itertools.product(ops, repeat=n):
                        cases.append({"table": tbl, "init": (0, []), "ops": list(seq)})
        # a further table scan (start-up after a restart of the application) after accepted subscribe / unsubscribe calls: an
        # unsubscribe leaves (group, endpoint 0) in its slot, so the table now holds stale ids and repeated ids
        okops = [(k, g, 0) for g in GROUPS for k in ("sub", "unsub")]
        for size in (2, 3):
            for tbl in initial_tables(size):
                for n in (2, 3) if tier == "quick" else (2, 3, 4):
                    for seq in itertools.product(okops, repeat=n):
                        if tier == "quick" and n == 3 and rng.random() < 0.7:
                            continue
                        cases.append({"table": tbl, "init": (0, []), "ops": list(seq) + [("init", 0, 0), ("sub", GROUPS[2], 0)]})
        # every rejection status of the family (some steer the library: index out of range, table full, busy ...): a
        # rejected write leaves the free indices as they were, whatever the status; legacy and unified (v14) families
        for sl in (False, True):
            codes = list(range(1, 256)) + ([0x0C01, 0x0C1E, 0xFFFF] if sl else [])
            for code in codes:
                cases.append({"table": [(0, 0)], "init": (0, []), "sl": sl,
                              "ops": [("sub", GROUPS[0], code), ("sub", GROUPS[0], 0), ("unsub", GROUPS[0], code), ("unsub", GROUPS[0], 0)]})
            if tier == "quick":
                codes = sorted(set([1, 2, 0x21, 0x27, 0x70, 0xB1, 0xB4, 0xB5] + rng.sample(codes, 24)))
            for code in codes:
                cases.append({"table": [(0, 0), (GROUPS[1], 1)], "init": (0, []), "sl": sl,
                              "ops": [("sub", GROUPS[0], code), ("sub", GROUPS[2], 0), ("sub", GROUPS[0], 0)]})
        # Multicast.startup(coordinator): the table scan followed by the re-subscription of the coordinator's groups
        for size in sizes:
            for tbl in initial_tables(size):
                for li in range(len(LAYOUTS)):
                    for a in (0, 1, T_LOST, T_APPLIED):
                        for after in ([], [("unsub", GROUPS[0], 0)], [("sub", GROUPS[2], 0), ("unsub", GROUPS[0], 0), ("sub", GROUPS[1], 0)]):
                            cases.append({"table": tbl, "init": (0, []), "ops": [("startup", li, a)] + after})
        nrand = 1200 if tier == "quick" else 12000
        ops_r = self._ops([0, 0, 0x01, 0x70, 0xB5, T_LOST, T_APPLIED])
        for _ in range(nrand):
            size = rng.randrange(0, 5)
            tbl = rng.choice(initial_tables(size))
            n = rng.randrange(3, 10)
            init = (0, [])
            r = rng.random()
            if r < 0.1:
                init = (rng.choice([1, 0x24]), [])
            elif r < 0.25:
                init = (0, [rng.choice([0, 0, 1]) for _ in range(size)])
            seq = [rng.choice(ops_r) for _ in range(n)]
            if rng.random() < 0.15:
                seq.insert(rng.randrange(len(seq)), ("init", 0, 0))
            cases.append({"table": tbl, "init": init, "ops": seq})
        # start-up anywhere in a sequence (the application restarts and re-subscribes the coordinator's groups).  Up to that
        # start-up every call is answered with success or a refusal: such calls keep each group at most once in the NCP table
        # (c15_mirror_distinct), so the scan is of a table the property speaks of; the start-up's own writes get any answer
        ansops = [(k, g, a) for g in GROUPS for k in ("sub", "unsub") for a in (0, 1)]
        prefixes = [[o] for o in ansops] + [list(p) for p in itertools.product(ansops, repeat=2)]
        prefixes += [[("startup", li, a0), o] for li in range(len(LAYOUTS)) for a0 in (0, 1) for o in ansops[:4]]
        for size in (2, 3):
            for tbl in initial_tables(size):
                for pre in prefixes:
                    if tier == "quick" and len(pre) == 2 and rng.random() < 0.8:
                        continue
                    for _ in range(1 if tier == "quick" else 4):
                        li, a = rng.randrange(len(LAYOUTS)), rng.choice((0, 1, T_LOST, T_APPLIED))
                        cases.append({"table": tbl, "init": (0, []), "ops": pre + [("startup", li, a), ("sub", GROUPS[2], 0)]})
        # random longer sequences with one start-up, placed no later than the first call that ends in a timeout
        for _ in range(nrand // 4):
            size = rng.randrange(0, 5)
            tbl = rng.choice(initial_tables(size))
            seq = [rng.choice(ops_r) for _ in range(rng.randrange(3, 10))]
            first_timeout = next((i for i, o in enumerate(seq) if o[2] in (T_LOST, T_APPLIED)), len(seq))
            seq.insert(rng.randrange(first_timeout + 1), ("startup", rng.randrange(len(LAYOUTS)), rng.choice((0, 0, 1, 0x70, T_LOST, T_APPLIED))))
            cases.append({"table": tbl, "init": (0, []), "ops": seq})
        return cases

    def run_impl(self, case):
        import bellows.multicast
        ncp = FakeNcp(case["table"])
        ncp.sl = bool(case.get("sl"))
        mc = bellows.multicast.Multicast(ncp)
        out = []

        def snap(ret, writes):
            return {"ret": ret, "write": list(writes[-1]) if writes else None, "nwrites": len(writes),
                    "writes": [list(w) for w in writes],
                    "subs": [int(g) for g in mc._multicast], "used": [int(v[1]) for v in mc._multicast.values()],
                    "avail": sorted(int(i) for i in mc._available),
                    "ncp": [list(e) for e in ncp.table]}

        async def go():
            ncp.size_status, ncp.read_status = case["init"]
            await mc._initialize()
            out.append(snap(0, []))
            for kind, g, a in case["ops"]:
                ncp.writes = []
                if kind == "init":
                    ncp.size_status, ncp.read_status = 0, []
                    await mc._initialize()
                    out.append(snap(0, []))
                    continue
                if kind == "startup":
                    ncp.size_status, ncp.read_status = 0, []
                    ncp.answer = a
                    try:
                        await mc.startup(FakeCoordinator(LAYOUTS[g]))
                        r = 0
                    except asyncio.TimeoutError:
                        r = -1
                    out.append(snap(r, ncp.writes))
                    continue
                ncp.answer = a
                try:
                    if kind == "sub":
                        r = int(await mc.subscribe(g))
                    else:
                        r = int(await mc.unsubscribe(g))
                except asyncio.TimeoutError:
                    r = -1
                except BaseException as e:  # noqa
                    r = -2
                    out.append({"crash": repr(e)})
                    return
                out.append(snap(r, ncp.writes))
        self.loop.run_until_complete(go())
        return out

    # ---- model side ---------------------------------------------------------------------
    def model_input(self, case):
        # the index Python's set.pop() chose is read off the implementation's own writes
        obs = case["_obs"]
        ops = [f"(0, {case['init'][0]}, 0, 0, [{';'.join(str(s) for s in case['init'][1])}], [])"]
        k = 1
        for kind, g, a in case["ops"]:
            o = obs[k] if k < len(obs) else {}
            k += 1
            if kind == "init":
                ops.append("(0, 0, 0, 0, [], [])")
                continue
            if kind == "startup":
                # one Startup operation of the model: the groups of the layout's endpoints other than 0 in iteration order
                # (duplicates kept), each with the index the implementation wrote for that call; a = the answer to every write
                calls = startup_calls(LAYOUTS[g], o.get("writes") or [])
                ops.append(f"(3, 0, 0, {a}, [], [{';'.join(f'({gg},{c})' for gg, c in calls)}])")
                continue
            choice = o["write"][0] if o.get("write") else 0
            ops.append(f"({1 if kind == 'sub' else 2}, {g}, {choice}, {a}, [], [])")
        tbl = "[" + ";".join(f"({g},{e})" for g, e in case["table"]) + "]"
        return f"({tbl}, [{'; '.join(ops)}])"

    def obs_to_z(self, case, obs):
        z = []
        for o in obs:
            if "crash" in o:
                z.append(-99)
                continue
            z.append(o["ret"])
            z.append(len(o["writes"]))          # every table write of the call, in order (the model's enc_writes)
            for w in o["writes"]:
                z += w
            z += [len(o["subs"])] + o["subs"] + [sum(1 << i for i in o["avail"])]
            for g, e in o["ncp"]:
                z += [g, e]
        return z

    def run_and_attach(self, case):
        obs = self.run_impl_raw(case)
        return obs

    # framework calls run_impl then model_input(case): attach the observation for `choice`
    def describe(self, case):
        return {"table": case["table"], "init": case["init"], "ops": case["ops"], "sl": bool(case.get("sl"))}

    def monitor(self, case, obs):
        size = len(case["table"])
        clean = case["init"] == (0, []) or (case["init"][0] == 0 and not any(case["init"][1]))
        timeouts = False
        prev = None
        ops = [("init0", 0, 0)] + list(case["ops"])
        for k, (o, (kind, g, a)) in enumerate(zip(obs, ops)):
            if "crash" in o:
                return f"op {k} {kind}: unexpected exception {o['crash']}"
            if kind == "init":
                prog = [ge[0] for ge in o["ncp"] if ge[1] != 0]
                # the property speaks of tables in which each group appears at most once
                clean, timeouts = len(prog) == len(set(prog)), False
            if kind == "startup":
                # the scan happens first; the initial table has each group at most once, and re-subscribing the coordinator's
                # groups must keep it so, however many endpoints list a group
                prog = [ge[0] for ge in o["ncp"] if ge[1] != 0]
                if a == 0 and len(prog) != len(set(prog)):
                    return f"op {k} startup: a group is programmed into two table indices: {o['ncp']}"
                if a == 0:
                    want = {g for ep, gs in LAYOUTS[g].items() if ep != 0 for g in gs} if isinstance(g, int) else set()
                    have_room = len(set(prog) | want) <= size
                    if have_room and not want <= set(o["subs"]):
                        return f"op {k} startup: the coordinator's groups {sorted(want)} are not all subscribed: {sorted(o['subs'])}"
                timeouts = timeouts or a in (T_LOST, T_APPLIED)
            if a in (T_LOST, T_APPLIED) and o.get("write"):
                timeouts = True
            used, avail = o["used"], o["avail"]
            if len(set(used)) != len(used) or set(used) & set(avail):
                return f"op {k} {kind}: an index is both free and used, or used twice (used={used}, free={avail})"
            if clean and sorted(used + avail) != list(range(size)):
                return f"op {k} {kind}: indices {sorted(set(range(size)) - set(used) - set(avail))} are neither free nor used"
            if clean and not timeouts:
                programmed = sorted(ge[0] for ge in o["ncp"] if ge[1] != 0)
                if sorted(o["subs"]) != programmed:
                    return f"op {k} {kind}: host reports {sorted(o['subs'])} but the NCP table has {programmed}"
            if kind == "startup":
                prev = o
                continue
            if prev is not None and kind in ("sub", "unsub"):
                failed = o["ret"] != 0
                if failed and len(avail) != len(prev["avail"]):
                    return (f"op {k} {kind}({g:#x}) failed ({'timeout' if o['ret'] == -1 else o['ret']}) and changed the "
                            f"number of free indices {len(prev['avail'])} -> {len(avail)}")
                if kind == "sub" and a == T_LOST and o["nwrites"] and o["ret"] == 0 and g not in prev["subs"] \
                        and not any(ge[0] == g and ge[1] != 0 for ge in o["ncp"]):
                    return (f"op {k}: the table write of subscribe({g:#x}) ended in a command timeout and was never applied, yet the "
                            f"call reported success: the host reports {sorted(o['subs'])} subscribed and "
                            f"{len(prev['avail'])} -> {len(avail)} free indices, the NCP table is {o['ncp']}")
                if kind == "sub" and g in prev["subs"] and (o["ret"] != 0 or o["nwrites"]):
                    return f"op {k}: subscribing to an already subscribed group wrote to the table or failed"
                if kind == "sub" and g not in prev["subs"] and not prev["avail"] and (o["ret"] == 0 or o["nwrites"]):
                    return f"op {k}: subscribing with no free index did not report failure"
                if o["nwrites"] > 1:
                    return f"op {k}: more than one table write"
            prev = o
        return None

    def nontrivial(self, case, obs):
        return any(o.get("nwrites") for o in obs)

    def signature(self, case, obs, why):
        import re
        return "multicast:" + re.sub(r"op \d+ ", "", why)[:60]

    def shrink(self, case, still_fails):
        ops = list(case["ops"])
        changed = True
        while changed and ops:
            changed = False
            for i in range(len(ops)):
                cand = dict(case, ops=ops[:i] + ops[i + 1:])
                if still_fails(cand):
                    ops = cand["ops"]
                    changed = True
                    break
        return dict(case, ops=ops)


# the model needs the implementation's set.pop() choices: wrap run_impl to remember the observation
_orig_run = Check.run_impl


def _run(self, case):
    obs = _orig_run(self, case)
    case["_obs"] = obs
    return obs


Check.run_impl = _run
