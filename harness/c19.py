"""C19: watchdog feed -- real ControllerApplication._watchdog_feed on a scripted command layer."""
import asyncio
import itertools

from framework import PropertyCheck

NAMES = {"nop": 1, "readCounters": 2, "readAndClearCounters": 3, "getValue": 4}


def _cb_args_rollover():
    import bellows.types as t
    return [t.EmberCounterType(0)]


# NCP callbacks that may arrive between two feeds: one the application handles, two it ignores
CALLBACKS = {1: [("counterRolloverHandler", _cb_args_rollover)],
             2: [("stackTokenChangedHandler", lambda: [0x1234])],
             3: [("counterRolloverHandler", _cb_args_rollover), ("childJoinHandler", lambda: [])]}


class Check(PropertyCheck):
    pid = "C19"
    gen_files = ["GenApp", "GenWatchdogFn"]
    model_imports = ["gen.GenApp", "model.Watchdog"]
    run_expr = ("(fun c : N * list (N * N) => encode_run (run MAX_WATCHDOG_FAILURES "
                "EZSP_COUNTERS_CLEAR_IN_WATCHDOG_PERIODS (fst c) winit "
                "(map (fun p => (ans_of (fst p), ans_of (snd p))) (snd c))))")
    rule = ("all outcome sequences up to a length bound over {ok, timeout, EZSP error} on the keep-alive command and "
            "on the free-buffer read, for protocol version 4 and 8 (exhaustive up to the bound), plus long runs "
            "crossing the counter-clear period, and failure runs with NCP callbacks delivered between the feeds; non-trivial = contains at least one failure; distinct by (version, sequence)")
    assumptions = ["outcomes other than success / asyncio.TimeoutError / EzspError are outside the property"]

    def setup(self):
        import stack
        self.stack = stack
        self.loop = stack.new_loop()
        self.apps = {}

    def teardown(self):
        self.loop.close()

    def _app(self, v):
        if v not in self.apps:
            async def mk():
                return self.stack.make_app(v)
            self.apps[v] = self.loop.run_until_complete(mk())
        return self.apps[v]

    def build_cases(self, tier, rng):
        cases = []
        l4 = 6 if tier == "quick" else 8
        l8 = 4 if tier == "quick" else 6
        for n in range(0, l4 + 1):
            for seq in itertools.product([(0, 0), (1, 0), (2, 0)], repeat=n):
                cases.append((4, list(seq)))
        # second component: the free-buffer read -- ok / timeout / EZSP error / answered with an error status (3)
        outs8 = [(0, 0), (1, 0), (2, 0), (0, 1), (0, 2), (0, 3)]
        for n in range(0, l8 + 1):
            for seq in itertools.product(outs8, repeat=n):
                cases.append((8, list(seq)))
        # callbacks of the NCP between the feeds of a failure run (the commands fail, the NCP still pushes callbacks)
        l_cb = 6 if tier == "quick" else 7
        for v in (4, 8):
            for seq in itertools.product([(0, 0), (1, 0), (2, 0)], repeat=l_cb):
                if tier == "quick" and sum(1 for a in seq if a[0]) < 5:
                    continue
                for j in range(1, l_cb):
                    cases.append((v, list(seq), {j: 1 + (j + len(cases)) % 3}))
        for v in (4, 5, 8, 13, 14):
            for _ in range(2 if tier == "quick" else 10):
                p_fail = rng.choice([0.1, 0.5, 0.8])
                seq = [rng.choice(outs8[1:]) if rng.random() < p_fail else (0, 0) for _ in range(400)]
                cases.append((v, seq))
        return cases

    def run_impl(self, case):
        import bellows.types as t
        from bellows.exception import EzspError, InvalidCommandError
        v, seq = case[:2]
        inject = case[2] if len(case) > 2 else {}
        app = self._app(v)
        # what _watchdog_loop does when it starts
        app._watchdog_failures = 0
        app._watchdog_feed_counter = 0
        seen = []
        cur = {}

        async def handler(name, args, kwargs):
            seen.append(name)
            first = name != "getValue"
            a = cur["a"][0 if first else 1]
            if a == 1:
                raise asyncio.TimeoutError()
            if a == 2:
                # the EZSP errors the real command path produces: "EZSP is not running" (EzspError) and the NCP answering
                # the keep-alive with an invalidCommand frame (InvalidCommandError, raised by ProtocolHandler.__call__)
                cur["n"] = cur.get("n", 0) + 1
                if cur["n"] % 2 and cur["n"] % 3:
                    raise InvalidCommandError(f"{name} command is an invalidCommand, was sent under 0 sequence number: ERROR_INVALID_FRAME_ID")
                raise EzspError("EZSP is not running")
            if name == "nop":
                return []
            if name in ("readCounters", "readAndClearCounters"):
                return [[0] * len(t.EmberCounterType)]
            if name == "getValue":
                if a == 3:
                    return [t.EzspStatus.ERROR_INVALID_ID, b""]
                return [t.EzspStatus.SUCCESS, b"\x07"]
            raise AssertionError(f"unexpected keep-alive command {name}")

        self.stack.script_commands(app._ezsp, handler)
        out = []
        ez = app._ezsp
        if not getattr(ez, "_c19_spy", False):
            orig_command = ez._command

            async def spy(name, *a, **k):
                if not ez.is_ezsp_running:
                    spy.seen.append(name)      # refused by EZSP itself ("EZSP is not running") before it reaches the handler
                return await orig_command(name, *a, **k)
            ez._command = spy
            ez._c19_spy = True
        ez._command.seen = seen
        stops = {"n": 0}

        async def go():
            for k, a in enumerate(seq):
                # callbacks of the NCP delivered between two feeds (the NCP keeps talking while its commands fail): they are
                # no keep-alive outcomes
                for name, args in CALLBACKS.get(inject.get(k), []):
                    try:
                        app.ezsp_callback_handler(name, list(args()))
                    except BaseException as e:  # noqa
                        out.append(["callback:" + type(e).__name__, []])
                cur["a"] = a
                del seen[:]
                # every third EZSP-error outcome is the real thing: the EZSP layer is stopped at the time of the feed (a stack
                # reset in progress / failed) and refuses the keep-alive by itself
                stopped = False
                if a[0] == 2:
                    stops["n"] += 1
                    stopped = stops["n"] % 3 == 0
                if stopped:
                    ez.stop_ezsp()
                try:
                    await app._watchdog_feed()
                    raised = None
                except BaseException as e:  # noqa
                    raised = type(e).__name__
                finally:
                    if stopped:
                        ez.start_ezsp()
                out.append([raised, list(seen)])
        self.loop.run_until_complete(go())
        return out

    def describe(self, case):
        v, seq = case[:2]
        return {"callbacks_before_feed": {str(k + 1): [n for n, _ in CALLBACKS[c]] for k, c in (case[2] if len(case) > 2 else {}).items()},
                "version": v, "outcomes": "".join("OTE"[a] + ("" if b == 0 else "-te?"[b]) for a, b in seq)[:120],
                "len": len(seq)}

    def model_input(self, case):
        v, seq = case[:2]
        return f"({v}, [" + ";".join(f"({a},{b})" for a, b in seq) + "])"

    def obs_to_z(self, case, obs):
        z = []
        for raised, cmds in obs:
            z.append(1 if raised else 0)
            z.append(len(cmds))
            z += [NAMES.get(c, 99) for c in cmds]
        return z

    def monitor(self, case, obs):
        """independent statement of the property on the implementation's own trace"""
        import bellows.zigbee.application as A
        v, seq = case[:2]
        if any(str(r[0]).startswith("callback:") for r in obs):
            return f"an NCP callback raised out of the application's callback handler: {[r[0] for r in obs if str(r[0]).startswith('callback:')][:1]}"
        streak = 0
        for k, ((a1, a2), (raised, cmds)) in enumerate(zip(seq, obs), 1):
            failed = a1 != 0 or (v != 4 and a2 in (1, 2))
            streak = streak + 1 if failed else 0
            want = failed and streak > A.MAX_WATCHDOG_FAILURES
            if bool(raised) != want:
                return f"feed #{k}: raised={raised} but failed={failed}, consecutive failures={streak}"
            if raised and raised not in ("TimeoutError", "EzspError", "InvalidCommandError", "CancelledError"):
                return f"feed #{k}: unexpected exception {raised}"
            if v == 4:
                exp = ["nop"]
            else:
                exp = ["readAndClearCounters" if k % A.EZSP_COUNTERS_CLEAR_IN_WATCHDOG_PERIODS == 0 else "readCounters"] + (["getValue"] if a1 == 0 else [])
            if cmds != exp:
                return f"feed #{k}: keep-alive commands {cmds}, expected {exp}"
        return None

    def nontrivial(self, case, obs):
        return any(a or b for a, b in case[1])

    def signature(self, case, obs, why):
        return "watchdog:" + why.split(":")[0]

    def shrink(self, case, still_fails):
        if len(case) > 2:
            return case
        v, seq = case
        seq = list(seq)
        changed = True
        while changed and len(seq) > 1:
            changed = False
            for i in range(len(seq)):
                cand = seq[:i] + seq[i + 1:]
                if still_fails((v, cand)):
                    seq = cand
                    changed = True
                    break
        return (v, seq)
