"""Shared machinery for the per-property checks.

Flow of a check (see DESIGN.md section 2 and 5):
  gen -> make props/Cxx.vo -> correspondence (impl vs Coq model via cases.v + vm_compute)
      -> monitor on the implementation's own observations -> report / evidence
"""
from __future__ import annotations

import fcntl
import hashlib
import json
import os
import random
import re
import subprocess
import sys
import time
from pathlib import Path

VERIF = Path(__file__).resolve().parent.parent
REPO = Path(os.environ.get("VERIF_REPO", "/repo"))
COQ = VERIF / "coq"
EVID = VERIF / "evidence"
REPLAYS = EVID / "replays"
PY = "/venv/bin/python"
LOGICAL = "BV"

if str(REPO) not in sys.path:
    sys.path.insert(0, str(REPO))


def seed_from_env(default=20260930) -> int:
    try:
        return int(os.environ.get("VERIF_SEED", default))
    except ValueError:
        return default


# --------------------------------------------------------------------------------------
# Gallina literals
# --------------------------------------------------------------------------------------
class G(str):
    """Raw Gallina text."""


def gal(x) -> str:
    """Python value -> Gallina term (numbers are read in N_scope; negative -> Z)."""
    if isinstance(x, G):
        return str(x)
    if isinstance(x, bool):
        return "true" if x else "false"
    if isinstance(x, int):
        return str(int(x)) if x >= 0 else f"({int(x)})%Z"
    if x is None:
        return "None"
    if isinstance(x, (bytes, bytearray)):
        return "[" + ";".join(str(b) for b in x) + "]"
    if isinstance(x, list):
        return "[" + "; ".join(gal(e) for e in x) + "]"
    if isinstance(x, tuple):
        if len(x) == 0:
            return "tt"
        return "(" + ", ".join(gal(e) for e in x) + ")"
    if isinstance(x, Some):
        return f"(Some {gal(x.v)})"
    raise TypeError(f"gal: {type(x)}")


class Some:
    def __init__(self, v):
        self.v = v


def zl(xs) -> G:
    """list of python ints -> list Z literal"""
    return G("[" + ";".join(str(int(v)) for v in xs) + "]%Z")


# --------------------------------------------------------------------------------------
# Coq build
# --------------------------------------------------------------------------------------
class CoqBuildError(Exception):
    def __init__(self, target, log):
        super().__init__(f"coq build of {target} failed")
        self.target = target
        self.log = log


class _Lock:
    def __enter__(self):
        COQ.mkdir(exist_ok=True)
        self.f = open(COQ / ".lock", "w")
        fcntl.flock(self.f, fcntl.LOCK_EX)
        return self

    def __exit__(self, *a):
        fcntl.flock(self.f, fcntl.LOCK_UN)
        self.f.close()


def coq_lock():
    return _Lock()


FORBIDDEN = re.compile(
    r"\b(Admitted|admit|Axiom|Axioms|Parameter|Parameters|Conjecture|Hypothesis|Variable)\b"
    r"|Unset\s+Guard|bypass_check|type-in-type|Admit\s+Obligations|native_compute"
)


def hygiene_gate() -> list[str]:
    """Reject any declared axiom / admitted proof in the development (comments stripped)."""
    bad = []
    for p in sorted(COQ.rglob("*.v")):
        if "cases" in p.parts:
            continue
        txt = p.read_text()
        # strip (* ... *) comments (non nested is enough for our files; nested handled by loop)
        prev = None
        while prev != txt:
            prev = txt
            txt = re.sub(r"\(\*[^*(]*(?:\*(?!\))[^*(]*|\((?!\*)[^*(]*)*\*\)", " ", txt)
        in_section = 0
        for ln, line in enumerate(txt.splitlines(), 1):
            if re.match(r"\s*Section\b", line):
                in_section += 1
            if re.match(r"\s*End\b", line) and in_section:
                in_section -= 1
            m = FORBIDDEN.search(line)
            if m:
                if m.group(1) in ("Variable", "Hypothesis") and in_section:
                    continue
                bad.append(f"{p.relative_to(COQ)}:{ln}: {m.group(0)}")
    return bad


def write_if_changed(path: Path, text: str) -> bool:
    if path.exists() and path.read_text() == text:
        return False
    path.parent.mkdir(parents=True, exist_ok=True)
    tmp = path.with_suffix(path.suffix + ".tmp%d" % os.getpid())
    tmp.write_text(text)
    os.replace(tmp, path)
    return True


def refresh_project():
    """(Re)write _CoqProject + Makefile when the file set changed. Caller holds the lock."""
    files = []
    for sub in ("lib", "gen", "model", "proofs", "props"):
        files += sorted(str(p.relative_to(COQ)) for p in (COQ / sub).glob("*.v"))
    proj = f"-Q . {LOGICAL}\n-arg -w -arg -notation-overridden,-deprecated-hint-without-locality,-deprecated-instance-without-locality\n" + "\n".join(files) + "\n"
    changed = write_if_changed(COQ / "_CoqProject", proj)
    if changed or not (COQ / "Makefile").exists():
        subprocess.run(
            ["coq_makefile", "-f", "_CoqProject", "-o", "Makefile"],
            cwd=COQ, check=True, capture_output=True,
        )


def coq_make(targets: list[str], timeout=1500, jobs=16) -> str:
    """make the given .vo targets (full .vo build). Raises CoqBuildError with the log."""
    with coq_lock():
        refresh_project()
        p = subprocess.run(
            ["timeout", str(timeout), "make", f"-j{jobs}", *targets],
            cwd=COQ, capture_output=True, text=True,
        )
    log = p.stdout + p.stderr
    if p.returncode != 0:
        raise CoqBuildError(" ".join(targets), log)
    return log


def coqc_file(path: Path, timeout=600) -> tuple[int, str]:
    p = subprocess.run(
        ["timeout", str(timeout), "coqc", "-Q", str(COQ), LOGICAL, "-w", "none", str(path)],
        cwd=COQ, capture_output=True, text=True,
    )
    return p.returncode, p.stdout + p.stderr


def first_error(log: str) -> str:
    """Name the file/lemma where a build log first fails."""
    m = re.search(r'File "([^"]+)", line (\d+), characters [^\n]*\n(Error:[^\n]*(?:\n[^\n]+){0,6})', log)
    if m:
        return f"{m.group(1)}:{m.group(2)}: {m.group(3).strip()}"
    tail = log.strip().splitlines()[-8:]
    return " | ".join(tail)


def enclosing_statement(file: str, line: int) -> str:
    """Name of the Lemma/Theorem/Definition enclosing a line of a .v file."""
    try:
        p = Path(file)
        if not p.is_absolute():
            p = COQ / file
        lines = p.read_text().splitlines()
    except OSError:
        return "?"
    for i in range(min(line, len(lines)) - 1, -1, -1):
        m = re.match(r"\s*(Theorem|Lemma|Corollary|Example|Definition|Fixpoint|Fact|Remark)\s+(\w+)", lines[i])
        if m:
            return f"{m.group(1)} {m.group(2)}"
    return "?"


# --------------------------------------------------------------------------------------
# theorems of a props file and their assumptions
# --------------------------------------------------------------------------------------
def props_theorems(pid: str) -> list[str]:
    txt = (COQ / "props" / f"{pid}.v").read_text()
    return re.findall(r"^\s*(?:Theorem|Corollary)\s+(\w+)", txt, flags=re.M)


def print_assumptions(pid: str) -> dict[str, str]:
    """Ask Coq for the axioms each property theorem depends on."""
    names = props_theorems(pid)
    d = COQ / "cases"
    d.mkdir(exist_ok=True)
    f = d / f"PA_{pid}_{os.getpid()}.v"
    body = f"Require Import {LOGICAL}.props.{pid}.\n"
    for n in names:
        body += f'Goal True. idtac "@@{n}". exact I. Qed.\nPrint Assumptions {n}.\n'
    f.write_text(body)
    rc, out = coqc_file(f, timeout=900)
    for ext in (".v", ".vo", ".vok", ".vos", ".glob"):
        try:
            f.with_suffix(ext).unlink()
        except OSError:
            pass
    try:
        (d / f".PA_{pid}_{os.getpid()}.aux").unlink()
    except OSError:
        pass
    res = {}
    if rc != 0:
        return {n: "ERROR: " + out[-300:] for n in names}
    chunks = out.split("@@")[1:]
    for c in chunks:
        name, _, rest = c.partition("\n")
        res[name.strip()] = " ".join(rest.split())
    return res


def coqchk(pid: str) -> dict:
    """independent re-check of the compiled property file and everything it depends on (thorough tier)"""
    p = subprocess.run(["timeout", "1800", "coqchk", "-silent", "-o", "-Q", str(COQ), LOGICAL, f"{LOGICAL}.props.{pid}"],
                       cwd=COQ, capture_output=True, text=True)
    out = p.stdout + p.stderr
    m = re.search(r"\* Axioms:(.*?)\* Constants/Inductives relying on type-in-type:(.*?)\* Constants/Inductives relying on unsafe"
                  r"(.*?)\* Inductives whose positivity is assumed:(.*)", out, flags=re.S)
    res = {"exit": p.returncode}
    if m:
        res["axioms"] = " ".join(m.group(1).split())
        res["type_in_type"] = " ".join(m.group(2).split())
        res["unsafe_fixpoints"] = " ".join(m.group(3).split()).lstrip("(co)fixpoints: ")
        res["assumed_positivity"] = " ".join(m.group(4).split())
    else:
        res["raw"] = out[-500:]
    return res


# --------------------------------------------------------------------------------------
# correspondence by cases.v + vm_compute
# --------------------------------------------------------------------------------------
def run_cases_in_coq(pid: str, imports: list[str], run_expr: str, cases: list[tuple],
                     shard=400, tag="", in_ty=None, preamble="") -> tuple[list[int], str]:
    """cases: list of (input_gallina, expected_list_of_ints).

    run_expr is a Gallina function  input -> list Z.
    Returns (indices of disagreeing cases, raw log).  Raises RuntimeError if coqc fails."""
    d = COQ / "cases"
    d.mkdir(exist_ok=True)
    shards = [cases[i:i + shard] for i in range(0, len(cases), shard)]
    procs = []
    paths = []
    for k, sh in enumerate(shards):
        name = f"K_{pid}_{tag}_{os.getpid()}_{k}"
        f = d / f"{name}.v"
        parts = [
            "From Coq Require Import ZArith NArith List Bool String.",
            "Import ListNotations.",
            *[f"Require Import {LOGICAL}.{m}." for m in imports],
            "Require Import BV.lib.CaseRun.",
            "Open Scope N_scope.",
            preamble,
            f"Definition run := {run_expr}.",
            (f"Definition cases : list ({in_ty} * list Z) := [" if in_ty else "Definition cases := ["),
        ]
        parts.append(";\n".join(f"({inp}, {zl(exp)})" for inp, exp in sh))
        parts.append("].")
        parts.append("Eval vm_compute in (bad_indices run cases).")
        f.write_text("\n".join(parts) + "\n")
        paths.append((k, f))
    bad = []
    logs = []
    # run up to 16 coqc in parallel
    pending = list(paths)
    running = []
    while pending or running:
        while pending and len(running) < 16:
            k, f = pending.pop(0)
            pr = subprocess.Popen(
                ["bash", "-c", f"ulimit -s unlimited 2>/dev/null; exec timeout 900 coqc -Q {COQ} {LOGICAL} -w none {f}"],
                cwd=COQ, stdout=subprocess.PIPE, stderr=subprocess.STDOUT, text=True,
            )
            running.append((k, f, pr))
        k, f, pr = running.pop(0)
        out, _ = pr.communicate()
        logs.append(out)
        if pr.returncode != 0:
            _cleanup_case(f)
            for _, f2, pr2 in running:
                pr2.kill()
                _cleanup_case(f2)
            raise RuntimeError(f"coqc failed on cases shard {k}: {out[-2000:]}")
        m = re.search(r"=\s*(.*?)\s*:\s*list", out, flags=re.S)
        if not m:
            _cleanup_case(f)
            raise RuntimeError(f"cannot parse coq output: {out[-500:]}")
        for tok in re.findall(r"\d+", m.group(1)):
            bad.append(k * shard + int(tok))
        _cleanup_case(f)
    return sorted(bad), "\n".join(logs)


def eval_in_coq(imports: list[str], exprs: list[str], preamble="", tag="E") -> list[str]:
    """Evaluate Gallina expressions with vm_compute, return Coq's printed values (text)."""
    d = COQ / "cases"
    d.mkdir(exist_ok=True)
    f = d / f"{tag}_{os.getpid()}_{random.randrange(10**9)}.v"
    parts = [
        "From Coq Require Import ZArith NArith List Bool String.",
        "Import ListNotations.",
        *[f"Require Import {LOGICAL}.{m}." for m in imports],
        "Open Scope N_scope.",
        preamble,
    ]
    for i, e in enumerate(exprs):
        parts.append(f'Goal True. idtac "@@{i}". exact I. Qed.')
        parts.append(f"Eval vm_compute in ({e}).")
    f.write_text("\n".join(parts) + "\n")
    rc, out = coqc_file(f)
    _cleanup_case(f)
    if rc != 0:
        raise RuntimeError("coq eval failed: " + out[-2000:])
    res = []
    for c in out.split("@@")[1:]:
        _, _, rest = c.partition("\n")
        m = re.search(r"=\s*(.*)\n\s*:\s", rest, flags=re.S)
        res.append(" ".join((m.group(1) if m else rest).split()))
    return res


def parse_zlist(txt: str) -> list[int]:
    return [int(t) for t in re.findall(r"-?\d+", txt)]


def _cleanup_case(f: Path):
    for ext in (".v", ".vo", ".vok", ".vos", ".glob"):
        try:
            f.with_suffix(ext).unlink()
        except OSError:
            pass
    try:
        (f.parent / ("." + f.stem + ".aux")).unlink()
    except OSError:
        pass


# --------------------------------------------------------------------------------------
# known findings, replays, evidence
# --------------------------------------------------------------------------------------
def known_findings(pid: str) -> list[dict]:
    f = VERIF / "known_findings.json"
    if not f.exists():
        return []
    data = json.loads(f.read_text())
    return [e for e in data.get("findings", []) if e.get("property") == pid and e.get("status") == "known"]


def write_replay(pid: str, payload: dict) -> Path:
    REPLAYS.mkdir(parents=True, exist_ok=True)
    blob = json.dumps(payload, sort_keys=True, default=str)
    h = hashlib.sha1(blob.encode()).hexdigest()[:12]
    p = REPLAYS / f"{pid}-{h}.json"
    p.write_text(json.dumps(payload, indent=1, sort_keys=True, default=str))
    return p


class Report:
    """Collects what a run covered and what it found; writes evidence; prints verdict lines."""

    def __init__(self, pid: str, tier: str, seed: int, level: str = "proof"):
        self.pid, self.tier, self.seed, self.level = pid, tier, seed, level
        self.t0 = time.time()
        self.violations: list[tuple[Path, bool]] = []   # (replay, found_input)
        self.known_hits: list[str] = []
        self.cov: dict = {
            "evaluations": 0, "distinct_nontrivial": 0, "rule": "", "samples": [],
            "obligations": 0, "discharged": 0, "checker_cmd": "", "trusted_base": [],
        }
        self.assumptions: list[str] = []
        self._distinct = set()

    def count_case(self, key, nontrivial: bool):
        self.cov["evaluations"] += 1
        if nontrivial:
            self._distinct.add(hashlib.sha1(repr(key).encode()).digest()[:10])

    def sample(self, s, limit=4):
        if len(self.cov["samples"]) < limit:
            self.cov["samples"].append(s)

    def violation(self, payload: dict, found_input: bool, signature: str | None = None):
        """Report a violation unless its signature matches a committed known finding."""
        if signature is not None:
            for e in known_findings(self.pid):
                if e.get("signature") == signature:
                    msg = f"KNOWN-FINDING: property={self.pid} {e.get('what', signature)}"
                    if msg not in self.known_hits:
                        self.known_hits.append(msg)
                        print(msg, flush=True)
                    return
        payload = dict(payload)
        payload.setdefault("property", self.pid)
        payload["kind"] = "counterexample" if found_input else "unchecked-obligation"
        if signature:
            payload["signature"] = signature
        p = write_replay(self.pid, payload)
        self.violations.append((p, found_input))

    def finish(self) -> int:
        self.cov["distinct_nontrivial"] = len(self._distinct)
        ev = {
            "property_id": self.pid, "tier": self.tier, "seed": self.seed, "level": self.level,
            "coverage": self.cov, "assumptions": self.assumptions,
            "wall_s": round(time.time() - self.t0, 2), "violations": len(self.violations),
        }
        if self.known_hits:
            ev["coverage"]["known_findings_hit"] = self.known_hits
        EVID.mkdir(exist_ok=True)
        (EVID / f"{self.pid}.json").write_text(json.dumps(ev, indent=1, default=str) + "\n")
        seen = set()
        found_any = [p for p, found in self.violations if found]
        if found_any:
            # a broken obligation / correspondence for which a concrete failing input WAS found is reported through that
            # input: the theorem or correspondence that no longer checks is named inside the counterexample's replay
            unchecked = [p for p, found in self.violations if not found]
            if unchecked:
                try:
                    first = json.loads(Path(found_any[0]).read_text())
                    first["obligations_no_longer_checked"] = [json.loads(Path(u).read_text()) for u in unchecked]
                    Path(found_any[0]).write_text(json.dumps(first, indent=1, default=str) + "\n")
                except (OSError, ValueError):
                    pass
                self.violations = [(p, f) for p, f in self.violations if f]
        for p, found in self.violations:
            if p in seen:
                continue
            seen.add(p)
            line = f"VIOLATION property={self.pid} replay={p}"
            if not found:
                line += " no-failing-input-found"
            print(line, flush=True)
        if self.violations:
            return 1
        print(f"OK property={self.pid} tier={self.tier} evaluations={self.cov['evaluations']} "
              f"obligations={self.cov['discharged']}/{self.cov['obligations']} wall={ev['wall_s']}s", flush=True)
        return 0


def git_head(path) -> str:
    try:
        return subprocess.run(["git", "-C", str(path), "rev-parse", "--short", "HEAD"],
                              capture_output=True, text=True).stdout.strip()
    except OSError:
        return "?"
