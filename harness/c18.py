"""C18: status normalisation -- exhaustive correspondence over both 8-bit families."""
from framework import PropertyCheck


class Check(PropertyCheck):
    pid = "C18"
    gen_files = ["GenStatus"]
    model_imports = ["gen.GenStatus", "model.Status"]
    run_expr = "(fun '(tag, code) => [Z.of_N (normalise (fam_of_tag tag) code)])"
    rule = ("all 256 codes of EzspStatus and of EmberStatus (exhaustive), every defined sl_Status member, "
            "and pseudo-random undefined 32-bit unified values; a case is non-trivial when the input is not "
            "the family's success code; distinct by (family, code)")
    assumptions = ["zigpy enum classes construct a pseudo-member for an undefined code (exercised, not verified)"]

    def build_cases(self, tier, rng):
        import bellows.types as t
        cases = [(0, c) for c in range(256)] + [(1, c) for c in range(256)]
        cases += [(2, int(m)) for m in t.sl_Status]
        n = 1000 if tier == "quick" else 20000
        cases += [(2, rng.randrange(1 << 32)) for _ in range(n)]
        return cases

    def run_impl(self, case):
        import bellows.types as t
        tag, code = case
        cls = (t.EzspStatus, t.EmberStatus, t.sl_Status)[tag]
        try:
            r = t.sl_Status.from_ember_status(cls(code))
            return {"result": int(r), "is_sl": isinstance(r, t.sl_Status)}
        except BaseException as e:  # noqa: totality is part of the property
            return {"raised": repr(e)}

    def model_input(self, case):
        return f"({case[0]}, {case[1]})"

    def obs_to_z(self, case, obs):
        return [obs["result"]] if "result" in obs else [-1]

    def monitor(self, case, obs):
        tag, code = case
        if "raised" in obs:
            return f"conversion raised {obs['raised']}"
        if not obs["is_sl"]:
            return "result is not a unified status"
        if tag == 2 and obs["result"] != code:
            return "unified status was changed"
        if (obs["result"] == 0) != (code == 0):
            return "OK must be returned exactly for the family's success code (0)"
        # the codes that steer retries and start-up decisions, by their wire values (EmberZNet stack status -> unified
        # status; the application retries on 0x0C03 / 0x0019, treats 0x17 as "no network", 0x2D as "no such entry",
        # 0x27 as "no free index", 0x15 / 0x16 as network up / down)
        steering = {0x72: 0x0C03, 0xA1: 0x0C03, 0x18: 0x0019, 0x93: 0x0017, 0x03: 0x002D, 0xB6: 0x002D, 0xB1: 0x0027,
                    0x90: 0x0015, 0x91: 0x0016}
        if tag == 1 and code in steering and obs["result"] != steering[code]:
            return (f"stack status {code:#04x} must map to the unified status {steering[code]:#06x} the application steers by, "
                    f"it maps to {obs['result']:#06x}")
        return None

    def nontrivial(self, case, obs):
        return case[1] != 0

    def signature(self, case, obs, why):
        return f"status:{case[0]}:{case[1]}"

    def extra_checks(self, rep, tier, rng):
        rep.cov["exhaustive"] = True
        rep.cov["exhaustive_over"] = "both 8-bit legacy families (512 inputs) and all defined unified members"
