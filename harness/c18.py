"""C18: status normalisation -- exhaustive correspondence over both 8-bit families."""
from framework import PropertyCheck


class Check(PropertyCheck):
    pid = "C18"
    gen_files = ["GenStatusFn", "GenStatus"]
    model_imports = ["gen.GenStatus", "model.Status"]
    run_expr = "(fun '(tag, code) => [Z.of_N (normalise (fam_of_tag tag) code)])"
    rule = ("all 256 codes of EzspStatus and of EmberStatus (exhaustive), every defined sl_Status member, "
            "pseudo-random undefined 32-bit unified values, and the call sites: every per-version wrapper that hands a status to the application x every version x status codes; a case is non-trivial when the input is not "
            "the family's success code; distinct by (family, code)")
    assumptions = ["zigpy enum classes construct a pseudo-member for an undefined code (exercised, not verified)"]

    # the per-version wrappers that hand a status to the application: they must convert what the NCP answered
    WRAPPERS = ["initialize_network", "send_unicast", "send_multicast", "send_broadcast", "set_source_route", "add_transient_link_key"]

    def setup(self):
        import stack
        self.stack = stack
        self.loop = stack.new_loop()
        self.ez = {}

    def teardown(self):
        self.loop.close()

    def _wrapper(self, v, name, code):
        """call the wrapper of protocol version v on a command layer that answers every command with status `code` of the
        version's status family (unified from v14 for the send commands, stack status before); returns the status the
        wrapper hands on"""
        import asyncio
        import bellows.types as t
        import ezsptypes as et
        import random
        if v not in self.ez:
            self.ez[v] = self.stack.make_ezsp(v)
        proto = self.ez[v]._protocol
        rng = random.Random(1)
        seen = {}

        async def command(cname, *args, **kwargs):
            rx = proto.COMMANDS[cname][2]
            tys = list(rx.values())
            vals = [et.gen_value(ty, rng, "lo") for ty in tys]
            vals[0] = tys[0](code)
            seen["family"] = 2 if issubclass(tys[0], t.sl_Status) else 1 if issubclass(tys[0], t.EmberStatus) else 0
            return vals
        saved = proto.command
        proto.command = command
        aps = t.EmberApsFrame(profileId=0x104, clusterId=6, sourceEndpoint=1, destinationEndpoint=1, options=0, groupId=0, sequence=1)
        args = {"initialize_network": (), "send_unicast": (t.NWK(0x1234), aps, t.uint8_t(1), b"x"),
                "send_multicast": (aps, t.uint8_t(0), t.uint8_t(3), t.uint8_t(1), b"x"),
                "send_broadcast": (t.BroadcastAddress.ALL_ROUTERS_AND_COORDINATOR, aps, t.uint8_t(0), t.uint8_t(1), t.uint8_t(1), b"x"),
                "set_source_route": (t.NWK(0x1234), [t.NWK(0x2222)]),
                "add_transient_link_key": (t.EUI64.convert("00:11:22:33:44:55:66:77"), t.KeyData(bytes(16)))}[name]
        asyncio.set_event_loop(self.loop)
        try:
            r = self.loop.run_until_complete(getattr(proto, name)(*args))
        finally:
            proto.command = saved
        r = r[0] if isinstance(r, tuple) else r
        return r, seen.get("family")

    def build_cases(self, tier, rng):
        import bellows.types as t
        cases = [(0, c) for c in range(256)] + [(1, c) for c in range(256)]
        # call sites: every wrapper x every version x the steering codes, success, an unmapped and an undefined code
        codes = [0x00, 0x72, 0xA1, 0x18, 0x93, 0x03, 0xB6, 0xB1, 0x90, 0x91, 0x70, 0x77, 0xEE, 0xFF]
        for v in range(4, 15):
            for name in self.WRAPPERS:
                for c in (codes if tier == "quick" else range(256)):
                    cases.append((1, c, v, name))
        cases += [(2, int(m)) for m in t.sl_Status]
        n = 1000 if tier == "quick" else 20000
        cases += [(2, rng.randrange(1 << 32)) for _ in range(n)]
        return cases

    def run_impl(self, case):
        import bellows.types as t
        if len(case) == 4:
            _, code, v, name = case
            try:
                r, fam = self._wrapper(v, name, code)
                if fam is None:
                    return {"result": int(r), "is_sl": isinstance(r, t.sl_Status), "no_command": True}   # v4 add_transient_link_key: no NCP command
                case_fam = fam
                return {"result": int(r), "is_sl": isinstance(r, t.sl_Status), "family": case_fam}
            except BaseException as e:  # noqa
                return {"raised": repr(e)}
        tag, code = case
        cls = (t.EzspStatus, t.EmberStatus, t.sl_Status)[tag]
        try:
            r = t.sl_Status.from_ember_status(cls(code))
            return {"result": int(r), "is_sl": isinstance(r, t.sl_Status)}
        except BaseException as e:  # noqa: totality is part of the property
            return {"raised": repr(e)}

    def model_input(self, case):
        if len(case) == 4:
            return None       # judged by the predicate below against the conversion the function-level cases establish
        return f"({case[0]}, {case[1]})"

    def obs_to_z(self, case, obs):
        return [obs["result"]] if "result" in obs else [-1]

    def monitor(self, case, obs):
        if len(case) == 4:
            _, code, v, name = case
            if "raised" in obs:
                return f"v{v}.{name}: raised {obs['raised']} when the NCP answered status {code:#04x}"
            if not obs["is_sl"]:
                return f"v{v}.{name}: does not return a unified status"
            if obs.get("no_command"):
                return None
            import bellows.types as t
            fam = obs["family"]
            want = code if fam == 2 else int(t.sl_Status.from_ember_status((t.EmberStatus if fam == 1 else t.EzspStatus)(code)))
            steering = {0x72: 0x0C03, 0xA1: 0x0C03, 0x18: 0x0019, 0x93: 0x0017, 0x03: 0x002D, 0xB6: 0x002D, 0xB1: 0x0027,
                        0x90: 0x0015, 0x91: 0x0016, 0x00: 0x0000}
            if fam == 1 and code in steering:
                want = steering[code]
            if obs["result"] != want:
                return (f"v{v}.{name}: the NCP answered status {code:#04x} (family {fam}) and the wrapper handed on {obs['result']:#06x}; "
                        f"the conversion gives {want:#06x}")
            return None
        tag, code = case
        if "raised" in obs:
            return f"conversion raised {obs['raised']}"
        if not obs["is_sl"]:
            return "result is not a unified status"
        if tag == 2 and obs["result"] != code:
            return "unified status was changed"
        if (obs["result"] == 0) != (code == 0):
            return "OK must be returned exactly for the family's success code (0)"
        # the codes that steer retries and start-up decisions, by their wire values (EmberZNet stack status -> unified
        # status; the application retries on 0x0C03 / 0x0019, treats 0x17 as "no network", 0x2D as "no such entry",
        # 0x27 as "no free index", 0x15 / 0x16 as network up / down)
        steering = {0x72: 0x0C03, 0xA1: 0x0C03, 0x18: 0x0019, 0x93: 0x0017, 0x03: 0x002D, 0xB6: 0x002D, 0xB1: 0x0027,
                    0x90: 0x0015, 0x91: 0x0016}
        if tag == 1 and code in steering and obs["result"] != steering[code]:
            return (f"stack status {code:#04x} must map to the unified status {steering[code]:#06x} the application steers by, "
                    f"it maps to {obs['result']:#06x}")
        return None

    def nontrivial(self, case, obs):
        return case[1] != 0

    def signature(self, case, obs, why):
        return f"status:{case[0]}:{case[1]}" + (f":v{case[2]}.{case[3]}" if len(case) == 4 else "")

    def extra_checks(self, rep, tier, rng):
        # the stack-status callback is a conversion call site too: a network up / down event reported in the status family
        # of the running version (legacy stack status up to v13, unified from v14) wakes the waiter of the unified member
        import asyncio
        import bellows.ezsp as E
        import bellows.types as t
        n = 0
        asyncio.set_event_loop(self.loop)
        for v in sorted(E.EZSP._BY_VERSION):
            for member in ("NETWORK_UP", "NETWORK_DOWN"):
                if v not in self.ez:
                    self.ez[v] = self.stack.make_ezsp(v)
                ez = self.ez[v]
                native = getattr(t.sl_Status if v >= 14 else t.EmberStatus, member)
                want = getattr(t.sl_Status, member)

                async def go():
                    with ez.wait_for_stack_status(want) as fut:
                        ez.handle_callback("stackStatusHandler", [native])
                        await asyncio.sleep(0)
                        return fut.done() and not fut.cancelled() and fut.exception() is None
                try:
                    woke = self.loop.run_until_complete(go())
                except BaseException as e:  # noqa
                    woke = repr(e)
                n += 1
                if woke is not True:
                    rep.violation({"input": {"version": v, "stack_status_event": f"{type(native).__name__}.{member} ({int(native):#x})",
                                             "waiter": f"sl_Status.{member}"},
                                   "observed": f"waiter woken: {woke}",
                                   "required": "the network up / down codes that steer start-up decisions map to their unified counterparts "
                                               "where they are consumed: the event wakes the waiter of the unified status"},
                                  found_input=True, signature="status:stack-status-site")
                    break
        rep.cov["stack_status_event_sites"] = n
        # "never raises" under every process-wide policy: with Python warnings escalated to errors (python -W error, pytest's
        # filterwarnings = error) a conversion that announces something through the warnings module raises; the result must be
        # the one obtained under the default policy
        import warnings
        nw = 0
        bad = None
        inputs = [fam(v) for fam in (t.EmberStatus, t.EzspStatus) for v in range(256)] + list(t.sl_Status) \
            + [t.sl_Status(x) for x in (0x66, 0x93, 0xA1, 0x0FFF, 0x12345678, 0xFFFFFFFF)]
        for x in inputs:
            try:
                ref = t.sl_Status.from_ember_status(x)
            except BaseException as e:  # noqa
                ref = ("raised", repr(e))
            with warnings.catch_warnings():
                warnings.simplefilter("error")
                try:
                    got = t.sl_Status.from_ember_status(x)
                except BaseException as e:  # noqa
                    got = ("raised", repr(e))
            nw += 1
            if isinstance(got, tuple) or got != ref:
                bad = {"input": {"status": repr(x), "family": type(x).__name__, "warnings": "escalated to errors"},
                       "observed": repr(got), "required": f"conversion never raises; under the default policy the result is {ref!r}"}
                break
        rep.cov["conversions_with_warnings_as_errors"] = nw
        # where the conversion starts: the family a wire byte is read in.  A command's status is a stack status or a
        # serial-protocol status and stays that from version to version (v4..v13)
        import ezsptypes as _et
        inc = _et.legacy_family_inconsistencies()
        rep.cov["legacy_status_families_consistent_across_versions"] = not inc
        if inc:
            name, side, fld, vs = inc[0]
            odd = [v for v, f in vs.items() if list(vs.values()).count(f) < len(vs) / 2]
            rep.violation({"input": {"command": name, "schema": side, "field": fld, "families_by_version": vs},
                           "observed": f"protocol version(s) {odd} read the status byte of {name} in another family than the other versions: "
                                       f"a stack status such as 0x93 (not joined) then converts to the generic failure instead of its "
                                       f"unified counterpart ({len(inc)} field(s) affected)",
                           "required": "the busy / not-joined / not-found / invalid-index / network up-down codes map to their unified counterparts, "
                                       "whichever protocol version the NCP speaks"}, found_input=True, signature="status:family-by-version")
        if bad:
            rep.violation(bad, found_input=True, signature="status:raises-under-warnings-as-errors")
        rep.cov["exhaustive"] = True
        rep.cov["exhaustive_over"] = "both 8-bit legacy families (512 inputs) and all defined unified members"
