"""Virtual-time asyncio loop: timers fire in order with no real waiting; the clock jumps exactly
to the deadline of the earliest timer.  Relies on CPython-private loop._ready/_scheduled."""
import asyncio
import heapq
import math
import selectors


class Deadlock(Exception):
    pass


class _VSelector(selectors.DefaultSelector):
    loop = None

    def select(self, timeout=None):
        lp = self.loop
        if timeout is None:
            raise Deadlock("event loop would block forever (nothing ready, no timer)")
        if timeout > 0 and lp is not None:
            sched = [h for h in lp._scheduled if not h._cancelled]
            if sched:
                lp._vt = max(lp._vt, min(h._when for h in sched))
            else:
                lp._vt += timeout
        return super().select(0)


class VLoop(asyncio.SelectorEventLoop):
    def __init__(self):
        sel = _VSelector()
        super().__init__(sel)
        sel.loop = self
        self._vt = 0.0
        self._clock_resolution = 1e-12

    def time(self):
        return self._vt

    # ---- stepping primitives used by the harnesses (called from outside the loop) -------------
    def settle(self, limit=10000):
        """run loop iterations until no callback is ready (timers do not fire)"""
        n = 0
        while self._ready:
            self._settle_once()
            n += 1
            if n > limit:
                raise Deadlock("settle does not terminate")

    def _settle_once(self):
        # run exactly the callbacks that are ready now, without looking at timers
        self.call_soon(self.stop)
        saved, self._scheduled = self._scheduled, []
        try:
            self.run_forever()
        finally:
            for h in self._scheduled:
                heapq.heappush(saved, h)
            self._scheduled = saved

    def next_deadline(self):
        sched = [h._when for h in self._scheduled if not h._cancelled]
        return min(sched) if sched else None

    def advance_to(self, when):
        """move the clock to `when` (<= earliest deadline) and fire what is due, then settle"""
        self.settle()
        nd = self.next_deadline()
        if nd is not None and when > nd:
            raise ValueError("advance_to beyond the next deadline")
        self._vt = max(self._vt, when)
        self.call_soon(self.stop)
        self.run_forever()          # one iteration: due timers move to ready and run
        self.settle()

    def fire_earliest(self):
        """fire exactly ONE timer, the earliest (even if others are due as well), then settle"""
        self.settle()
        live = [h for h in self._scheduled if not h._cancelled]
        if not live:
            raise Deadlock("no timer to fire")
        h = min(live, key=lambda x: x._when)
        rest = [x for x in self._scheduled if x is not h]
        self._vt = max(self._vt, h._when)
        self._scheduled = [h]
        self.call_soon(self.stop)
        try:
            self.run_forever()
        finally:
            for x in self._scheduled:
                rest.append(x)
            heapq.heapify(rest)
            self._scheduled = rest
        self.settle()
        return h._when

    def tick(self):
        nd = self.next_deadline()
        if nd is None:
            raise Deadlock("no timer to advance to")
        self.advance_to(nd)
        return nd


def fz(x: float):
    """float -> (mantissa, exponent) exactly as the Coq encoder fz does"""
    if x == 0:
        return [0, -2101]
    m, e = math.frexp(x)
    return [int(m * (1 << 53)), e]


def patch_monotonic(module, loop):
    import types
    fake = types.SimpleNamespace(**{k: getattr(module.time, k) for k in dir(module.time) if not k.startswith("__")})
    fake.monotonic = loop.time
    module.time = fake
