"""C20: ThreadsafeProxy / EventLoopThread with real threads: every method kind x caller loop x owner-loop state
x bursts; thread identity recorded inside the wrapped method.  Running/closed owner states are compared with
the Coq decision/relay model; the stopping state is judged by the property predicate only."""
import asyncio
import threading
import time

from framework import PropertyCheck

KINDS = ["coro_value", "coro_none", "coro_raise", "plain_none", "plain_value", "plain_raise", "attr"]


class Target:
    attr = 42

    def __init__(self):
        self.calls = []         # (kind, tag, thread id)
        self.lock = threading.Lock()

    def _rec(self, kind, tag):
        with self.lock:
            self.calls.append((kind, tag, threading.get_ident()))

    async def coro_value(self, tag):
        self._rec("coro_value", tag)
        return 1000 + tag

    async def coro_none(self, tag):
        self._rec("coro_none", tag)

    async def coro_raise(self, tag):
        self._rec("coro_raise", tag)
        raise KeyError(tag)

    def plain_none(self, tag):
        self._rec("plain_none", tag)

    def plain_value(self, tag):
        self._rec("plain_value", tag)
        return tag

    def plain_raise(self, tag):
        self._rec("plain_raise", tag)
        raise KeyError(tag)


class SlowTarget:
    """coroutine methods whose cancellation takes a few loop iterations (a flush / close in a finally block), next
    to ones that end at once"""

    def __init__(self):
        self.done = []
        self.decisions = []
        self.lock = threading.Lock()

    def _rec(self, what, tag):
        with self.lock:
            self.done.append((what, tag, threading.get_ident()))

    async def wait(self, tag):
        await asyncio.sleep(3600)

    async def cleanup(self, tag):
        try:
            await asyncio.sleep(3600)
        finally:
            for _ in range(4):
                await asyncio.sleep(0)
            self._rec("cleanup_done", tag)

    async def raise_quick(self, tag):
        try:
            await asyncio.sleep(3600)
        except asyncio.CancelledError:
            raise KeyError(tag)

    async def slow_return(self, tag):
        try:
            await asyncio.sleep(3600)
        except asyncio.CancelledError:
            for _ in range(4):
                await asyncio.sleep(0)
            return 7000 + tag

    # calls whose outcome is DECIDED in the very callback that also asks the owner's loop to stop (the serial port is lost
    # while a frame awaits its acknowledgement: the pending future gets its exception and the connection-done callback
    # stops the thread); the coroutine waits on the decisive future through one hop (a shield), like AshProtocol.send_data
    async def decided_value(self, tag):
        fut = asyncio.get_running_loop().create_future()
        self.decisions.append((fut, ("value", 9000 + tag)))
        return await asyncio.shield(fut)

    async def decided_raise(self, tag):
        fut = asyncio.get_running_loop().create_future()
        self.decisions.append((fut, ("raise", tag)))
        return await asyncio.shield(fut)


def run_stop_case(pattern):
    """coroutine calls of several kinds outstanding through the proxy when the owner's loop is stopped: every caller
    gets a result or an exception (a cancellation counts) instead of blocking, and clean-up code runs to its end"""
    import bellows.thread as bt
    tgt = SlowTarget()
    out = {"hang": False}

    async def main():
        elt = bt.EventLoopThread()
        await elt.start()
        proxy = bt.ThreadsafeProxy(tgt, elt.loop)

        async def one(i, kind):
            try:
                r = await asyncio.wait_for(getattr(proxy, kind)(i), 1.5)
                return ["value", r]
            except asyncio.TimeoutError:
                return ["blocked"]
            except asyncio.CancelledError:
                return ["cancelled"]
            except KeyError as e:
                return ["exception", e.args[0]]
            except BaseException as e:  # noqa
                return ["other", type(e).__name__]

        tasks = [asyncio.ensure_future(one(i, k)) for i, k in enumerate(pattern)]
        await asyncio.sleep(0.05)          # all calls are parked on the owner's loop
        if tgt.decisions:
            def decide_and_stop():
                for fut, (how, v) in tgt.decisions:
                    if how == "value":
                        fut.set_result(v)
                    else:
                        fut.set_exception(KeyError(v))
                elt.force_stop()           # requested in the same callback that decided the outcomes
            elt.loop.call_soon_threadsafe(decide_and_stop)
        else:
            elt.force_stop()
        out["results"] = await asyncio.gather(*tasks)
        try:
            await asyncio.wait_for(elt.thread_complete, 3)
        except asyncio.TimeoutError:
            out["hang"] = True

    loop = asyncio.new_event_loop()
    asyncio.set_event_loop(loop)
    try:
        loop.run_until_complete(asyncio.wait_for(main(), 15))
    except asyncio.TimeoutError:
        out["hang"] = True
    except BaseException as e:  # noqa
        out["crash"] = repr(e)
    finally:
        loop.close()
    out["cleanup_done"] = sorted(t for w, t, _ in tgt.done if w == "cleanup_done")
    return out


STOP_PATTERNS = [["decided_value"], ["decided_raise"], ["decided_value", "wait", "decided_raise"], ["wait", "decided_raise", "decided_value"],
                 ["cleanup", "wait", "wait", "wait"], ["wait", "wait", "cleanup", "wait"], ["raise_quick", "slow_return"],
                 ["wait"], ["cleanup"], ["slow_return", "raise_quick", "cleanup", "wait"], ["wait", "wait", "wait"]]


def run_case(kind, caller, owner_state, burst, fetch="call"):
    """returns per call: executed thread class and what the caller saw"""
    import bellows.thread as bt
    tgt = Target()
    out = {"calls": [], "owner_errors": 0, "hang": False}
    main_tid = threading.get_ident()

    async def main():
        elt = bt.EventLoopThread()
        await elt.start()
        owner_loop = elt.loop
        owner_tid = await elt.run_coroutine_threadsafe(_tid())
        errs = []
        owner_loop.call_soon_threadsafe(owner_loop.set_exception_handler, lambda lp, ctx: errs.append(ctx))
        proxy = bt.ThreadsafeProxy(tgt, owner_loop)
        # hand-over: the attribute is looked up on one loop and the callable invoked on the other (a callback
        # registered with the proxy's method, functools.partial(proxy.x), ...)
        prefetched = None
        if fetch != "call":
            async def lookup():
                try:
                    return getattr(proxy, kind)
                except TypeError:
                    return "refused"
            prefetched = await elt.run_coroutine_threadsafe(lookup()) if fetch == "owner" else await lookup()
        if owner_state == "closed":
            elt.force_stop()
            await asyncio.wait_for(elt.thread_complete, 5)
        elif owner_state == "stopping":
            elt.force_stop()           # stop requested, the calls below race with it

        async def one(tag):
            if prefetched is not None:
                if isinstance(prefetched, str):
                    return ["refused"]
                fn = prefetched
            else:
                try:
                    fn = getattr(proxy, kind)
                except TypeError:
                    return ["refused"]
            try:
                r = fn(tag)
                if asyncio.isfuture(r) or asyncio.iscoroutine(r):
                    r = await asyncio.wait_for(r, 2.0)
                return ["value", r]
            except asyncio.TimeoutError:
                return ["timeout"]
            except asyncio.CancelledError:
                return ["cancelled"]
            except KeyError as e:
                return ["exception", e.args[0]]
            except BaseException as e:  # noqa
                return ["other", type(e).__name__]

        if caller == "other":
            results = await asyncio.gather(*[one(i) for i in range(burst)])
        else:
            # the caller runs ON the owner's loop
            async def on_owner():
                return await asyncio.gather(*[one(i) for i in range(burst)])
            if owner_state == "running":
                results = await elt.run_coroutine_threadsafe(on_owner())
            else:
                results = None
        # let queued plain calls run
        if owner_state == "running":
            await elt.run_coroutine_threadsafe(asyncio.sleep(0.01))
            await asyncio.sleep(0.02)
        else:
            await asyncio.sleep(0.05)
        out["results"] = results
        out["owner_tid"], out["main_tid"] = owner_tid, main_tid
        out["owner_errors"] = sum(1 for c in errs if isinstance(c.get("exception"), TypeError))
        out["owner_other_errors"] = sum(1 for c in errs if not isinstance(c.get("exception"), TypeError))
        if owner_state == "running":
            elt.force_stop()
            try:
                await asyncio.wait_for(elt.thread_complete, 5)
            except asyncio.TimeoutError:
                out["hang"] = True

    async def _tid():
        return threading.get_ident()

    loop = asyncio.new_event_loop()
    asyncio.set_event_loop(loop)
    t0 = time.time()
    try:
        loop.run_until_complete(asyncio.wait_for(main(), 20))
    except asyncio.TimeoutError:
        out["hang"] = True
    except BaseException as e:  # noqa
        out["crash"] = repr(e)
    finally:
        loop.close()
    out["wall"] = round(time.time() - t0, 3)
    calls = list(tgt.calls)
    out["executed"] = [(k, tag, "owner" if tid == out.get("owner_tid") else "caller" if tid == main_tid else "other")
                       for k, tag, tid in calls]
    return out


def run_idle_case(kind, burst):
    """the owner's loop exists and is not closed but is not running at the moment of the call (not started yet / between
    two runs): the calls are issued from another loop, then the owner's loop is run on its own thread.  Only a CLOSED
    owner loop may drop calls: these must be executed on the owner's thread and their results relayed."""
    import bellows.thread as bt
    tgt = Target()
    out = {"calls": [], "owner_errors": 0, "hang": False}
    main_tid = threading.get_ident()
    owner_loop = asyncio.new_event_loop()
    errs = []
    owner_loop.set_exception_handler(lambda lp, ctx: errs.append(ctx))
    proxy = bt.ThreadsafeProxy(tgt, owner_loop)
    tid = {}

    def owner_thread():
        tid["owner"] = threading.get_ident()
        asyncio.set_event_loop(owner_loop)
        owner_loop.run_forever()

    async def main():
        issued = []
        for i in range(burst):
            try:
                fn = getattr(proxy, kind)
            except TypeError:
                issued.append(("refused", None))
                continue
            try:
                issued.append(("ret", fn(i)))
            except BaseException as e:  # noqa
                issued.append(("raised", e))
        th = threading.Thread(target=owner_thread, daemon=True)
        th.start()
        results = []
        for what, r in issued:
            if what == "refused":
                results.append(["refused"])
                continue
            if what == "raised":
                results.append(["other", type(r).__name__])
                continue
            try:
                if asyncio.isfuture(r) or asyncio.iscoroutine(r):
                    r = await asyncio.wait_for(r, 2.0)
                results.append(["value", r])
            except asyncio.TimeoutError:
                results.append(["timeout"])
            except asyncio.CancelledError:
                results.append(["cancelled"])
            except KeyError as e:
                results.append(["exception", e.args[0]])
            except BaseException as e:  # noqa
                results.append(["other", type(e).__name__])
        await asyncio.sleep(0.05)
        owner_loop.call_soon_threadsafe(owner_loop.stop)
        th.join(5)
        if th.is_alive():
            out["hang"] = True
        out["results"] = results

    loop = asyncio.new_event_loop()
    asyncio.set_event_loop(loop)
    t0 = time.time()
    try:
        loop.run_until_complete(asyncio.wait_for(main(), 20))
    except asyncio.TimeoutError:
        out["hang"] = True
    except BaseException as e:  # noqa
        out["crash"] = repr(e)
    finally:
        loop.close()
        if not owner_loop.is_running():
            owner_loop.close()
    out["wall"] = round(time.time() - t0, 3)
    out["owner_tid"], out["main_tid"] = tid.get("owner"), main_tid
    out["owner_errors"] = sum(1 for c in errs if isinstance(c.get("exception"), TypeError))
    out["owner_other_errors"] = sum(1 for c in errs if not isinstance(c.get("exception"), TypeError))
    out["executed"] = [(k, tag, "owner" if t == tid.get("owner") else "caller" if t == main_tid else "other")
                       for k, tag, t in list(tgt.calls)]
    return out


def run_deferred_case(kind, burst):
    """running owner loop; the caller MAKES all calls first and only later awaits what they returned (a call made through the
    proxy is executed on the owner's loop when it is made, whether and whenever the caller awaits the result)"""
    import bellows.thread as bt
    tgt = Target()
    out = {"calls": [], "owner_errors": 0, "hang": False}
    main_tid = threading.get_ident()

    async def _tid():
        return threading.get_ident()

    async def main():
        elt = bt.EventLoopThread()
        await elt.start()
        owner_tid = await elt.run_coroutine_threadsafe(_tid())
        errs = []
        elt.loop.call_soon_threadsafe(elt.loop.set_exception_handler, lambda lp, ctx: errs.append(ctx))
        proxy = bt.ThreadsafeProxy(tgt, elt.loop)
        issued = []
        for i in range(burst):
            try:
                issued.append(("ret", getattr(proxy, kind)(i)))
            except TypeError:
                issued.append(("refused", None))
            except BaseException as e:  # noqa
                issued.append(("raised", e))
        await asyncio.sleep(0.1)
        await elt.run_coroutine_threadsafe(asyncio.sleep(0.01))
        out["executed_before_await"] = sorted({tag for _, tag, _ in list(tgt.calls)})
        results = []
        for what, r in issued:
            if what == "refused":
                results.append(["refused"])
                continue
            if what == "raised":
                results.append(["other", type(r).__name__])
                continue
            try:
                if asyncio.isfuture(r) or asyncio.iscoroutine(r):
                    r = await asyncio.wait_for(r, 2.0)
                results.append(["value", r])
            except asyncio.TimeoutError:
                results.append(["timeout"])
            except asyncio.CancelledError:
                results.append(["cancelled"])
            except KeyError as e:
                results.append(["exception", e.args[0]])
            except BaseException as e:  # noqa
                results.append(["other", type(e).__name__])
        await elt.run_coroutine_threadsafe(asyncio.sleep(0.01))
        out["results"] = results
        out["owner_tid"], out["main_tid"] = owner_tid, main_tid
        out["owner_errors"] = sum(1 for c in errs if isinstance(c.get("exception"), TypeError))
        out["owner_other_errors"] = sum(1 for c in errs if not isinstance(c.get("exception"), TypeError))
        elt.force_stop()
        try:
            await asyncio.wait_for(elt.thread_complete, 5)
        except asyncio.TimeoutError:
            out["hang"] = True

    loop = asyncio.new_event_loop()
    asyncio.set_event_loop(loop)
    t0 = time.time()
    try:
        loop.run_until_complete(asyncio.wait_for(main(), 20))
    except asyncio.TimeoutError:
        out["hang"] = True
    except BaseException as e:  # noqa
        out["crash"] = repr(e)
    finally:
        loop.close()
    out["wall"] = round(time.time() - t0, 3)
    out["executed"] = [(k, tag, "owner" if t == out.get("owner_tid") else "caller" if t == main_tid else "other")
                       for k, tag, t in list(tgt.calls)]
    return out


class Check(PropertyCheck):
    pid = "C20"
    level = "other"
    explanation = ("two halves: (1) proof -- the Coq theorems of coq/props/C20.v about the dispatch decision and the relay/queue logic, "
                   "all discharged on this run (obligations/discharged); (2) exploration -- the real ThreadsafeProxy/EventLoopThread with real "
                   "OS threads, every method kind x caller loop x owner-loop state x burst size (evaluations), thread identity recorded inside "
                   "the wrapped method; thread scheduling is not controlled and the 'stopping' owner state has no model counterpart")
    gen_files = ["GenThreadFn"]
    model_imports = ["model.Proxy"]
    run_expr = "run_proxy_case"
    case_type = "(bool * bool * bool * bool * (N * N))"
    shard = 300
    rule = ("every method kind (coroutine returning a value / None / raising, plain returning None / a value / raising, non-callable "
            "attribute) x caller loop {owner, another thread} x owner-loop state {running, stopping, closed, alive but not running at the time of the call} x bursts of 1..200 concurrent "
            "calls, coroutine calls of several kinds (clean-up taking several loop iterations) outstanding when the owner's loop is stopped, the attribute looked up at the call or beforehand on the other loop (hand-over of the callable), with real threads; each call of a burst is one evaluation; non-trivial = caller on another thread; distinct by "
            "(kind, caller, state, burst size)")
    assumptions = ["thread scheduling is not controlled: the runtime half is exploration, not proof",
                   "owner-loop state 'stopping' has no model counterpart"]

    def build_cases(self, tier, rng):
        cases = []
        for p in STOP_PATTERNS:
            cases.append({"kind": "stop", "caller": "other", "state": "stopping", "burst": len(p), "pattern": p})
        bursts = [1, 7, 50] if tier == "quick" else [1, 2, 7, 50, 200]
        for kind in KINDS:
            for caller in ("other", "owner"):
                for state in ("running", "stopping", "closed"):
                    if caller == "owner" and state != "running":
                        continue          # nobody can run on a loop that is stopped
                    for b in bursts:
                        cases.append({"kind": kind, "caller": caller, "state": state, "burst": b})
                    # the attribute looked up on the OTHER side from where it is invoked
                    fetch = "owner" if caller == "other" else "other"
                    for b in bursts[:2]:
                        cases.append({"kind": kind, "caller": caller, "state": state, "burst": b, "fetch": fetch})
            # an owner loop that is alive but not running when the calls are made (started afterwards)
            for b in bursts[:2]:
                cases.append({"kind": kind, "caller": "other", "state": "idle", "burst": b})
            # a running owner loop; the calls are all made first and their results awaited later
            for b in bursts[:2]:
                cases.append({"kind": kind, "caller": "other", "state": "deferred", "burst": b})
        return cases

    def run_impl(self, case):
        if case["kind"] == "stop":
            return run_stop_case(case["pattern"])
        if case["state"] == "idle":
            return run_idle_case(case["kind"], case["burst"])
        if case["state"] == "deferred":
            return run_deferred_case(case["kind"], case["burst"])
        return run_case(case["kind"], case["caller"], case["state"], case["burst"], case.get("fetch", "call"))

    def describe(self, case):
        return case

    def _params(self, case):
        kind = case["kind"]
        callable_ = kind != "attr"
        coroutine = kind.startswith("coro")
        same = case["caller"] == "owner"
        closed = case["state"] == "closed"
        body = {"coro_value": (1, 1000), "coro_none": (0, 0), "coro_raise": (2, 0), "plain_none": (0, 0),
                "plain_value": (1, 0), "plain_raise": (2, 0), "attr": (0, 0)}[kind]
        return callable_, coroutine, same, closed, body

    def model_input(self, case):
        if case["kind"] == "stop" or case["state"] == "stopping":
            return None
        c, co, s, cl, body = self._params(case)
        b = lambda x: "true" if x else "false"
        return f"({b(c)}, {b(co)}, {b(s)}, {b(cl)}, ({body[0]}, {body[1]}))"

    def obs_to_z(self, case, obs):
        """the burst is summarised by its first call (tag 0); the monitor checks that all calls agree"""
        if "crash" in obs or obs.get("results") is None:
            return [-99]
        c, co, s, cl, body = self._params(case)
        r = obs["results"][0]
        executed = any(tag == 0 for _, tag, _ in obs["executed"])
        if r[0] == "refused":
            act, res = 0, [0]
        elif s:
            act = 1
            res = [1, -1 if r[1] is None else r[1]] if r[0] == "value" else [2, 0]
            if r[0] == "value" and asyncio.iscoroutine(r[1]):
                res = [1, -1]
        elif cl:
            act, res = 2, [3]
        elif co:
            act = 3
            res = [1, -1 if r[1] is None else r[1]] if r[0] == "value" else [2, 0] if r[0] == "exception" else [-5]
        else:
            act = 4
            res = [3] if r == ["value", None] else [-6]
        nerr = 1 if obs["owner_errors"] >= case["burst"] and obs["owner_errors"] > 0 else 0
        if obs["owner_errors"] not in (0, case["burst"]):
            nerr = -1
        return [act, 1 if executed else 0] + res + [-1, nerr]

    def monitor(self, case, obs):
        if "crash" in obs:
            return f"crashed: {obs['crash']}"
        if obs.get("hang"):
            return "the scenario blocked (a call or the owner thread did not finish)"
        if case["kind"] == "stop":
            for i, (k, r) in enumerate(zip(case["pattern"], obs.get("results", []))):
                if r[0] == "blocked":
                    return (f"coroutine call {i} ({k}) outstanding when the owner's loop was stopped never got a result or an "
                            f"exception: its caller blocks")
                if k == "slow_return" and r not in (["value", 7000 + i], ["cancelled"]):
                    return f"call {i} ({k}): result not relayed: {r}"
                if k == "raise_quick" and r not in (["exception", i], ["cancelled"]):
                    return f"call {i} ({k}): exception not relayed: {r}"
                if k == "decided_value" and r != ["value", 9000 + i]:
                    return (f"call {i}: its result was decided on the owner's loop in the callback that also requested the stop; the "
                            f"caller received {r} instead of that result")
                if k == "decided_raise" and r != ["exception", i]:
                    return (f"call {i}: the exception it ends with was decided on the owner's loop in the callback that also requested "
                            f"the stop; the caller received {r} instead of that exception")
            want = [i for i, k in enumerate(case["pattern"]) if k == "cleanup"]
            if obs.get("cleanup_done") != want:
                return f"clean-up code of calls {want} was abandoned half-way on the owner's loop (finished: {obs.get('cleanup_done')})"
            return None
        kind, caller, state, burst = case["kind"], case["caller"], case["state"], case["burst"]
        for k, tag, where in obs["executed"]:
            if caller == "other" and where != "owner":
                return f"{kind}: a call made from another loop was executed on the {where} thread"
            if caller == "owner" and where != "owner":
                return f"{kind}: a call from the owner's loop ran on the {where} thread"
        res = obs.get("results")
        if res is None:
            return None
        ntags = {tag for _, tag, _ in obs["executed"]}
        for i, r in enumerate(res):
            if kind == "attr":
                if r != ["refused"]:
                    return f"non-callable attribute was not refused: {r}"
                continue
            if state == "closed":
                if r != ["value", None] or i in ntags:
                    return f"{kind}: a call on a closed owner loop was not dropped ({r}, executed={i in ntags})"
                continue
            if state == "stopping":
                # either executed on the owner (checked above) or not at all; a coroutine call must not hang for ever
                continue
            if kind == "coro_value" and r != ["value", 1000 + i]:
                return f"coroutine result not relayed: {r}"
            if kind == "coro_none" and r != ["value", None]:
                return f"coroutine result not relayed: {r}"
            if kind == "coro_raise" and r != ["exception", i]:
                return f"coroutine exception not relayed: {r}"
            if kind.startswith("plain") and caller == "other" and r != ["value", None]:
                return f"plain method call returned something to the caller: {r}"
            if i not in ntags:
                return f"{kind}: call {i} was never executed on a running owner loop"
        if state == "deferred" and kind != "attr" and obs.get("executed_before_await") != list(range(burst)):
            return (f"{kind}: {burst} calls were made through the proxy from another loop; before the caller awaited anything only "
                    f"{obs.get('executed_before_await')} had been executed on the owner's loop")
        if state in ("running", "idle", "deferred") and caller == "other" and kind == "plain_value" and obs["owner_errors"] != burst:
            return f"a plain method returning a value must raise in the owner loop ({obs['owner_errors']} of {burst})"
        return None

    def extra_checks(self, rep, tier, rng):
        """the proxy looks at the wrapped object's attribute at every use: an attribute that was callable when first used
        and is re-bound later (to another callable, to a non-callable value) is judged as it is NOW"""
        import bellows.thread as bt
        problems = []

        async def _owner_tid():
            return threading.get_ident()

        async def main():
            elt = bt.EventLoopThread()
            await elt.start()
            try:
                tgt = Target()
                proxy = bt.ThreadsafeProxy(tgt, elt.loop)
                r1 = await asyncio.wait_for(proxy.coro_value(1), 2)

                async def other(tag):
                    return 5000 + tag
                tgt.coro_value = other
                r2 = await asyncio.wait_for(proxy.coro_value(1), 2)
                if (r1, r2) != (1001, 5001):
                    problems.append(f"coroutine method re-bound on the wrapped object: the calls returned {r1}, {r2}; the second one "
                                    f"must run the method the object has now (5001)")
                tgt.coro_value = 42
                try:
                    fn = proxy.coro_value
                    problems.append(f"the attribute was re-bound to a non-callable value and was not refused ({fn!r})")
                except TypeError:
                    pass
                # names with a leading underscore are attributes like any other
                owner_tid = await elt.run_coroutine_threadsafe(_owner_tid())
                tgt._state = 5
                seen = []
                tgt._plain = lambda tag: seen.append(("plain", tag, threading.get_ident()))

                async def _coro(tag):
                    seen.append(("coro", tag, threading.get_ident()))
                    return 77
                tgt._coro = _coro
                try:
                    v = proxy._state
                    problems.append(f"the non-callable attribute _state was not refused ({v!r})")
                except TypeError:
                    pass
                r = proxy._plain(3)
                rc = await asyncio.wait_for(proxy._coro(4), 2)
                await elt.run_coroutine_threadsafe(asyncio.sleep(0.01))
                if r is not None or rc != 77 or sorted(x[0] for x in seen) != ["coro", "plain"] or any(x[2] != owner_tid for x in seen):
                    problems.append(f"calls of underscore-named methods from another loop: returned {r!r} / {rc!r}, executed "
                                    f"{[(x[0], 'owner' if x[2] == owner_tid else 'caller') for x in seen]}; they run on the owner's "
                                    f"loop like any other call")
                proxy.plain_none(7)
                tgt.plain_none = "not callable any more"
                try:
                    proxy.plain_none
                    problems.append("a plain method re-bound to a non-callable value was not refused")
                except TypeError:
                    pass
            finally:
                elt.force_stop()
                await asyncio.wait_for(elt.thread_complete, 5)

        loop = asyncio.new_event_loop()
        asyncio.set_event_loop(loop)
        try:
            loop.run_until_complete(asyncio.wait_for(main(), 20))
        except BaseException as e:  # noqa
            problems.append(f"the scenario crashed: {e!r}")
        finally:
            loop.close()
        rep.cov["rebound_attribute_scenarios"] = 1
        self._argument_scenarios(rep)
        self._name_scenarios(rep)
        if problems:
            rep.violation({"input": "use an attribute through the proxy, re-bind it on the wrapped object, use it again",
                           "observed": problems, "required": "calls run the wrapped object's method; non-callable attributes are refused"},
                          found_input=True, signature="proxy:rebound-attribute")

    def _name_scenarios(self, rep):
        """the proxy forwards whatever the wrapped object calls its methods: the names bellows itself sends through a proxy (the
        callbacks of the UART gateway and of the EZSP layer) and other ordinary names, as plain and as coroutine methods"""
        import bellows.thread as bt
        NAMES = ["connection_made", "connection_lost", "data_received", "eof_received", "pause_writing", "resume_writing",
                 "frame_received", "enter_failed_state", "error_received", "reset_received", "send_data", "reset", "close",
                 "get", "items", "name", "loop", "wait", "result", "done", "cancel", "run", "start", "stop", "test"]
        problems = []

        async def _tid():
            return threading.get_ident()

        async def main():
            elt = bt.EventLoopThread()
            await elt.start()
            try:
                owner_tid = await elt.run_coroutine_threadsafe(_tid())
                n = 0
                for name in NAMES:
                    for coro in (False, True):
                        seen = []
                        if coro:
                            async def fn(self, tag, _seen=seen):
                                _seen.append((tag, threading.get_ident()))
                                return 4000 + tag
                        else:
                            def fn(self, tag, _seen=seen):
                                _seen.append((tag, threading.get_ident()))
                        tgt = type("Named", (), {name: fn})()
                        proxy = bt.ThreadsafeProxy(tgt, elt.loop)
                        n += 1
                        try:
                            r = getattr(proxy, name)(5)
                            if coro:
                                r = await asyncio.wait_for(r, 2)
                        except BaseException as e:  # noqa
                            problems.append(f"{'coroutine' if coro else 'plain'} method {name!r} called from another loop raised {e!r}")
                            continue
                        await elt.run_coroutine_threadsafe(asyncio.sleep(0.005))
                        if seen != [(5, owner_tid)] or r != (4005 if coro else None):
                            problems.append(f"{'coroutine' if coro else 'plain'} method {name!r} called from another loop: executed "
                                            f"{[(t, 'owner' if i == owner_tid else 'caller') for t, i in seen]}, returned {r!r}; it "
                                            f"runs once on the owner's loop{' and its result is relayed' if coro else ''}")
                        # and from the owner's loop: executed directly
                        seen2 = []

                        async def on_owner(_name=name, _proxy=proxy, _seen=seen, _seen2=seen2):
                            del _seen[:]
                            r2 = getattr(_proxy, _name)(6)
                            if asyncio.iscoroutine(r2) or asyncio.isfuture(r2):
                                r2 = await r2
                            _seen2.extend(_seen)
                            return r2
                        try:
                            r2 = await elt.run_coroutine_threadsafe(on_owner())
                        except BaseException as e:  # noqa
                            problems.append(f"method {name!r} called from the owner's loop raised {e!r}")
                            continue
                        if [t for t, _ in seen2] != [6] or r2 != (4006 if coro else None):
                            problems.append(f"{'coroutine' if coro else 'plain'} method {name!r} called from the owner's loop: executed "
                                            f"{[t for t, _ in seen2]}, returned {r2!r}")
                rep.cov["method_name_scenarios"] = n
            finally:
                elt.force_stop()
                await asyncio.wait_for(elt.thread_complete, 5)

        loop = asyncio.new_event_loop()
        asyncio.set_event_loop(loop)
        try:
            loop.run_until_complete(asyncio.wait_for(main(), 40))
        except BaseException as e:  # noqa
            problems.append(f"the scenario crashed: {e!r}")
        finally:
            loop.close()
        if problems:
            rep.violation({"input": "methods of the wrapped object under the names bellows sends through a proxy, and other ordinary names",
                           "observed": problems[:6], "required": "a call made through the proxy is executed on the owner's loop whatever the method is called"},
                          found_input=True, signature="proxy:method-names")

    def _argument_scenarios(self, rep):
        """the call that is executed is the call that was made: positional arguments, keyword arguments (overriding a default,
        keyword-only, **kwargs) and no arguments at all, for plain and coroutine methods, from the owner's loop and from another
        one"""
        import bellows.thread as bt
        problems = []
        SHAPES = [((), {}), ((1,), {}), ((1, 2, 3), {}), ((1,), {"b": 5}), ((), {"a": 4, "b": 5}), ((1, 2), {"k": 9}),
                  ((1,), {"k": 9, "extra": "x", "more": None}), ((), {"k": 0}), ((1,), {"name": "kitchen"}),
                  ((), {"func": 3, "loop": 1, "args": (1,), "kwargs": {}, "obj": None, "attr": "x"}), (([1, 2],), {"b": (3,), "kw": {"d": 1}})]

        class ArgTarget:
            def __init__(self):
                self.seen = []
                self.lock = threading.Lock()

            def plain(self, a=None, b="default", *rest, k="kdefault", **kw):
                with self.lock:
                    self.seen.append(("plain", (a, b, rest, k, kw), threading.get_ident()))

            async def coro(self, a=None, b="default", *rest, k="kdefault", **kw):
                with self.lock:
                    self.seen.append(("coro", (a, b, rest, k, kw), threading.get_ident()))
                return (a, b, rest, k, kw)

            def plain_kwonly(self, a, *, page):
                with self.lock:
                    self.seen.append(("plain_kwonly", (a, page), threading.get_ident()))

        def bound(args, kwargs):
            def ref(a=None, b="default", *rest, k="kdefault", **kw):
                return (a, b, rest, k, kw)
            return ref(*args, **kwargs)

        async def _tid():
            return threading.get_ident()

        async def main():
            elt = bt.EventLoopThread()
            await elt.start()
            try:
                owner_tid = await elt.run_coroutine_threadsafe(_tid())
                errs = []
                elt.loop.call_soon_threadsafe(elt.loop.set_exception_handler, lambda lp, ctx: errs.append(ctx))
                n = 0
                for where in ("other", "owner"):
                    for args, kwargs in SHAPES:
                        tgt = ArgTarget()
                        proxy = bt.ThreadsafeProxy(tgt, elt.loop)
                        want = bound(args, kwargs)

                        async def calls():
                            proxy.plain(*args, **kwargs)
                            r = proxy.coro(*args, **kwargs)
                            return await asyncio.wait_for(r, 2)
                        rc = await (calls() if where == "other" else elt.run_coroutine_threadsafe(calls()))
                        await elt.run_coroutine_threadsafe(asyncio.sleep(0.01))
                        n += 2
                        got = {k: v for k, v, _ in tgt.seen}
                        if rc != want or got.get("coro") != want:
                            problems.append(f"coroutine call ({args}, {kwargs}) made from the {where} loop: executed with "
                                            f"{got.get('coro')}, returned {rc}; the call made binds to {want}")
                        if got.get("plain") != want:
                            problems.append(f"plain call ({args}, {kwargs}) made from the {where} loop: executed with {got.get('plain')} "
                                            f"(owner-loop errors: {[repr(c.get('exception')) for c in errs]}); the call made binds to {want}")
                        if any(t != owner_tid for _, _, t in tgt.seen):
                            problems.append(f"call ({args}, {kwargs}) from the {where} loop did not run on the owner's thread")
                        del errs[:]
                    tgt = ArgTarget()
                    proxy = bt.ThreadsafeProxy(tgt, elt.loop)

                    async def kwonly():
                        proxy.plain_kwonly(15, page=2)
                    await (kwonly() if where == "other" else elt.run_coroutine_threadsafe(kwonly()))
                    await elt.run_coroutine_threadsafe(asyncio.sleep(0.01))
                    n += 1
                    if [v for _, v, _ in tgt.seen] != [(15, 2)]:
                        problems.append(f"plain_kwonly(15, page=2) made from the {where} loop was executed as {[v for _, v, _ in tgt.seen]} "
                                        f"(owner-loop errors: {[repr(c.get('exception')) for c in errs]})")
                    del errs[:]
                rep.cov["argument_forwarding_calls"] = n
            finally:
                elt.force_stop()
                await asyncio.wait_for(elt.thread_complete, 5)

        loop = asyncio.new_event_loop()
        asyncio.set_event_loop(loop)
        try:
            loop.run_until_complete(asyncio.wait_for(main(), 30))
        except BaseException as e:  # noqa
            problems.append(f"the scenario crashed: {e!r}")
        finally:
            loop.close()
        if problems:
            rep.violation({"input": "calls with positional and keyword arguments through the proxy, from the owner's loop and from another one",
                           "observed": problems[:6], "required": "the method is executed on the owner's loop with the arguments of the call that was made"},
                          found_input=True, signature="proxy:arguments")

    def nontrivial(self, case, obs):
        return case["caller"] == "other"

    def signature(self, case, obs, why):
        return "proxy:" + why[:60]
