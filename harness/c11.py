"""C11: reset handshake -- real Gateway (+EZSP facade) vs the Coq gateway model; plus the bytes of
the reset request and the frame counters after the handshake on the real AshProtocol."""
import itertools

import cgw
from framework import PropertyCheck

SW = cgw.SOFTWARE


class Check(PropertyCheck):
    pid = "C11"
    gen_files = ["GenAsh", "GenProto", "GenGatewayFn", "GenAshFn", "GenGatewayAsyncFn"]
    model_imports = ["gen.GenAsh", "model.Gateway"]
    run_expr = "run_gateway_case"
    case_type = "(list (N * list (N * N)))"
    shard = 400
    rule = ("gateway-level histories: reset request / start-up wait x RSTACK reset codes and ERROR/exhaustion codes x arrival (before "
            "the request, in time, after the timeout, twice) x connection loss / EOF at each step, upward calls delivered singly and "
            "back to back in one loop iteration; all 256 codes in time; plus, on the real AshProtocol, the bytes of the reset request and "
            "the frame counters after the handshake from every prior value 0..7 x 0..7; non-trivial = contains an RSTACK, a loss or a "
            "timeout while something is pending; distinct by history")
    assumptions = ["the ASH layer is abstracted to the calls it makes into Gateway (C02/C04/C05 cover it)",
                   "a reset request that joins one in progress is not generated"]

    def build_cases(self, tier, rng):
        cases = []
        codes_all = list(range(256))
        sample = [SW, 0x00, 0x01, 0x02, 0x03, 0x06, 0x09, 0x0A, 0x0C, 0x51, 0x52, 0x53, 0x80, 0xFF, 0x0B, 0x7F]
        codes = codes_all if tier == "thorough" else sample
        for c in codes_all if tier == "thorough" else codes_all[::1]:
            cases.append([("addcb",), ("start",), ("req",), ("batch", [("reset", c)])])
        for c in codes:
            for pre in ([], [("addcb",)]):
                cases.append(pre + [("batch", [("reset", c)]), ("req",), ("timer",)])                 # before the request
                cases.append(pre + [("req",), ("timer",), ("batch", [("reset", c)])])                 # after the timeout
                cases.append(pre + [("req",), ("batch", [("reset", c)]), ("batch", [("reset", c)])])  # twice
                cases.append(pre + [("req",), ("batch", [("reset", c), ("reset", SW)])])
                cases.append(pre + [("startup",), ("batch", [("reset", c)])])
                cases.append(pre + [("startup",), ("req",), ("batch", [("reset", c)]), ("batch", [("reset", SW)])])
        losses = [("lost", True), ("lost", False), ("eof",)]
        for ls in losses:
            for pre in ([], [("addcb",), ("start",)]):
                cases.append(pre + [("req",), ("batch", [ls])])
                cases.append(pre + [("startup",), ("batch", [ls])])
                cases.append(pre + [("req",), ("batch", [("reset", SW), ls])])          # back to back
                cases.append(pre + [("startup",), ("batch", [("reset", SW), ls])])
                cases.append(pre + [("req",), ("batch", [ls, ("reset", SW)])])
                cases.append(pre + [("req",), ("batch", [("reset", SW)]), ("batch", [ls])])
                cases.append(pre + [("batch", [ls]), ("req",)])
                cases.append(pre + [("req",), ("startup",), ("batch", [ls, ls])])
        for _ in range(600 if tier == "quick" else 6000):
            cases.append(cgw.gen_events(rng, sample))
        return cases

    def run_impl(self, case):
        return cgw.run_events(case)

    def describe(self, case):
        return [list(e) if len(e) < 2 or e[0] != "batch" else ["batch", [list(u) for u in e[1]]] for e in case]

    def case_from_json(self, j):
        return [tuple(e) if e[0] != "batch" else ("batch", [tuple(u) for u in e[1]]) for e in j]

    def model_input(self, case):
        return cgw.model_events(case)

    def obs_to_z(self, case, obs):
        if "crash" in obs:
            return [-99]
        return cgw.enc_steps(obs)

    def monitor(self, case, obs):
        return cgw.monitor_gateway(case, obs)

    def _threaded_loss(self, rep):
        """the gateway opened the way the library does by default (bellows.uart.connect(..., use_thread=True): ASH + Gateway on
        the library's serial thread, the caller awaiting through the thread-safe proxy), real threads, real time: a reset
        request (and the start-up wait) pending when the serial transport reports the loss is released with the connection
        error"""
        import asyncio
        import threading
        from unittest.mock import patch
        import zigpy.config as conf
        import bellows.uart as uart
        problems = []
        n = 0

        class App:
            def enter_failed_state(self, code):
                pass

            def connection_lost(self, exc):
                pass

            def frame_received(self, data):
                pass

        class Port:
            def __init__(self):
                self.written, self.closed = [], False

            def write(self, data):
                self.written.append(bytes(data))

            def is_closing(self):
                return self.closed

            def close(self):
                self.closed = True

        async def scenario(exc, with_startup):
            made = {}

            async def fake_create(loop, protocol_factory, *a, **k):
                proto = protocol_factory()
                tr = Port()
                made.update(loop=loop, proto=proto, tr=tr)
                loop.call_soon(proto.connection_made, tr)
                return tr, proto
            with patch("bellows.uart.zigpy.serial.create_serial_connection", fake_create):
                gw = await uart.connect(conf.SCHEMA_DEVICE({conf.CONF_DEVICE_PATH: "/dev/null", conf.CONF_DEVICE_BAUDRATE: 115200}),
                                        App(), use_thread=True)
            waiters = {}
            if with_startup:
                waiters["startup"] = asyncio.ensure_future(gw.wait_for_startup_reset())
                await asyncio.sleep(0.02)
            waiters["reset"] = asyncio.ensure_future(gw.reset())
            for _ in range(200):
                if made["tr"].written:
                    break
                await asyncio.sleep(0.005)
            made["loop"].call_soon_threadsafe(made["proto"].connection_lost, exc)
            out = {}
            for k, tk in waiters.items():
                done, _ = await asyncio.wait({tk}, timeout=1.5)
                if not done:
                    tk.cancel()
                    out[k] = "still pending 1.5 s after the loss"
                elif tk.cancelled():
                    out[k] = "CancelledError"
                elif tk.exception() is None:
                    out[k] = f"returned {tk.result()!r}"
                else:
                    e = tk.exception()
                    ok = (e is exc) if exc is not None else isinstance(e, ConnectionResetError)
                    out[k] = "ok" if ok else repr(e)
            await asyncio.sleep(0.05)
            for th in threading.enumerate():
                if "bellows" in th.name:
                    th.join(1)
            return out

        loop = asyncio.new_event_loop()
        asyncio.set_event_loop(loop)
        try:
            for exc, with_startup in ((OSError(5, "Input/output error"), False), (None, False),
                                      (ConnectionAbortedError("device unplugged"), True)):
                try:
                    out = loop.run_until_complete(asyncio.wait_for(scenario(exc, with_startup), 15))
                except BaseException as e:  # noqa
                    out = {"scenario": repr(e)}
                n += 1
                if any(v != "ok" for v in out.values()):
                    problems.append({"lost_with": repr(exc), "pending": sorted(out), "ended": out})
        finally:
            loop.close()
            asyncio.set_event_loop(None)
        rep.cov["threaded_gateway_loss_scenarios"] = n
        if problems:
            rep.violation({"input": {"gateway": "uart.connect(use_thread=True), fake serial port", "then": "reset request pending, the transport reports connection_lost"},
                           "observed": problems, "required": "when the connection is lost every pending reset / start-up waiter is released with the connection error"},
                          found_input=True, signature="gateway:threaded-loss")

    def nontrivial(self, case, obs):
        return any(e[0] in ("batch", "timer") for e in case) and any(e[0] in ("req", "startup") for e in case)

    def signature(self, case, obs, why):
        return "gateway:" + why[:60]

    def shrink(self, case, still_fails):
        evs = list(case)
        changed = True
        while changed and len(evs) > 1:
            changed = False
            for i in range(len(evs)):
                cand = evs[:i] + evs[i + 1:]
                if still_fails(cand):
                    evs, changed = cand, True
                    break
        return evs

    def loss_on_full_stack(self, waiter, loss):
        """real AshProtocol + Gateway + EZSP on the fake transport: a waiter is pending, then the connection goes away
        by one of the paths the library has for it; returns how and when (virtual time after the loss) each waiter ended"""
        import asyncio
        import ashref
        import fullstack
        s = fullstack.Stack(ncp_version=8, ncp_up=False)          # an NCP that never answers: the waiters stay pending
        s.add_app_callback()
        res = {}

        async def wait(key, coro):
            try:
                await coro
                res[key] = ["ok", s.loop.time()]
            except asyncio.TimeoutError:
                res[key] = ["timeout", s.loop.time()]
            except ConnectionError as e:
                res[key] = ["connection-error", s.loop.time()]
            except asyncio.CancelledError:
                res[key] = ["cancelled", s.loop.time()]
                raise
            except BaseException as e:  # noqa
                res[key] = ["raise:" + type(e).__name__, s.loop.time()]

        async def main():
            tasks = []
            if waiter in ("reset", "both"):
                tasks.append(s.spawn(wait("reset", s.gw.reset())))
            if waiter in ("startup", "both"):
                tasks.append(s.spawn(wait("startup", asyncio.wait_for(s.gw.wait_for_startup_reset(), 30))))
            await asyncio.sleep(1.0)
            t0 = s.loop.time()
            if loss == "error-frame":
                s.line._deliver(ashref.wire(("ERROR", 2, 0x52)))
            elif loss == "rstack-other":
                s.line._deliver(ashref.wire(("RSTACK", 2, 0x02)))
            elif loss == "close":
                s.ez.close()
            elif loss == "lost":
                s.ash.connection_lost(ConnectionAbortedError("scripted loss"))
            elif loss == "eof":
                s.ash.eof_received()
            for t in tasks:
                try:
                    await t
                except BaseException:  # noqa
                    pass
            return t0

        t = s.spawn(main())
        out = {}
        try:
            out["finished"] = s.run_until(t, limit=500)
            t0 = t.result() if t.done() and not t.cancelled() and t.exception() is None else None
            out["res"] = {k: [v[0], None if t0 is None else round(v[1] - t0, 6)] for k, v in res.items()}
        except BaseException as e:  # noqa
            out["crash"] = repr(e)
        finally:
            s.close()
        return out

    def error_schedule(self, code, before, pending, after, kind="ERROR"):
        """real AshProtocol + real Gateway + a recording application: `before` ERROR frames with this code before the reset
        request, `pending` while it waits, `after` after its timeout; each frame in its own loop callback.  Returns the
        failure codes the application was told, in order, and how the request ended."""
        import asyncio
        import ashref
        import ashrun
        import bellows.ash
        import bellows.uart
        import vloop
        loop = vloop.VLoop()
        asyncio.set_event_loop(loop)
        vloop.patch_monotonic(bellows.ash, loop)
        told = []

        class App:
            def enter_failed_state(self, c):
                told.append(int(c))

            def frame_received(self, data):
                pass

            def connection_lost(self, exc):
                told.append("lost")
        out = {}
        try:
            gw = bellows.uart.Gateway(App())
            proto = bellows.ash.AshProtocol(gw)
            tr = ashrun.Recorder()
            proto.connection_made(tr)
            wire = ashref.wire((kind, 2, code))

            def deliver(n):
                for _ in range(n):
                    loop.call_soon(proto.data_received, wire)
                    loop.settle()
            deliver(before)
            res = {}

            async def req():
                try:
                    await gw.reset()
                    res["reset"] = "ok"
                except asyncio.TimeoutError:
                    res["reset"] = "timeout"
                except BaseException as e:  # noqa
                    res["reset"] = "raise:" + type(e).__name__
            t = loop.create_task(req())
            loop.settle()
            out["rst_written"] = any(e[0] == "w" and e[1] == "rst" for e in tr.log)
            deliver(pending)
            guard = 0
            while not t.done() and guard < 20:
                guard += 1
                loop.tick()
            deliver(after)
            out["told"] = list(told)
            out["reset"] = res.get("reset")
        except BaseException as e:  # noqa
            out["crash"] = repr(e)
        finally:
            loop.close()
        return out

    def extra_checks(self, rep, tier, rng):
        """on the real AshProtocol: bytes of the reset request; counters after RSTACK from every prior value"""
        # ERROR frames (and RSTACK frames with a non-software code) before / during / after the request, once and twice with
        # the same code: every one of them is handled as an NCP failure, none completes the request
        nsched = 0
        codes = [0x51, 0x52, 0x02, 0x00, 0x0B, 0x80] if tier == "quick" else list(range(0, 256, 3)) + [0x51, 0x52, 0x0B]
        for kind in ("ERROR", "RSTACK"):
            for code in codes:
                if code == 0x0B:
                    # RSTACK(0x0B) is the software-reset acknowledgement: completion, not failure.  ERROR(0x0B) is outside the
                    # property's domain (0x0B is a reset code, not an ASH error code); bellows reports ERROR frames upward
                    # through reset_received(code), so it would complete the request: recorded as an observation in DESIGN.md
                    continue
                for before, pending, after in ((0, 1, 0), (0, 2, 0), (1, 1, 0), (2, 0, 0), (0, 0, 2), (0, 1, 1), (1, 0, 1), (1, 1, 1)):
                    out = self.error_schedule(code, before, pending, after, kind)
                    nsched += 1
                    want = [code] * (before + pending + after)
                    why = None
                    if "crash" in out:
                        why = f"the scenario crashed: {out['crash']}"
                    elif out["told"] != want:
                        why = (f"{before}+{pending}+{after} {kind} frames with code 0x{code:02X} (before / during / after the reset "
                               f"request): the application was told {out['told']}, every one of them is an NCP failure: {want}")
                    elif out["reset"] != "timeout":
                        why = f"a reset request answered only by {kind}(0x{code:02X}) ended with {out['reset']}, not with the reset timeout"
                    elif not out["rst_written"]:
                        why = "the reset request wrote no RST frame"
                    if why:
                        rep.violation({"input": {"frame": kind, "code": code, "before_request": before, "while_pending": pending,
                                                 "after_timeout": after},
                                       "observed": out, "required": why}, found_input=True, signature="gateway:error-schedule")
                        break
        rep.cov["error_frame_schedules"] = nsched
        # the earliest possible answer: the RSTACK is queued as a loop callback by the very write() that carries the RST
        # (a loop-back / in-process NCP): the request completes; also 1 ms and 50 ms later
        import asyncio
        import ashref as _ar0
        import ashrun as _ashrun
        import bellows.ash as _ash
        import bellows.uart as _uart
        import vloop as _vl
        nearly = 0
        for delay in (None, 0.001, 0.05):
            lp = _vl.VLoop()
            asyncio.set_event_loop(lp)
            _vl.patch_monotonic(_ash, lp)
            res = {}
            try:
                class _App:
                    def enter_failed_state(self, c):
                        res.setdefault("failed", []).append(int(c))

                    def frame_received(self, data):
                        pass

                    def connection_lost(self, exc):
                        pass
                gw = _uart.Gateway(_App())
                proto = _ash.AshProtocol(gw)
                tr = _ashrun.Recorder()
                orig_write = tr.write

                def write(data, _p=proto, _lp=lp, _d=delay):
                    orig_write(data)
                    if bytes(data).startswith(bytes([0x1A, 0xC0])):
                        ans = _ar0.wire(("RSTACK", 2, 0x0B))
                        if _d is None:
                            _lp.call_soon(_p.data_received, ans)
                        else:
                            _lp.call_later(_d, _p.data_received, ans)
                tr.write = write
                proto.connection_made(tr)

                async def req():
                    try:
                        await gw.reset()
                        res["reset"] = "ok"
                    except asyncio.TimeoutError:
                        res["reset"] = "timeout"
                    except BaseException as e:  # noqa
                        res["reset"] = "raise:" + type(e).__name__
                t = lp.create_task(req())
                lp.settle()
                guard = 0
                while not t.done() and guard < 20:
                    guard += 1
                    lp.tick()
                nearly += 1
                if res.get("reset") != "ok" or res.get("failed"):
                    rep.violation({"input": {"rstack_software_reset": "queued by the write() that carries the RST" if delay is None
                                             else f"{delay} s after the RST"},
                                   "observed": res, "required": "the reset request completes when the RSTACK with the software-reset "
                                                                "code arrives"}, found_input=True, signature="gateway:earliest-rstack")
                    break
            except BaseException as e:  # noqa
                rep.violation({"input": {"delay": delay}, "observed": repr(e), "required": "scenario runs"}, found_input=True,
                              signature="gateway:earliest-rstack")
                break
            finally:
                lp.close()
        rep.cov["earliest_rstack_scenarios"] = nearly
        # several reset requests on one gateway: each one has its own reset timeout, counted from its own RST.  A first request
        # completes; a second one made `gap` seconds later is answered `delay` seconds after its RST (delay below the reset
        # timeout, gap + delay above it) and must complete; a third one is never answered and times out exactly one reset
        # timeout after its own start
        nmulti = 0
        for gap, delay in ((3.0, 4.0), (4.9, 4.9), (1.0, 4.5), (0.0, 4.99), (2.5, 2.6), (6.0, 1.0)):
            lp = _vl.VLoop()
            asyncio.set_event_loop(lp)
            _vl.patch_monotonic(_ash, lp)
            res = {}
            try:
                class _App2:
                    def enter_failed_state(self, c):
                        res.setdefault("failed", []).append(int(c))

                    def frame_received(self, data):
                        pass

                    def connection_lost(self, exc):
                        pass
                gw = _uart.Gateway(_App2())
                proto = _ash.AshProtocol(gw)
                tr = _ashrun.Recorder()
                orig_write2 = tr.write
                answer = {"after": 0.05}

                def write2(data, _p=proto, _lp=lp, _ow=orig_write2, _a=answer):
                    _ow(data)
                    if bytes(data).startswith(bytes([0x1A, 0xC0])) and _a["after"] is not None:
                        _lp.call_later(_a["after"], _p.data_received, _ar0.wire(("RSTACK", 2, 0x0B)))
                tr.write = write2
                proto.connection_made(tr)

                async def one(key):
                    t0 = lp.time()
                    try:
                        await gw.reset()
                        res[key] = ["ok", round(lp.time() - t0, 6)]
                    except asyncio.TimeoutError:
                        res[key] = ["timeout", round(lp.time() - t0, 6)]
                    except BaseException as e:  # noqa
                        res[key] = ["raise:" + type(e).__name__, round(lp.time() - t0, 6)]

                async def scenario():
                    answer["after"] = 0.05
                    await one("first")
                    await asyncio.sleep(gap)
                    answer["after"] = delay
                    await one("second")
                    await asyncio.sleep(0.5)
                    answer["after"] = None
                    await one("third")
                tk = lp.create_task(scenario())
                lp.settle()
                guard = 0
                while not tk.done() and guard < 60:
                    guard += 1
                    lp.tick()
                nmulti += 1
                want = {"first": ["ok", 0.05], "second": ["ok", delay], "third": ["timeout", float(_uart.RESET_TIMEOUT)]}
                if res != want:
                    rep.violation({"input": {"first_request": "answered after 0.05 s", "second_request": f"{gap} s later, answered after {delay} s",
                                             "third_request": "0.5 s later, never answered"},
                                   "observed": res, "required": f"each request completes when its RSTACK arrives and times out "
                                                                f"{_uart.RESET_TIMEOUT} s after its own RST otherwise: {want}"},
                                  found_input=True, signature="gateway:several-reset-requests")
                    break
            except BaseException as e:  # noqa
                rep.violation({"input": {"gap": gap, "delay": delay}, "observed": repr(e), "required": "scenario runs"}, found_input=True,
                              signature="gateway:several-reset-requests")
                break
            finally:
                lp.close()
        rep.cov["several_reset_requests_scenarios"] = nmulti
        self._threaded_loss(rep)
        # both directions restart at zero after the handshake, also when a DATA frame of the host was still unacknowledged at
        # the reset and its acknowledgement arrives together with the RSTACK (one read / two consecutive callbacks): the
        # first DATA frame after the handshake carries frame number 0, from every prior value
        import ashref as _ar
        import c05 as _c05
        nrestart = 0
        for k in range(8):
            for together in (True, False):
                d = _c05.Driver()
                bad = None
                try:
                    for i in range(k):                                   # prior traffic: k acknowledged sends
                        d.submit(i, bytes([0x30 + i]))
                        d.proto.data_received(_ar.wire(("ACK", 0, 0, (i + 1) % 8)))
                        d.loop.settle()
                    d.submit(100, b"inflight")                           # frame number k, not yet acknowledged
                    d.proto.send_reset()
                    ack = _ar.wire(("ACK", 0, 0, (k + 1) % 8))
                    rstack = _ar.wire(("RSTACK", 2, 0x0B))
                    if together:
                        d.proto.data_received(ack + rstack)
                    else:
                        d.loop.call_soon(d.proto.data_received, ack)
                        d.loop.call_soon(d.proto.data_received, rstack)
                    d.loop.settle()
                    del d.rec.log[:]
                    d.submit(200, b"after")
                    nrestart += 1
                    sent = [e for e in d.rec.log if e[0] == "w" and e[1] == "data"]
                    if not sent or sent[0][2] != 0:
                        bad = (f"prior traffic of {k} frames, frame {k} unacknowledged at the reset, its ACK and the RSTACK arriving "
                               f"{'in one read' if together else 'as two consecutive callbacks'}: the first DATA frame after the "
                               f"handshake carries frame number {sent[0][2] if sent else None}, not 0")
                except BaseException as e:  # noqa
                    bad = f"the scenario crashed: {e!r}"
                finally:
                    d.close()
                if bad:
                    rep.violation({"input": {"prior_frames": k, "ack_and_rstack_in_one_read": together},
                                   "observed": bad, "required": "after a completed handshake both directions restart at frame number zero"},
                                  found_input=True, signature="gateway:restart-after-inflight")
                    break
        rep.cov["restart_with_frame_in_flight"] = nrestart
        # ... and after a session that ended in a failure: an ERROR frame of the NCP, or an NCP gone mute (the host spends its
        # retry budget and declares the link failed by itself).  The handshake completed, so the link is usable again: the next
        # send writes DATA frame 0, and the NCP's DATA frame 0 is accepted and acknowledged with ACK 1
        nfailed = 0
        for k in range(8):
            for ending in ("error-frame", "mute"):
                d = _c05.Driver()
                bad = None
                try:
                    for i in range(k):
                        d.submit(i, bytes([0x30 + i]))
                        d.proto.data_received(_ar.wire(("ACK", 0, 0, (i + 1) % 8)))
                        d.loop.settle()
                    if ending == "error-frame":
                        d.proto.data_received(_ar.wire(("ERROR", 2, 0x51)))
                        d.loop.settle()
                    else:
                        d.submit(100, b"unanswered")
                        guard = 0
                        while d.outstanding() and guard < 12:
                            guard += 1
                            d.loop.tick()
                    failed = d.proto._ncp_state == d.ash.NcpState.FAILED
                    d.proto.send_reset()
                    d.proto.data_received(_ar.wire(("RSTACK", 2, 0x0B)))
                    d.loop.settle()
                    del d.rec.log[:]
                    d.submit(200, b"after")
                    nfailed += 1
                    sent = [e for e in d.rec.log if e[0] == "w" and e[1] == "data"]
                    if not failed:
                        bad = f"harness: the session did not end in the failed state ({ending})"
                    elif not sent or sent[0][2] != 0:
                        bad = (f"prior traffic of {k} frames, then the link failed ({ending}); reset request, RSTACK with the software-"
                               f"reset code; the next send wrote {[(e[1], e[2]) for e in sent] or 'nothing'}"
                               f"{' and ended: ' + repr(d.tasks[200].exception()) if d.tasks[200].done() and not d.tasks[200].cancelled() and d.tasks[200].exception() else ''}"
                               f" -- DATA frame 0 is expected")
                    else:
                        del d.rec.log[:]
                        d.proto.data_received(_ar.wire(("DATA", 0, 0, 1, b"ncp")))
                        d.loop.settle()
                        acks = [e for e in d.rec.log if e[0] == "w" and e[1] == "ack"]
                        if not acks or acks[0][2] != 1:
                            bad = (f"after the handshake that followed a failed session ({ending}) the NCP's DATA frame 0 was answered "
                                   f"with {[(e[1], e[2]) for e in d.rec.log if e[0] == 'w']}, ACK 1 is expected")
                except BaseException as e:  # noqa
                    bad = f"the scenario crashed: {e!r}"
                finally:
                    d.close()
                if bad:
                    rep.violation({"input": {"prior_frames": k, "session_ended_by": ending},
                                   "observed": bad, "required": "after a completed handshake both directions restart at frame number zero"},
                                  found_input=True, signature="gateway:restart-after-failure")
                    break
            if bad:
                break
        rep.cov["restart_after_failed_session"] = nfailed
        nloss = 0
        for waiter in ("reset", "startup", "both"):
            for loss in ("error-frame", "rstack-other", "close", "lost", "eof"):
                out = self.loss_on_full_stack(waiter, loss)
                nloss += 1
                why = None
                if "crash" in out or not out.get("finished"):
                    why = f"the scenario crashed or hangs: {out}"
                else:
                    for k, (how, dt) in out["res"].items():
                        if how != "connection-error" or dt is None or dt > 0.001:
                            why = (f"{k} waiter pending while the connection went away ({loss}): it ended by {how} {dt}s later; "
                                   f"it must be released at once with the connection error")
                    for k in (["reset"] if waiter != "startup" else []) + (["startup"] if waiter != "reset" else []):
                        if k not in out["res"]:
                            why = f"{k} waiter never ended ({loss})"
                if why:
                    rep.violation({"input": {"stack": "real AshProtocol + Gateway + EZSP, application callback registered, silent NCP",
                                             "pending": waiter, "then": loss},
                                   "observed": out, "required": why}, found_input=True, signature="gateway:loss:" + loss)
                    break
        rep.cov["full_stack_loss_scenarios"] = nloss
        import ashref
        import ashrun
        import bellows.ash as ash
        p, rec = ashrun.new_protocol()
        raw = bytearray()
        rec.write = lambda d: raw.extend(d)
        p.send_reset()
        want = bytes([0x1A, 0xC0, 0x38, 0xBC, 0x7E])
        rep.cov["reset_request_bytes"] = bytes(raw).hex()
        if bytes(raw) != want:
            rep.violation({"input": "Gateway.reset() -> AshProtocol.send_reset()", "observed": bytes(raw).hex(),
                           "required": "CANCEL byte followed by the RST frame: " + want.hex()}, found_input=True,
                          signature="gateway:rst-bytes")
        n = 0
        for tx, rx in itertools.product(range(8), range(8)):
            p, rec = ashrun.new_protocol()
            p._tx_seq, p._rx_seq = tx, rx
            p.data_received(ashref.wire(("RSTACK", 2, 11)))
            n += 1
            if (p._tx_seq, p._rx_seq) != (0, 0):
                rep.violation({"input": {"tx_seq": tx, "rx_seq": rx, "frame": "RSTACK(0x0B)"},
                               "observed": [p._tx_seq, p._rx_seq], "required": "both frame numbers restart at 0"},
                              found_input=True, signature="gateway:numbers-not-zero")
                break
        rep.cov["counter_restart_cases"] = n
