"""Type walker for the EZSP schemas: live zigpy/bellows type objects -> flat wire descriptors.

A schema (dict of fields, or a Struct class) is flattened to a list of *items*; structs are
concatenations of their fields on the wire, so nesting disappears:
  item  ::= ("P", prim) | ("LV", pfx, [prim]) | ("FX", n, [prim]) | ("REST", [prim])
          | ("OPT", [prim]) | ("REQ0", [prim])
  prim  ::= ("U", nbytes) | ("S", nbytes) | ("LVB", prefix_bytes)
Anything outside this universe (bit fields, big-endian ints, floats, lists of lists, `length=`
fields, unknown `requires=` predicates, optional fields that are not last) raises Unsupported:
the translator fails closed."""
from __future__ import annotations

import zigpy.types as zt
from zigpy.types import basic as zb


class Unsupported(Exception):
    pass


def is_int(ty):
    return isinstance(ty, type) and issubclass(ty, zb.FixedIntType)


def prim_of_int(ty):
    bits = ty._bits
    if bits is None or bits % 8:
        raise Unsupported(f"{ty.__name__}: sub-byte integer ({bits} bits)")
    if getattr(ty, "_byteorder", "little") != "little":
        raise Unsupported(f"{ty.__name__}: big-endian integer")
    return ("S" if ty._signed else "U", bits // 8)


def kind(ty):
    if not isinstance(ty, type):
        raise Unsupported(f"{ty!r}: not a type")
    if is_int(ty):
        return "int"
    if issubclass(ty, zb.LVBytes):
        if type(ty.serialize) is not type(zb.LVBytes.serialize) or ty.serialize is not zb.LVBytes.serialize \
                or ty.deserialize.__func__ is not zb.LVBytes.deserialize.__func__:
            raise Unsupported(f"{ty.__name__}: overridden LVBytes codec")
        return "lvbytes"
    if issubclass(ty, zt.Struct):
        struct_quirk(ty)           # raises Unsupported on an overridden codec that is not modelled
        return "struct"
    if issubclass(ty, zb.LVList):
        return "lvlist"
    if issubclass(ty, zb.FixedList):
        return "fixedlist"
    if issubclass(ty, zb.List):
        return "list"
    raise Unsupported(f"{ty.__name__}: unknown type kind ({[c.__name__ for c in ty.__mro__][:4]})")


# The one overridden struct codec that is modelled: EmberKeyStruct.deserialize pads a 24-byte remainder
# with 12 zero bytes at offset 7 (a firmware quirk).  Recognised by its (normalised) source; anything else
# that overrides serialize / deserialize / to/from-bytes of zigpy's Struct is refused.
_KEYSTRUCT_DESERIALIZE = """
@classmethod
def deserialize(cls, data: bytes) -> tuple[EmberKeyStruct, bytes]:
    if len(data) == 24:
        data = data[:7] + b"\\x00" * 12 + data[7:]
    return super().deserialize(data)
"""


def _ast_norm(src):
    import ast
    import textwrap
    tree = ast.parse(textwrap.dedent(src))
    fn = tree.body[0]
    fn.body = [s for s in fn.body if not (isinstance(s, ast.Expr) and isinstance(s.value, ast.Constant))]
    return ast.dump(fn)


# The harness side (value generation, the independent decoder of the monitors) must keep working when the source of the
# quirk changes -- the translator (strict) is what reports the changed source as a broken obligation; the drivers switch
# this on after the translation stage and then go by the DOCUMENTED quirk: a remainder of exactly 24 bytes is padded.
LENIENT_QUIRKS = False


def struct_quirk(ty):
    """None, or ("PAD", when_len, at, n) for the recognised deserialisation quirk"""
    import inspect
    own = [n for n in ("serialize", "deserialize", "_deserialize_internal", "as_dict", "__init_subclass__", "__new__")
           if any(n in c.__dict__ for c in ty.__mro__ if c is not zt.Struct and issubclass(c, zt.Struct) and c.__module__.startswith("bellows"))]
    if not own:
        return None
    if own == ["deserialize"] and ty.__name__ == "EmberKeyStruct":
        src = inspect.getsource(ty.__dict__["deserialize"].__func__)
        if _ast_norm("@classmethod\n" + __import__("textwrap").dedent(src).split("@classmethod\n", 1)[-1]) == _ast_norm(_KEYSTRUCT_DESERIALIZE):
            return ("PAD", 24, 7, 12)
        if LENIENT_QUIRKS:
            return ("PAD", 24, 7, 12)
    raise Unsupported(f"{ty.__name__}: overrides {own} of zigpy's Struct in a way the translator does not model")


def prims(ty):
    """flat primitive layout of an element type (no lists inside)"""
    k = kind(ty)
    if k == "int":
        return [prim_of_int(ty)]
    if k == "lvbytes":
        return [("LVB", ty._prefix_length)]
    if k == "struct":
        if struct_quirk(ty) is not None:
            raise Unsupported(f"{ty.__name__}: struct with a deserialisation quirk inside a list element")
        out = []
        for f in ty.fields:
            _plain_field(ty, f)
            out += prims(f.type)
        return out
    if k == "fixedlist":
        return prims(ty._item_type) * ty._length
    raise Unsupported(f"{ty.__name__}: list nested inside a list element")


def _plain_field(sty, f):
    if f.length is not None:
        raise Unsupported(f"{sty.__name__}.{f.name}: length= field")
    if f.requires is not None:
        raise Unsupported(f"{sty.__name__}.{f.name}: requires= inside a nested position")
    if f.optional:
        raise Unsupported(f"{sty.__name__}.{f.name}: optional field in a nested position")


def _requires_first_zero(sty, f) -> bool:
    """recognise `requires=lambda rsp: rsp.<first field> == <its zero member>` by probing"""
    first = sty.fields[0]
    if not is_int(first.type):
        return False

    class Probe:
        pass
    try:
        p0, p1, p2 = Probe(), Probe(), Probe()
        for p, v in ((p0, 0), (p1, 1), (p2, 0x7F)):
            for g in sty.fields:
                setattr(p, g.name, None)
            setattr(p, first.name, first.type(v))
        return bool(f.requires(p0)) and not f.requires(p1) and not f.requires(p2)
    except Exception:
        return False


def items_of_type(ty, last=True):
    """items for one top-level field type; `last` = nothing follows it in the schema"""
    k = kind(ty)
    if k in ("int", "lvbytes"):
        return [("P", prims(ty)[0])]
    if k == "lvlist":
        lp = prim_of_int(ty._length_type)
        if lp[0] != "U":
            raise Unsupported(f"{ty.__name__}: signed length prefix")
        return [("LV", lp[1], prims(ty._item_type))]
    if k == "fixedlist":
        return [("FX", ty._length, prims(ty._item_type))]
    if k == "list":
        # a greedy list that is not last can be serialised but not decoded: the Coq side requires
        # wf_schema (greedy items last) of every response/callback schema, not of request schemas
        return [("REST", prims(ty._item_type))]
    if k == "struct":
        q = struct_quirk(ty)
        out = [q] if q is not None else []
        n = len(ty.fields)
        for i, f in enumerate(ty.fields):
            flast = last and i == n - 1
            if f.length is not None:
                raise Unsupported(f"{ty.__name__}.{f.name}: length= field")
            if f.requires is not None:
                if i == 0 or not _requires_first_zero(ty, f) or not flast:
                    raise Unsupported(f"{ty.__name__}.{f.name}: unrecognised requires= predicate")
                out.append(("REQ0", prims(f.type)))
            elif f.optional:
                if not flast:
                    raise Unsupported(f"{ty.__name__}.{f.name}: optional field is not last")
                out.append(("OPT", prims(f.type)))
            else:
                out += items_of_type(f.type, flast)
        return out
    raise Unsupported(ty.__name__)


def items_of_schema(schema):
    if isinstance(schema, dict):
        tys = list(schema.values())
        out = []
        for i, ty in enumerate(tys):
            out += items_of_type(ty, last=(i == len(tys) - 1))
        return out
    if isinstance(schema, type) and issubclass(schema, zt.Struct):
        its = items_of_type(schema, last=True)
        if any(it[0] == "REQ0" for it in its) and not (its and its[0][0] == "P" and its[0][1][0] == "U"):
            raise Unsupported(f"{schema.__name__}: requires= without a leading unsigned tag")
        return its
    raise Unsupported(f"schema {schema!r} is neither a dict nor a Struct class")


# ---------------------------------------------------------------------------------------------------
# Gallina emission
# ---------------------------------------------------------------------------------------------------
def coq_prim(p):
    return {"U": "PU", "S": "PS", "LVB": "PLV"}[p[0]] + f" {p[1]}"


def coq_prims(ps):
    # run-length compress long repetitions (16-byte keys ...) for readability: [PU 1; PU 1; ...]
    return "[" + "; ".join(coq_prim(p) for p in ps) + "]"


def coq_item(it):
    if it[0] == "P":
        return f"IP ({coq_prim(it[1])})"
    if it[0] == "LV":
        return f"ILV {it[1]} {coq_prims(it[2])}"
    if it[0] == "FX":
        return f"IFixed {it[1]} {coq_prims(it[2])}"
    if it[0] == "PAD":
        return f"IPad {it[1]} {it[2]} {it[3]}"
    return {"REST": "IRest", "OPT": "IOpt", "REQ0": "IReq0"}[it[0]] + " " + coq_prims(it[1])


def coq_schema(items):
    return "[" + "; ".join(coq_item(i) for i in items) + "]"


# ---------------------------------------------------------------------------------------------------
# values: build real values for a type and flatten them the way the descriptors are flattened
# ---------------------------------------------------------------------------------------------------
def gen_value(ty, rng, mode):
    """mode: 'lo' | 'hi' | 'rand' ; returns a real value of the type"""
    k = kind(ty)
    if k == "int":
        bits = ty._bits
        if ty._signed:
            lo, hi = -(1 << (bits - 1)), (1 << (bits - 1)) - 1
        else:
            lo, hi = 0, (1 << bits) - 1
        v = lo if mode == "lo" else hi if mode == "hi" else rng.choice([lo, hi, rng.randint(lo, hi), rng.randint(lo, hi)])
        return ty(v)
    if k == "lvbytes":
        mx = min(256 ** ty._prefix_length - 2, 300 if ty._prefix_length > 1 else 254)
        n = 0 if mode == "lo" else mx if mode == "hi" else rng.choice([0, 1, rng.randint(0, min(mx, 40))])
        return ty(bytes(rng.randrange(256) for _ in range(n)))
    if k == "struct":
        kw = {}
        for f in ty.fields:
            kw[f.name] = gen_value(f.type, rng, mode)
        obj = ty(**kw)
        for f in ty.fields:
            if f.requires is not None and not f.requires(obj):
                kw[f.name] = None
            elif f.optional and mode == "lo":
                kw[f.name] = None
        return ty(**kw)
    if k == "lvlist":
        mx = min(256 ** (ty._length_type._bits // 8) - 1, 255)
        n = 0 if mode == "lo" else min(mx, 40) if mode == "hi" else rng.randint(0, 5)
        return ty([gen_value(ty._item_type, rng, mode if mode != "hi" else "rand") for _ in range(n)])
    if k == "fixedlist":
        return ty([gen_value(ty._item_type, rng, mode) for _ in range(ty._length)])
    if k == "list":
        n = 0 if mode == "lo" else 30 if mode == "hi" else rng.randint(0, 5)
        return ty([gen_value(ty._item_type, rng, "rand" if mode == "hi" else mode) for _ in range(n)])
    raise Unsupported(ty.__name__)


def flat_prims(ty, v):
    """real value -> list of primitive values (ints / bytes) in wire order"""
    k = kind(ty)
    if k == "int":
        return [int(v)]
    if k == "lvbytes":
        return [bytes(v)]
    if k == "struct":
        out = []
        for f in ty.fields:
            out += flat_prims(f.type, getattr(v, f.name))
        return out
    if k == "fixedlist":
        out = []
        for x in v:
            out += flat_prims(ty._item_type, x)
        return out
    raise Unsupported(ty.__name__)


def flat_items(ty, v, last=True):
    """real value of a top-level field type -> list of item values
    item value: ('P', prim) | ('L', [rows]) | ('NONE',)"""
    k = kind(ty)
    if k in ("int", "lvbytes"):
        return [("P", flat_prims(ty, v)[0])]
    if k in ("lvlist", "list"):
        return [("L", [flat_prims(ty._item_type, x) for x in v])]
    if k == "fixedlist":
        return [("L", [flat_prims(ty._item_type, x) for x in v])]
    if k == "struct":
        out = [("NONE",)] if struct_quirk(ty) is not None else []      # the IPad item carries no value
        n = len(ty.fields)
        for i, f in enumerate(ty.fields):
            fv = getattr(v, f.name)
            if f.requires is not None or f.optional:
                out.append(("NONE",) if fv is None else ("L", [flat_prims(f.type, fv)]))
            else:
                out += flat_items(f.type, fv, last and i == n - 1)
        return out
    raise Unsupported(ty.__name__)


def flat_schema_values(schema, values):
    """values: list aligned with dict schema fields, or a Struct instance for a Struct schema"""
    if isinstance(schema, dict):
        out = []
        tys = list(schema.values())
        for i, (ty, v) in enumerate(zip(tys, values)):
            out += flat_items(ty, v, i == len(tys) - 1)
        return out
    return flat_items(schema, values, True)


def coq_pval(p):
    if isinstance(p, (bytes, bytearray)):
        return "VB [" + ";".join(str(b) for b in p) + "]"
    return f"VI ({int(p)})%Z"


def coq_ivals(ivs):
    out = []
    for iv in ivs:
        if iv[0] == "P":
            out.append(f"XP ({coq_pval(iv[1])})")
        elif iv[0] == "NONE":
            out.append("XNone")
        else:
            out.append("XL [" + "; ".join("[" + "; ".join(coq_pval(p) for p in row) + "]" for row in iv[1]) + "]")
    return "[" + "; ".join(out) + "]"


# ---------------------------------------------------------------------------------------------------
# raw wire values, chosen from the flat descriptors alone (no library type is constructed), and an
# independent encoder for them: what an NCP could put on the wire, undefined enum values included
# ---------------------------------------------------------------------------------------------------
def _gen_prim(p, rng, mode):
    k, n = p
    if k == "U":
        lo, hi = 0, (1 << (8 * n)) - 1
    elif k == "S":
        lo, hi = -(1 << (8 * n - 1)), (1 << (8 * n - 1)) - 1
    else:
        mx = min(256 ** n - 2, 300 if n > 1 else 254)
        ln = 0 if mode == "lo" else mx if mode == "hi" else rng.choice([0, 1, rng.randint(0, min(mx, 40))])
        return bytes(rng.randrange(256) for _ in range(ln))
    if mode == "lo":
        return lo
    if mode == "hi":
        return hi
    return rng.choice([lo, hi, rng.randint(lo, hi), rng.randint(lo, hi), rng.randint(0, min(hi, 3))])


def gen_flat(items, rng, mode):
    """item values in the shape of flat_schema_values: ('P', v) | ('L', rows) | ('NONE',)"""
    out = []
    for i, it in enumerate(items):
        if it[0] == "P":
            out.append(("P", _gen_prim(it[1], rng, mode)))
        elif it[0] == "PAD":
            out.append(("NONE",))
        elif it[0] == "LV":
            mx = min(256 ** it[1] - 1, 255)
            n = 0 if mode == "lo" else min(mx, 40) if mode == "hi" else rng.randint(0, 5)
            out.append(("L", [[_gen_prim(p, rng, "rand" if mode == "hi" else mode) for p in it[2]] for _ in range(n)]))
        elif it[0] == "FX":
            out.append(("L", [[_gen_prim(p, rng, mode) for p in it[2]] for _ in range(it[1])]))
        elif it[0] == "REST":
            n = 0 if mode == "lo" else 30 if mode == "hi" else rng.randint(0, 5)
            out.append(("L", [[_gen_prim(p, rng, "rand" if mode == "hi" else mode) for p in it[1]] for _ in range(n)]))
        elif it[0] == "OPT":
            out.append(("NONE",) if mode == "lo" or rng.random() < 0.3 else ("L", [[_gen_prim(p, rng, mode) for p in it[1]]]))
        elif it[0] == "REQ0":
            first = out[0][1] if out and out[0][0] == "P" else None
            out.append(("L", [[_gen_prim(p, rng, mode) for p in it[1]]]) if first == 0 else ("NONE",))
        else:
            raise Unsupported(str(it))
    return out


def _enc_prim(p, v):
    k, n = p
    if k == "U":
        return int(v).to_bytes(n, "little")
    if k == "S":
        return (int(v) % (1 << (8 * n))).to_bytes(n, "little")
    return len(v).to_bytes(n, "little") + bytes(v)


def flat_encode(items, vals):
    out = b""
    for it, v in zip(items, vals):
        if it[0] == "P":
            out += _enc_prim(it[1], v[1])
        elif it[0] == "PAD" or v[0] == "NONE":
            continue
        else:
            ps = it[2] if it[0] in ("LV", "FX") else it[1]
            if it[0] == "LV":
                out += len(v[1]).to_bytes(it[1], "little")
            for row in v[1]:
                for p, x in zip(ps, row):
                    out += _enc_prim(p, x)
    return out


def _dec_prim(p, data):
    """bytes consumed by one primitive at the head of data, or None when data is too short"""
    k, n = p
    if len(data) < n:
        return None
    if k in ("U", "S"):
        return n
    ln = int.from_bytes(data[:n], "little")
    return n + ln if len(data) >= n + ln else None


def _dec_row(ps, data):
    used = 0
    for p in ps:
        c = _dec_prim(p, data[used:])
        if c is None:
            return None
        used += c
    return used


def flat_decodes(items, data):
    """independent statement of "the payload decodes fully under this schema" (trailing bytes are tolerated, as the
    library tolerates them): True / False, or None for a schema with a special item this decoder does not state (PAD)"""
    data = bytes(data)
    first = None
    for i, it in enumerate(items):
        if it[0] == "PAD":
            # the documented quirk of the key structure (the last field of its two responses): the structure is complete,
            # or exactly `when_len` bytes are left (a firmware that sends a 4-byte id in place of the 16-byte key)
            _, when_len, _at, npad = it
            rest_items = items[i + 1:]
            size = 0
            for r in rest_items:
                if r[0] == "P" and r[1][0] in ("U", "S"):
                    size += r[1][1]
                elif r[0] == "FX" and all(q[0] in ("U", "S") for q in r[2]):
                    size += r[1] * sum(q[1] for q in r[2])
                else:
                    return None
            if size != when_len + npad:
                return None
            return len(data) >= size or len(data) == when_len
        if it[0] == "P":
            c = _dec_prim(it[1], data)
            if c is None:
                return False
            if i == 0 and it[1][0] == "U":
                first = int.from_bytes(data[:it[1][1]], "little")
            data = data[c:]
        elif it[0] == "LV":
            if len(data) < it[1]:
                return False
            n = int.from_bytes(data[:it[1]], "little")
            data = data[it[1]:]
            for _ in range(n):
                c = _dec_row(it[2], data)
                if c is None:
                    return False
                data = data[c:]
        elif it[0] == "FX":
            for _ in range(it[1]):
                c = _dec_row(it[2], data)
                if c is None:
                    return False
                data = data[c:]
        elif it[0] == "REST":
            while data:
                c = _dec_row(it[1], data)
                if c is None or c == 0:
                    return False if c is None else True
                data = data[c:]
        elif it[0] == "OPT":
            if data:
                c = _dec_row(it[1], data)
                if c is None:
                    return False
                data = data[c:]
        elif it[0] == "REQ0":
            if first == 0:
                c = _dec_row(it[1], data)
                if c is None:
                    return False
                data = data[c:]
        else:
            return None
    return True


# EZSP v14 replaced the one-byte stack / serial-protocol status by the 32-bit unified status in every frame; bellows' own
# table keeps it in exactly one place (an explicit definition).  Stated here from the EZSP reference, not from the tables.
LEGACY_STATUS_LEFT_IN_V14 = {("launchStandaloneBootloader", "rx", "status")}


def legacy_status_fields(version):
    """fields of the version's command table whose type is a legacy one-byte status (EmberStatus / EzspStatus)"""
    import bellows.ezsp as E
    import bellows.types as t
    out = []
    for name, (_cid, tx, rx) in E.EZSP._BY_VERSION[version].COMMANDS.items():
        for side, sch in (("tx", tx), ("rx", rx)):
            if isinstance(sch, dict):
                for k, ty in sch.items():
                    if isinstance(ty, type) and issubclass(ty, (t.EmberStatus, t.EzspStatus)):
                        out.append((name, side, k))
    return out


def unified_status_violations():
    import bellows.ezsp as E
    bad = []
    for v in sorted(E.EZSP._BY_VERSION):
        if v >= 14:
            bad += [(v,) + f for f in legacy_status_fields(v) if f not in LEGACY_STATUS_LEFT_IN_V14]
    return bad


def legacy_family_inconsistencies():
    """In the EZSP reference a command's status field is a stack status (EmberStatus) or a serial-protocol status (EzspStatus),
    and stays that from one protocol version to the next (v4..v13; v14 replaced both by the unified status).  Returns the
    (command, side, field, {version: family}) whose family differs between versions -- the byte on the wire is the same, the
    family decides what it converts to."""
    import collections
    import bellows.ezsp as E
    import bellows.types as t
    fam = collections.defaultdict(dict)
    for v, cls in sorted(E.EZSP._BY_VERSION.items()):
        if v >= 14:
            continue
        for name, (_cid, tx, rx) in cls.COMMANDS.items():
            for side, sch in (("tx", tx), ("rx", rx)):
                fields = list(sch.items()) if isinstance(sch, dict) else [(f.name, f.type) for f in getattr(sch, "fields", [])]
                for fname, ty in fields:
                    if isinstance(ty, type) and issubclass(ty, (t.EmberStatus, t.EzspStatus)):
                        fam[(name, side, fname)][v] = ty.__name__
    return [(k[0], k[1], k[2], dict(vs)) for k, vs in sorted(fam.items()) if len(set(vs.values())) > 1]
