"""Independent Python reference for ASH (written from UG101, not from bellows): used as the
property oracle on the implementation's own outputs (the monitors of C02/C03/C04) and to build
test frames.  It shares no code with bellows and none with the Coq model."""
from __future__ import annotations

FLAG, ESC, XON, XOFF, SUB, CANCEL = 0x7E, 0x7D, 0x11, 0x13, 0x18, 0x1A
RESERVED = {FLAG, ESC, XON, XOFF, SUB, CANCEL}


def crc_ccitt(data: bytes, crc: int = 0xFFFF) -> int:
    for byte in data:
        crc ^= byte << 8
        for _ in range(8):
            crc = ((crc << 1) ^ 0x1021) & 0xFFFF if crc & 0x8000 else (crc << 1) & 0xFFFF
    return crc


def lfsr_sequence(n: int) -> bytes:
    out, r = bytearray(), 0x42
    for _ in range(n):
        out.append(r)
        r = (r >> 1) ^ 0xB8 if r & 1 else r >> 1
    return bytes(out)


SEQ = lfsr_sequence(256)


def randomize(data: bytes) -> bytes:
    return bytes(a ^ b for a, b in zip(data, SEQ))


def with_crc(body: bytes) -> bytes:
    c = crc_ccitt(body)
    return body + bytes([c >> 8, c & 0xFF])


# frames are tuples: ("DATA", frm, retx, ack, payload) ("ACK"|"NAK", res, nrdy, ack) ("RST",)
# ("RSTACK"|"ERROR", version, code)
def encode(fr) -> bytes:
    k = fr[0]
    if k == "DATA":
        _, frm, re, ack, p = fr
        return with_crc(bytes([(frm << 4) | (re << 3) | ack]) + randomize(p))
    if k in ("ACK", "NAK"):
        _, res, nrdy, ack = fr
        return with_crc(bytes([(0x80 if k == "ACK" else 0xA0) | (res << 4) | (nrdy << 3) | ack]))
    if k == "RST":
        return with_crc(b"\xC0")
    if k in ("RSTACK", "ERROR"):
        return with_crc(bytes([0xC1 if k == "RSTACK" else 0xC2, fr[1], fr[2]]))
    raise ValueError(fr)


def classify(ctrl: int) -> str | None:
    if ctrl & 0x80 == 0:
        return "DATA"
    if ctrl & 0xE0 == 0x80:
        return "ACK"
    if ctrl & 0xE0 == 0xA0:
        return "NAK"
    return {0xC0: "RST", 0xC1: "RSTACK", 0xC2: "ERROR"}.get(ctrl)


def decode(raw: bytes):
    """unstuffed frame bytes -> frame tuple or None (invalid)."""
    if len(raw) < 3 or crc_ccitt(raw[:-2]) != (raw[-2] << 8 | raw[-1]):
        return None
    ctrl, body = raw[0], raw[1:-2]
    k = classify(ctrl)
    if k == "DATA":
        if len(body) > 256:
            return None
        return ("DATA", (ctrl >> 4) & 7, (ctrl >> 3) & 1, ctrl & 7, randomize(body))
    if k in ("ACK", "NAK"):
        return (k, (ctrl >> 4) & 1, (ctrl >> 3) & 1, ctrl & 7)     # extra bytes tolerated (see DESIGN C02)
    if k == "RST":
        return ("RST",) if not body else None
    if k in ("RSTACK", "ERROR"):
        if len(body) != 2 or body[0] != 2:
            return None
        return (k, body[0], body[1])
    return None


def stuff(data: bytes) -> bytes:
    out = bytearray()
    for c in data:
        if c in RESERVED:
            out += bytes([ESC, c ^ 0x20])
        else:
            out.append(c)
    return bytes(out)


def unstuff(data: bytes):
    out, esc = bytearray(), False
    for c in data:
        if esc:
            if (c ^ 0x20) not in RESERVED:
                return None
            out.append(c ^ 0x20)
            esc = False
        elif c == ESC:
            esc = True
        else:
            out.append(c)
    return None if esc else bytes(out)


def wire(fr, prefix=b"") -> bytes:
    return prefix + stuff(encode(fr)) + bytes([FLAG])


class RefDecoder:
    """Per-byte reference decoder + in-sequence receiver.  events: ('ack', n) ('nak', n)
    ('cnak', n) ('up', payload) ('reset', code)."""

    def __init__(self):
        self.acc = bytearray()
        self.discard = False
        self.rx = 0
        self.events = []

    def frame(self, fr):
        k = fr[0]
        if k == "DATA":
            _, frm, re, ack, p = fr
            if frm == self.rx:
                self.rx = (self.rx + 1) % 8
                self.events.append(("ack", self.rx))
                self.events.append(("up", bytes(p)))
            elif re:
                self.events.append(("ack", self.rx))
            else:
                self.events.append(("nak", self.rx))
        elif k == "RSTACK":
            self.rx = 0
            self.events.append(("reset", fr[2]))
        elif k == "ERROR":
            self.events.append(("reset", fr[2]))

    def byte(self, b):
        if b == FLAG:
            if self.discard:
                self.discard = False
            elif self.acc:
                raw = unstuff(bytes(self.acc))
                fr = decode(raw) if raw is not None and raw else None
                if fr is None:
                    self.events.append(("cnak", self.rx))
                else:
                    self.frame(fr)
            self.acc = bytearray()
        elif self.discard:
            pass
        elif b == CANCEL:
            self.acc = bytearray()
        elif b == SUB:
            self.acc = bytearray()
            self.discard = True
        elif b in (XON, XOFF):
            pass
        else:
            self.acc.append(b)

    def feed(self, data: bytes):
        for b in data:
            self.byte(b)
        return self


def parse_written(data: bytes):
    """Decode what the host wrote to the transport THE WAY THE PEER'S RECEIVER DOES (UG101): a Cancel byte anywhere
    discards what was received since the last Flag, a Substitute byte makes the receiver drop everything up to the next
    Flag, XON/XOFF are removed, then unstuffing, CRC and classification.  Events: ('ack',n)/('nak',n)/('cnak',n)/
    ('data', frm, retx, ack, payload)/('rst', cancelled)/('raw', hex) for an undecodable frame/('dropped', why)."""
    evs = []
    cancel = False
    dropping = False
    cur = bytearray()
    for b in data:
        if b == FLAG:
            if dropping:
                evs.append(("dropped", "substitute"))
                dropping = False
            elif cur:
                raw = unstuff(bytes(cur))
                fr = decode(raw) if raw else None
                if fr is None:
                    evs.append(("raw", bytes(cur).hex()))
                elif fr[0] == "ACK":
                    evs.append(("ack", fr[3]) if not cancel else ("cack", fr[3]))
                elif fr[0] == "NAK":
                    evs.append(("cnak", fr[3]) if cancel else ("nak", fr[3]))
                elif fr[0] == "DATA":
                    evs.append(("data", fr[1], fr[2], fr[3], fr[4]))
                elif fr[0] == "RST":
                    evs.append(("rst", cancel))
                else:
                    evs.append(("other",) + tuple(fr))
            cur = bytearray()
            cancel = False
        elif dropping:
            continue
        elif b == CANCEL:
            if cur:
                evs.append(("dropped", "cancel byte inside a frame: " + bytes(cur).hex()))
            cur = bytearray()
            cancel = True
        elif b == SUB:
            cur = bytearray()
            dropping = True
        elif b in (XON, XOFF):
            continue
        else:
            cur.append(b)
    if cur:
        evs.append(("partial", bytes(cur).hex()))
    return evs
