"""Writes seeded/<name>/meta.json and seeded/README.md from the evaluation logs."""
import json
import re
import sys
from pathlib import Path

ROOT = Path(__file__).resolve().parent.parent / "seeded"

SEEDS = {
    "C01-ack-from-frame-number": ("C01", "data_frame_received builds the ACK from the frame's own number: an out-of-sequence retransmitted frame n is answered ACK(n+1) (cumulative) while an earlier frame is still missing",
        "NCP transmit window 2 or 3 and two faults on the same payload: the oldest in-flight DATA frame lost, its retransmission lost again while a later reTx frame of the same burst arrives"),
    "C02-discard-flag-check-on-chunk": ("C02", "while discarding after SUBSTITUTE the flag test looks at the read just handed in (`data`, also rebound by unstuffing) instead of the buffer",
        "a SUBSTITUTE byte in a read that also holds an earlier flag or an already unstuffed frame; byte-at-a-time delivery never shows it"),
    "C03-control-frames-unstuffed": ("C03", "_write_frame stuffs only DATA frames; control frames are written as-is",
        "a control frame whose CRC contains a reserved byte: NAK(ackNum 0) = a0 54 1a (CANCEL), ACK(nRdy=1, ackNum 3) = 8b c1 13 (XOFF); i.e. a NAK sent while the receive sequence is exactly 0"),
    "C04-ack-number-of-retransmission": ("C04", "the two ACK branches of data_frame_received merged: an out-of-sequence retransmission is answered ACK(frmNum+1) instead of ACK(expected)",
        "a DATA frame with reTx=1 whose number is neither the expected one nor expected-1 (multi-frame NCP window plus loss on the right frames)"),
    "C05-failed-check-hoisted": ("C05", "the failed-link check of _send_data_frame hoisted out of the retry loop to before the semaphore",
        "at least one send already queued behind an unacknowledged DATA frame at the moment the link fails (budget exhaustion or ERROR frame)"),
    "C06-seq-after-send": ("C06", "the request sequence number is incremented after `await gateway.send_data()` instead of before",
        "a command whose link-level send fails or whose caller is cancelled mid-send, then the next command re-uses the number; the late reply to the abandoned request completes the next call"),
    "C07-priority-kwarg-shadow": ("C07", "ProtocolHandler.command() grows a `priority=` keyword that shadows a command argument of the same name",
        "protocol version 8..14, command sendRawMessageExtended, called through the public path with `priority` passed by keyword"),
    "C08-v8-header-slice": ("C08", "EZSPv8._ezsp_frame_rx reads the 16-bit frame id with a slice instead of uint16_t.deserialize",
        "version >= 8 and a frame of exactly 4 bytes (cut between the two frame-id bytes) whose 4th byte is the low byte of a frame decodable from an empty payload"),
    "C09-reset-keeps-version": ("C09", "EZSP.reset() installs a fresh v4 handler but keeps the negotiated ezsp_version",
        "a complete first bring-up against an NCP of version != 4 followed by a later reset and renegotiation"),
    "C10-reset-pending-swallows-failure": ("C10", "Gateway.reset_received tests the pending reset/start-up futures before the reset code",
        "an ERROR frame / retry exhaustion / non-software RSTACK arriving exactly while a reset request (or start-up wait) is pending, with an application callback registered"),
    "C11-shielded-reset-future": ("C11", "Gateway.reset awaits asyncio.shield(self._reset_future): a timeout no longer cancels the inner future, which stays installed",
        "a reset that times out with no RSTACK at all, no late RSTACK / connection loss afterwards, then another reset request: it writes no RST and never completes"),
    "C12-lock-only-with-setup": ("C12", "send_packet takes the request lock only for packets that have set-up commands",
        "a unicast with source route / extended timeout mid-set-up (awaiting an NCP response) while a packet without set-up is submitted: its send command lands between the other's set-up and send"),
    "C13-join-dropped-while-mfg-task": ("C13", "_handle_tc_join_handler returns early when the manufacturer-id override task is still pending, skipping handle_join",
        "a joining device whose EUI64 has a Xiaomi/Lumi prefix, less than 180 s after an earlier such join on the same running application"),
    "C14-zero-counter-not-written": ("C14", "write_nwk_frame_counter / write_aps_frame_counter (v5+) skip the setValue when the counter is 0",
        "an adapter that previously held a network with a non-zero counter, then a network written with counter exactly 0, on EZSP 5..12 (from v13 the factory reset zeroes the token)"),
    "C15-unsubscribe-pop-before-write": ("C15", "unsubscribe pops the group before the table write and restores it only on a rejection status",
        "the table write issued by unsubscribe ends in a command timeout (not a rejection) for a currently subscribed group"),
    "C16-zero-override-dropped": ("C16", "user_supplied = {name for name, value in config.items() if value}: an override of 0 is not treated as user-supplied",
        "a user override whose value is exactly 0 on a grow-only setting that the NCP reports readable"),
    "C17-listener-finally-dropped": ("C17", "wait_for_stack_status loses its try/finally: the listener is removed only on normal exit or by the future's done-callback",
        "form / leave / bring-up ending with an exception (refused command, command raising, cancellation) while the status future is still pending"),
    "C18-lru-cache-on-conversion": ("C18", "from_ember_status wrapped in functools.lru_cache: equal numbers of different status families share a cache entry",
        "two same-numbered statuses of different families converted in one process, the 'wrong' family first"),
    "C19-early-return-skips-clear": ("C19", "_watchdog_feed returns early (inside the try) when the free-buffer read has no value, skipping the else: that clears the failure count",
        "protocol version other than 4, the NCP answering getValue(FREE_BUFFERS) with an error status, and more than four failures in total separated by successes"),
    "C20-closed-check-after-coroutine": ("C20", "the closed-loop guard of ThreadsafeProxy moved behind the coroutine branch",
        "a coroutine method called through the proxy from another loop after the owner's loop was closed: RuntimeError instead of a dropped call"),
}


def main():
    rows = []
    for name in sorted(p.name for p in ROOT.iterdir() if p.is_dir()):
        d = ROOT / name
        if name not in SEEDS:
            print("no description for", name)
            continue
        prop, what, needs = SEEDS[name]
        checks = (d / "checks.log").read_text() if (d / "checks.log").exists() else ""
        verdicts = {}
        cur = None
        for line in checks.splitlines():
            m = re.match(r"\[(C\d+)\] (.*)", line)
            if m:
                cur = m.group(1)
                line = m.group(2)
            if cur and (line.startswith("VIOLATION") or line.startswith("OK")) and cur not in verdicts:
                verdicts[cur] = line[:200]
        m = re.search(r"clean_exit=(\d+) changed_exit=(\d+)", checks)
        suite = (d / "suite_with_change.log").read_text().strip() if (d / "suite_with_change.log").exists() else ""
        caught = {c: ("counterexample" if v.startswith("VIOLATION") and "no-failing-input-found" not in v
                      else "broken obligation, no failing input found" if v.startswith("VIOLATION") else "not affected (OK)")
                  for c, v in verdicts.items()}
        meta = {
            "name": name, "breaks_property": prop, "change": what, "needs_to_manifest": needs,
            "produced_by": "independent sub-agent given only the property text and its own scratch worktree of /repo",
            "verified_by_me": {
                "baseline_suite_with_change": suite,
                "demo_exit_on_clean_tree": int(m.group(1)) if m else None,
                "demo_exit_with_change": int(m.group(2)) if m else None,
                "commands": ["bin/seedeval <worktree> <name> <checks...>  (demo on clean tree; apply patch; full baseline suite; demo; revert)",
                             "bin/seedtest seeded/<name>/patch.diff <checks...>  (git -C /repo apply; bin/check <id> quick; git -C /repo checkout -- .)"],
            },
            "checks": caught,
            "verdict_lines": verdicts,
        }
        (d / "meta.json").write_text(json.dumps(meta, indent=1) + "\n")
        rows.append((name, prop, needs, caught))
    lines = ["# Seeded changes\n",
             "Each directory holds `patch.diff` (against /repo), the agent's `demo.py` + `NOTES.md`, logs of my own verification and `meta.json`.",
             "All changes keep the 254-test baseline green; each demo passes on the clean tree and fails with the change.\n",
             "| change | breaks | needs, in order to manifest | caught by |", "|---|---|---|---|"]
    for name, prop, needs, caught in rows:
        c = "; ".join(f"{k}: {v}" for k, v in caught.items())
        lines.append(f"| {name} | {prop} | {needs} | {c} |")
    (ROOT / "README.md").write_text("\n".join(lines) + "\n")
    print("\n".join(lines[-len(rows):]))


if __name__ == "__main__":
    main()
