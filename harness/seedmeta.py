"""Writes seeded/<name>/meta.json and seeded/README.md from the evaluation logs."""
import json
import re
import sys
from pathlib import Path

ROOT = Path(__file__).resolve().parent.parent / "seeded"

SEEDS = {
    "C01-ack-from-frame-number": ("C01", "data_frame_received builds the ACK from the frame's own number: an out-of-sequence retransmitted frame n is answered ACK(n+1) (cumulative) while an earlier frame is still missing",
        "NCP transmit window 2 or 3 and two faults on the same payload: the oldest in-flight DATA frame lost, its retransmission lost again while a later reTx frame of the same burst arrives"),
    "C02-discard-flag-check-on-chunk": ("C02", "while discarding after SUBSTITUTE the flag test looks at the read just handed in (`data`, also rebound by unstuffing) instead of the buffer",
        "a SUBSTITUTE byte in a read that also holds an earlier flag or an already unstuffed frame; byte-at-a-time delivery never shows it"),
    "C03-control-frames-unstuffed": ("C03", "_write_frame stuffs only DATA frames; control frames are written as-is",
        "a control frame whose CRC contains a reserved byte: NAK(ackNum 0) = a0 54 1a (CANCEL), ACK(nRdy=1, ackNum 3) = 8b c1 13 (XOFF); i.e. a NAK sent while the receive sequence is exactly 0"),
    "C04-ack-number-of-retransmission": ("C04", "the two ACK branches of data_frame_received merged: an out-of-sequence retransmission is answered ACK(frmNum+1) instead of ACK(expected)",
        "a DATA frame with reTx=1 whose number is neither the expected one nor expected-1 (multi-frame NCP window plus loss on the right frames)"),
    "C05-failed-check-hoisted": ("C05", "the failed-link check of _send_data_frame hoisted out of the retry loop to before the semaphore",
        "at least one send already queued behind an unacknowledged DATA frame at the moment the link fails (budget exhaustion or ERROR frame)"),
    "C06-seq-after-send": ("C06", "the request sequence number is incremented after `await gateway.send_data()` instead of before",
        "a command whose link-level send fails or whose caller is cancelled mid-send, then the next command re-uses the number; the late reply to the abandoned request completes the next call"),
    "C07-priority-kwarg-shadow": ("C07", "ProtocolHandler.command() grows a `priority=` keyword that shadows a command argument of the same name",
        "protocol version 8..14, command sendRawMessageExtended, called through the public path with `priority` passed by keyword"),
    "C08-v8-header-slice": ("C08", "EZSPv8._ezsp_frame_rx reads the 16-bit frame id with a slice instead of uint16_t.deserialize",
        "version >= 8 and a frame of exactly 4 bytes (cut between the two frame-id bytes) whose 4th byte is the low byte of a frame decodable from an empty payload"),
    "C09-reset-keeps-version": ("C09", "EZSP.reset() installs a fresh v4 handler but keeps the negotiated ezsp_version",
        "a complete first bring-up against an NCP of version != 4 followed by a later reset and renegotiation"),
    "C10-reset-pending-swallows-failure": ("C10", "Gateway.reset_received tests the pending reset/start-up futures before the reset code",
        "an ERROR frame / retry exhaustion / non-software RSTACK arriving exactly while a reset request (or start-up wait) is pending, with an application callback registered"),
    "C11-shielded-reset-future": ("C11", "Gateway.reset awaits asyncio.shield(self._reset_future): a timeout no longer cancels the inner future, which stays installed",
        "a reset that times out with no RSTACK at all, no late RSTACK / connection loss afterwards, then another reset request: it writes no RST and never completes"),
    "C12-lock-only-with-setup": ("C12", "send_packet takes the request lock only for packets that have set-up commands",
        "a unicast with source route / extended timeout mid-set-up (awaiting an NCP response) while a packet without set-up is submitted: its send command lands between the other's set-up and send"),
    "C13-join-dropped-while-mfg-task": ("C13", "_handle_tc_join_handler returns early when the manufacturer-id override task is still pending, skipping handle_join",
        "a joining device whose EUI64 has a Xiaomi/Lumi prefix, less than 180 s after an earlier such join on the same running application"),
    "C14-zero-counter-not-written": ("C14", "write_nwk_frame_counter / write_aps_frame_counter (v5+) skip the setValue when the counter is 0",
        "an adapter that previously held a network with a non-zero counter, then a network written with counter exactly 0, on EZSP 5..12 (from v13 the factory reset zeroes the token)"),
    "C15-unsubscribe-pop-before-write": ("C15", "unsubscribe pops the group before the table write and restores it only on a rejection status",
        "the table write issued by unsubscribe ends in a command timeout (not a rejection) for a currently subscribed group"),
    "C16-zero-override-dropped": ("C16", "user_supplied = {name for name, value in config.items() if value}: an override of 0 is not treated as user-supplied",
        "a user override whose value is exactly 0 on a grow-only setting that the NCP reports readable"),
    "C17-listener-finally-dropped": ("C17", "wait_for_stack_status loses its try/finally: the listener is removed only on normal exit or by the future's done-callback",
        "form / leave / bring-up ending with an exception (refused command, command raising, cancellation) while the status future is still pending"),
    "C18-lru-cache-on-conversion": ("C18", "from_ember_status wrapped in functools.lru_cache: equal numbers of different status families share a cache entry",
        "two same-numbered statuses of different families converted in one process, the 'wrong' family first"),
    "C19-early-return-skips-clear": ("C19", "_watchdog_feed returns early (inside the try) when the free-buffer read has no value, skipping the else: that clears the failure count",
        "protocol version other than 4, the NCP answering getValue(FREE_BUFFERS) with an error status, and more than four failures in total separated by successes"),
    "C20-closed-check-after-coroutine": ("C20", "the closed-loop guard of ThreadsafeProxy moved behind the coroutine branch",
        "a coroutine method called through the proxy from another loop after the owner's loop was closed: RuntimeError instead of a dropped call"),
    # ---- round 2 (each agent was also told what the round-1 change for its property was and asked for a different mechanism)
    "C01b-timeouts-counted-separately": ("C01", "_send_data_frame gives up on `timeouts >= ACK_TIMEOUTS` (timeouts counted separately from NAKs) while the loop is still bounded by attempts: the loop can fall through and send_data() returns normally without any ACK",
        "all five transmissions of one frame fail with a mix: at least one NAK (detectable corruption) and the last attempt an ACK timeout (loss), e.g. corrupt, drop, drop, drop, drop"),
    "C02b-escape-run-collapses": ("C02", "_unstuff_bytes tests for ESCAPE first with an early continue: a run of escape bytes collapses, `7D 7D 5E` decodes to `7E`",
        "a frame containing an escape sequence with one or more extra 0x7D bytes right next to its escape byte, the rest intact so the CRC of the collapsed bytes matches"),
    "C03b-randomize-first-128": ("C03", "the randomisation table shortened to 128 bytes and the per-byte XOR replaced by a masked whole-field integer XOR: bytes from offset 128 are not randomised",
        "a DATA payload of 129..200 bytes compared against an independent encoder / a real NCP"),
    "C04b-rstack-keeps-counters": ("C04", "the frame-number reset moved from rstack_frame_received to send_reset: an RSTACK the host did not ask for no longer restarts numbering",
        "an unsolicited RSTACK while the expected frame number is not 0, then DATA(0) from the restarted NCP"),
    "C05b-ack-window-no-wrap": ("C05", "_handle_ack iterates the pending frames with `0 < ack_num - frm_num <= TX_K`: the modulo-8 on the distance is lost",
        "at least 8 sends since the last RSTACK: the send numbered 7 is acknowledged by ackNum 0, treated as stale, repeated five times and the healthy link fails"),
    "C06b-release-without-acquire": ("C06", "`async with semaphore(priority)` de-sugared into try/acquire/finally/release with the acquire inside the try: a caller cancelled while queued releases a slot it never held",
        "command A in flight, caller B queued behind it and cancelled while queued, a further caller waiting or arriving before A completes"),
    "C07b-bool-missing-true": ("C07", "Bool._missing_ maps every non-zero undefined byte to Bool.true",
        "a response / callback Bool field carrying a byte 0x02..0xFF, encoded independently of the library's own serialisers"),
    "C08b-inherited-frame-ids": ("C08", "COMMANDS_BY_ID built per class in __init_subclass__ and merged with the parent version's table: a version also answers to frame ids it deleted",
        "protocol version 6 or 8..14 and a frame carrying a frame id that only an older version defines (optionally with the sequence number of a pending command)"),
    "C09b-reset-future-done-unchecked": ("C09", "Gateway.reset_received no longer checks `.done()` of the reset / start-up futures",
        "two RSTACK frames handled in one loop iteration while a reset is pending (duplicated RSTACK, or zigbeed's late start-up RSTACK back to back with the answer); fatal on socket:// transports"),
    "C10b-failed-state-dedup": ("C10", "AshProtocol._enter_failed_state returns early when the state is already FAILED",
        "a first failure before the application registered its callback (only logged), no RSTACK in between, then an ERROR frame after registration: never reported"),
    "C11b-counters-zeroed-at-request": ("C11", "frame counters zeroed in send_reset instead of on RSTACK",
        "DATA traffic between the RST being written and the RSTACK arriving (a queued host command, or an in-flight NCP callback), or an unsolicited RSTACK"),
    "C12b-fresh-tag-on-retry": ("C12", "send_packet draws a fresh message tag for every retry but keeps waiting on the first (destination, tag)",
        "at least one busy status followed by an accepted retry, and a confirmation carrying the tag that was actually sent"),
    "C13b-repeat-aps-filter": ("C13", "_handle_frame drops a callback whose (message type, sender, APS counter) equals the previously delivered one",
        "two consecutive deliverable callbacks on one running application sharing type, sender and APS counter (everything else may differ)"),
    "C14b-tc-partner-overwritten": ("C14", "write_network_info sets tc_link_key.partner_ieee = node_info.ieee unconditionally",
        "EZSP v9+ with the rewritable EUI64 token, a supplied node address different from the adapter's, and a supplied trust-centre address that is unknown or different: flag and address in the security state are wrong (read-back unaffected)"),
    "C15b-resubscribe-after-failed-unsubscribe": ("C15", "subscribe's already-subscribed test additionally requires a non-zero endpoint in the cached entry (which a failed unsubscribe left at 0)",
        "subscribe, an unsubscribe of that group rejected or timed out, then subscribe again: a second table slot is written / INVALID_INDEX"),
    "C16b-buffer-count-before-overrides": ("C16", "the move-the-packet-buffer-count-last block moved in front of the user-override loop",
        "a user override (not None) for a setting that has no built-in default in the running version: it is appended after the buffer count"),
    "C17b-listener-after-init": ("C17", "_ensure_network_running registers the NETWORK_UP listener only after the init command has answered",
        "the NETWORK_UP event arriving before the init response, or in the same read right after it"),
    "C18b-undefined-unified-to-fail": ("C18", "the isinstance pass-through of from_ember_status replaced by identity entries in SL_STATUS_MAP for the defined members only",
        "a unified (32-bit) status that bellows' enum does not define: converted to FAIL"),
    "C19b-feed-counter-after-read": ("C19", "the watchdog feed counter is advanced only after a successful counter read",
        "a protocol version other than 4, a tolerated failure at or before a counter-clear boundary, and a run reaching the boundary"),
    "C20b-raw-method-on-owner-loop": ("C20", "__getattr__ returns the raw bound method when looked up on the owner's loop",
        "the attribute looked up on the owner's loop and the resulting callable invoked from another thread's loop"),
    # ---- round 3 (each agent was told both earlier changes for its property)
    "C01c-cancel-returns-frame-number": ("C01", "send_data no longer shields the send task and _send_data_frame hands its frame number back on CancelledError",
        "a caller cancelled between the first transmission of its frame and its ACK, the frame (or a retransmission) getting through, and another send following: the next payload re-uses the number, is acknowledged by the old frame's ACK and discarded by the NCP"),
    "C02c-parse-except-narrowed": ("C02", "data_received catches `ParsingError` instead of `Exception` around unstuff/parse: the AssertionError of the only DATA length check escapes",
        "a CRC-valid DATA frame with a data field of 257 bytes or more (within the buffer bound): data_received raises, no NAK, later frames of the read stay buffered"),
    "C03c-dispatch-on-type-bits": ("C03", "parse_frame dispatches on the top three bits and looks RST/RSTACK/ERROR up by the low five bits: 0xE0/0xE1/0xE2 are accepted as RST/RSTACK/ERROR",
        "a frame with a correct CRC whose control byte is 0xE0 (no data) or 0xE1/0xE2 with data field `02 code`"),
    "C04c-error-deduplicated": ("C04", "error_frame_received returns early while a reset code is stored: later ERROR frames are not reported",
        "two ERROR frames with no RSTACK/RST between them (codes may differ)"),
    "C05c-nak-exhaustion-not-failed": ("C05", "the NAK branch of _send_data_frame no longer enters the failed state on the last attempt",
        "the peer's reaction to the fifth (last permitted) attempt is a NAK: nobody is told, queued sends go on, DATA frames are written without an RSTACK"),
    "C06c-timeout-from-queue-entry": ("C06", "asyncio_timeout(EZSP_CMD_TIMEOUT) wrapped around the semaphore and the exchange: the clock starts when the caller joins the queue",
        "concurrent callers whose queue wait plus response latency exceeds the command timeout: queued callers time out without having sent anything"),
    "C07c-keyword-order-serialised": ("C07", "serialize_dict walks the bound parameters in the caller's order after a set-equality check of the keys",
        "a command with two or more arguments called with keywords in an order different from the declared one"),
    "C08c-overflow-flag-peek": ("C08", "EZSP.frame_received reads data[1] (overflow flag) outside the try block",
        "a frame of exactly one byte: IndexError escapes the receive entry point"),
    "C09c-confirm-with-handler-version": ("C09", "EZSP.version() confirms with desiredProtocolVersion = handler VERSION instead of the version the NCP reported",
        "an NCP reporting a version newer than the newest table (15+): the confirming query asks for 14 and the configuration write is refused"),
    "C10c-gateway-transport-cleared": ("C10", "Gateway.connection_lost sets self._transport = None; EZSP.enter_failed_state then fails in Gateway.close() before the application callback",
        "connection_lost(exc) or EOF with an application callback registered, on the real EZSP + Gateway + AshProtocol stack"),
    "C11c-clean-close-swallowed": ("C11", "AshProtocol.connection_lost returns early for exc=None after close(): Gateway.connection_lost is never reached",
        "a reset / start-up waiter pending while the host closes the port through EZSP.close() (e.g. an ERROR frame or non-software RSTACK with an application registered): the waiter times out instead of getting the connection error"),
    "C12c-v14-tag-one-byte": ("C12", "v14 messageSentHandler table: message_tag declared uint8_t instead of uint16_t",
        "protocol version 14 and a confirmation frame whose 16-bit tag differs from a pending request's only in the upper byte"),
    "C13c-v14-reserved-sender-dropped": ("C13", "the v14 branch of ezsp_callback_handler ignores incoming messages whose sender is a reserved short address",
        "protocol version 14, sender 0xFFFC / 0xFFFD / 0xFFFF, a deliverable message type"),
    "C14c-eui64-read-before-reset": ("C14", "write_network_info reads getEui64 before reset_network_info (which clears the custom EUI64 token and reboots)",
        "an adapter with the rewritable token already holding custom address X (an earlier restore) and a backup whose node address is X again"),
    "C15c-invalid-index-leaks-slot": ("C15", "subscribe does not return the popped index to the free set when the rejection status is INVALID_INDEX / INDEX_OUT_OF_RANGE",
        "a subscribe of a new group whose table write is rejected with exactly that status"),
    "C16c-disabled-refilled-by-schema": ("C16", "disabled (None) settings are split off before schema validation: the schema fills its default in and the override loop writes it",
        "protocol version 7+, the user disables CONFIG_END_DEVICE_POLL_TIMEOUT (or CONFIG_KEY_TABLE_SIZE on v7)"),
    "C17c-shared-listener-list": ("C17", "_stack_status_listeners = dict.fromkeys((NETWORK_UP, NETWORK_DOWN), []): both keys share one list",
        "the opposite network transition event arriving between the command and the matching event"),
    "C18c-flat-table-255": ("C18", "per-family flat lookup lists built with range(0xFF): 255 entries",
        "status byte 0xFF of either 8-bit family: IndexError"),
    "C19c-count-cleared-on-raise": ("C19", "the failure count is zeroed when the feed raises",
        "six or more consecutive failures with the feed called again after it raised once: failures 6..9 are tolerated"),
    "C20c-batched-drain": ("C20", "plain calls are queued in a deque drained by one scheduled callback without try/finally",
        "a burst of plain calls from another thread in which a call that is not the last raises: the rest of the burst and all later plain calls never run"),
    # ---- round 4 (each agent was told the three earlier changes for its property)
    "C01d-any-other-acknum-acknowledges": ("C01", "_handle_ack resolves every pending frame n with (ackNum - n) % 8 > 0: any acknowledgement number other than the frame's own acknowledges it",
        "an acknowledgement number that is neither n nor n+1 while frame n is outstanding; its author needed a stalled frame OVERTAKEN by later ones, which a serial line (FIFO; C01's quantifier: drop, corrupt, duplicate, stall) cannot do -- under C01's line model the host only ever sees n or n+1; it is a violation of C05's 'returns after an acknowledgement covering its frame', where it is caught"),
    "C02d-ack-number-of-stale-retransmission": ("C02", "the reTx branch of data_frame_received answers ACK(frmNum+1) instead of ACK(expected)",
        "a CRC-valid DATA frame with reTx=1 whose number is neither the expected one nor expected-1"),
    "C03d-unstuff-sequential-replace": ("C03", "_unstuff_bytes rewritten with a validating regex and sequential bytes.replace per reserved value",
        "wire bytes 7D 5D followed by 31, 33, 38 or 3A (an escaped 0x7D followed by a byte that looks like an escape code): decoded one byte short"),
    "C04d-control-frames-unstuffed": ("C04", "_write_frame stuffs only DATA frames",
        "NAK(ackNum 0) = A0 54 1A: the CANCEL byte in its CRC goes out unescaped and the peer's receiver discards the frame: the DATA frame gets no answer"),
    "C05d-error-code-zero-falsy": ("C05", "_enter_failed_state takes the budget reason as a default via `reset_code or ...`",
        "an ERROR frame whose reset code is 0x00: reported upward (and raised) as 0x51"),
    "C06d-awaiting-key-minus-one": ("C06", "the pending entry is registered under `self._seq - 1` after the increment modulo 256",
        "the request that carries sequence number 255: registered under -1, its reply goes to the callbacks and the call times out"),
    "C07d-keystruct-pad-on-flag": ("C07", "EmberKeyStruct.deserialize pads when the KEY_HAS_PSA_ID bit is set instead of when 24 bytes remain",
        "getKey / getKeyTableEntry response (v4..v12) whose bitmask has bit 0x0080 set: 12 zero bytes spliced into a complete structure"),
    "C08d-log-future-exception": ("C08", "the InvalidStateError branch of __call__ logs future.exception()",
        "a decodable frame under the sequence number of a command that has already timed out or been cancelled: CancelledError escapes the receive entry point"),
    "C09d-handler-before-gateway": ("C09", "EZSP.connect() creates the v4 handler before the gateway exists (bound to _gw = None)",
        "a socket:// path whose start-up reset is seen (no EZSP.reset(), so the first version query goes through that handler)"),
    "C10d-closed-write-dropped": ("C10", "_write_frame silently drops frames on a closed transport instead of raising",
        "a deliberate close with a command queued behind the one in flight: it runs into the ACK-timeout path and a controller-reset request follows ~13 s later"),
    "C11d-failure-ignored-while-resetting": ("C11", "Gateway.reset_received ignores non-software codes while a reset is pending",
        "a non-software RSTACK or an ERROR frame arriving between the RST and the RSTACK / the timeout"),
    "C12d-pending-registered-late": ("C12", "the pending entry is registered only around the final wait for the confirmation",
        "the confirmation handled directly behind the send command's response, before send_packet resumes (one serial read)"),
    "C13d-fragment-option-dropped": ("C13", "_handle_frame drops unicasts whose APS options have the fragment bit (0x8000)",
        "an incoming unicast whose options word has bit 15 set"),
    "C14d-mask-widened-by-channel": ("C14", "write_network_info ORs the channel into the channel mask",
        "a backup whose channel is not in its channel mask"),
    "C15d-startup-concurrent-subscribe": ("C15", "Multicast.startup re-subscribes with asyncio.gather",
        "a coordinator listing one group on several endpoints, the group not yet programmed, two free indices, a table write that really suspends"),
    "C16d-out-of-memory-stops-growing": ("C16", "after one capacity default is rejected with ERROR_OUT_OF_MEMORY the remaining grow-only defaults are skipped",
        "the NCP reports smaller values and rejects one default with exactly that status"),
    "C17d-scan-callback-self-removal": ("C17", "the scan callback unregisters itself at completion and the finally skips removal when the future is done",
        "a scan cancelled between the command response and the completion callback (a cancelled future is done)"),
    "C18d-network-busy-to-busy": ("C18", "SL_STATUS_MAP maps EmberStatus.NETWORK_BUSY to sl_Status.BUSY",
        "stack status 0xA1: no longer one of the statuses the send retry loop recognises"),
    "C19d-clear-only-on-v5-path": ("C19", "the failure count reset moved from the try's else into the end of the non-v4 branch",
        "EZSP v4: five failures in total with successes in between"),
    "C20d-gather-without-return-exceptions": ("C20", "EventLoopThread.force_stop gathers the tasks without return_exceptions",
        "two or more coroutine calls outstanding at the stop, one ending abnormally at once, another needing several loop iterations to unwind: its caller blocks for ever"),
    "C01e-failed-state-zeroes-counters": ("C01", "_enter_failed_state also zeroes _tx_seq / _rx_seq ('the session is over')",
        "a failed send (budget spent) while the NCP still retransmits an in-flight frame numbered 0: it is accepted a second time before the RSTACK"),
    "C02e-xon-xoff-left-in-buffer": ("C02", "XON/XOFF are removed only from the bytes before the flag; a read slice that consists of flow-control bytes only is treated as a frame",
        "XON / XOFF bytes directly in front of a flag with nothing else in the frame (11 7e): a spurious NAK"),
    "C03e-length-guard-on-stuffed-bytes": ("C03", "data_received applies the maximum-frame-length guard to the stuffed bytes instead of the unstuffed ones",
        "a valid DATA frame whose stuffed length exceeds the limit while its unstuffed length does not (payload rich in reserved bytes after randomisation)"),
    "C04e-handle-ack-settled-future": ("C04", "_handle_ack sets the result without the done() guard: InvalidStateError escapes frame_received",
        "an ACK and a DATA frame (or two frames carrying ackNum) in one read while a send of the host awaits its acknowledgement: the second frame gets no ACK/NAK"),
    "C05e-nak-path-unclamped": ("C05", "the NAK path adjusts the acknowledgement timeout without clamping it to the minimum / maximum",
        "several NAKs in a row (each doubles the value) followed by a silent attempt: the timeout exceeds the protocol's maximum"),
    "C06e-counter-reads-lose-priority": ("C06", "a missing comma in the priority table merges readCounters into the next key: counter reads get ordinary priority",
        "a readCounters / readAndClearCounters call queued behind ordinary commands"),
    "C07e-v8-header-divmod-255": ("C07", "the v8 header writes the frame id with divmod(cmd_id, 0xFF)",
        "protocol version 8+, a command whose frame id is 0x00FF or above"),
    "C08e-schema-equality-instead-of-id": ("C08", "__call__ asserts that the pending call's response SCHEMA equals the frame's schema instead of comparing frame ids",
        "a frame of a different command whose response schema is equal (e.g. two commands answering with a single status) under the pending call's sequence number"),
    "C09e-counters-zeroed-at-rst": ("C09", "the frame counters are zeroed when the RST is written instead of when the RSTACK arrives",
        "a DATA frame of the old session numbered 0 arriving between the host's RST and the RSTACK: the version response is then rejected as out of sequence and bring-up times out"),
    "C10e-dead-link-enters-failed-state": ("C10", "_send_data_frame treats a closed transport as a link failure and enters the failed state",
        "a deliberate close with a command queued behind the one in flight: the application gets a controller-reset request"),
    "C11e-one-waiter-released": ("C11", "connection_lost picks `self._reset_future or self._startup_reset_future`: only one of two pending waiters is released",
        "a reset request and a start-up wait pending at the same time when the connection is lost"),
    "C12e-setup-only-first-attempt": ("C12", "the route / extended-timeout set-up commands are issued on the first attempt only",
        "a unicast with set-up whose send command is answered busy and retried: the retry goes out without its set-up, and another request's set-up may sit between"),
    "C13e-rssi-invalid-to-none": ("C13", "an RSSI of -128 ('no measurement') is replaced by None",
        "an incoming message callback with rssi = -128"),
    "C14e-hashed-flag-from-data": ("C14", "the hashed-TCLK flag is derived from the presence of the hashed key in the backup instead of the protocol version",
        "EZSP v4 with a backup that carries stack-specific hashed-key data: flag and key in the security state are wrong"),
    "C15e-claim-recorded-before-write": ("C15", "subscribe records the group before the table write and removes it only on rejection",
        "a table write that ends in a command timeout: the group stays reported as subscribed and the index is gone"),
    "C16e-unreadable-setting-skipped": ("C16", "a setting whose current value cannot be read is skipped instead of written",
        "the NCP answers getConfigurationValue with an error status for a setting that is to be written"),
    "C17e-callback-ids-by-length": ("C17", "add_callback numbers callbacks by len(self._callbacks)",
        "a registration removed while a later one is live, then a new registration: two callbacks share an id and removing one removes the other"),
    "C18e-v6-init-status-cast": ("C18", "the v6 initialize_network wrapper casts the stack status with sl_Status(...) instead of converting it",
        "protocol versions 5..7 (the v6 wrapper) and a networkInit status other than success, e.g. NOT_JOINED 0x93"),
    "C19e-rollover-clears-failures": ("C19", "the periodic counter roll-over goes through a helper that also zeroes the failure count",
        "a run of consecutive failures that straddles the read-and-clear feed (which itself fails), protocol version above 4"),
    "C20e-truthiness-test-on-return": ("C20", "the plain-method wrapper tests `if call():` instead of `is not None`",
        "a plain method that returns a falsy non-None value (0, '', [], False): the misuse is not reported"),
}

# checks run against each change besides the one of the property it breaks
ALSO = {
    "C01b-timeouts-counted-separately": ["C05"], "C02b-escape-run-collapses": ["C03"], "C03b-randomize-first-128": ["C02"],
    "C04b-rstack-keeps-counters": ["C11"], "C05b-ack-window-no-wrap": ["C01"], "C09b-reset-future-done-unchecked": ["C10", "C11"],
    "C10b-failed-state-dedup": ["C05"], "C11b-counters-zeroed-at-request": ["C04"],
    "C03c-dispatch-on-type-bits": ["C02"], "C04c-error-deduplicated": ["C05"], "C10c-gateway-transport-cleared": ["C11"],
    "C11c-clean-close-swallowed": ["C10"], "C12c-v14-tag-one-byte": ["C07"], "C01c-cancel-returns-frame-number": ["C05"],
    "C01d-any-other-acknum-acknowledges": ["C05"], "C02d-ack-number-of-stale-retransmission": ["C04"], "C03d-unstuff-sequential-replace": ["C02"],
    "C04d-control-frames-unstuffed": ["C03"], "C08d-log-future-exception": ["C06"], "C11d-failure-ignored-while-resetting": ["C10"],
    "C18d-network-busy-to-busy": ["C12"],
    "C01e-failed-state-zeroes-counters": ["C04", "C05"], "C03e-length-guard-on-stuffed-bytes": ["C02"],
    "C04e-handle-ack-settled-future": ["C05"], "C08e-schema-equality-instead-of-id": ["C06"], "C09e-counters-zeroed-at-rst": ["C11"],
    "C18e-v6-init-status-cast": ["C17"],
}


def main():
    rows = []
    for name in sorted(p.name for p in ROOT.iterdir() if p.is_dir()):
        d = ROOT / name
        if name not in SEEDS:
            print("no description for", name)
            continue
        prop, what, needs = SEEDS[name]
        checks = (d / "checks.log").read_text() if (d / "checks.log").exists() else ""
        verdicts = {}
        cur = None
        for line in checks.splitlines():
            m = re.match(r"\[(C\d+)\] (.*)", line)
            if m:
                cur = m.group(1)
                line = m.group(2)
            if cur and (line.startswith("VIOLATION") or line.startswith("OK")) and cur not in verdicts:
                verdicts[cur] = line[:200]
        m = re.search(r"clean_exit=(\d+) changed_exit=(\d+)", checks)
        suite = (d / "suite_with_change.log").read_text().strip() if (d / "suite_with_change.log").exists() else ""
        caught = {c: ("counterexample" if v.startswith("VIOLATION") and "no-failing-input-found" not in v
                      else "broken obligation, no failing input found" if v.startswith("VIOLATION") else "not affected (OK)")
                  for c, v in verdicts.items()}
        meta = {
            "name": name, "breaks_property": prop, "change": what, "needs_to_manifest": needs,
            "produced_by": "independent sub-agent given only the property text and its own scratch worktree of /repo",
            "verified_by_me": {
                "baseline_suite_with_change": suite,
                "demo_exit_on_clean_tree": int(m.group(1)) if m else None,
                "demo_exit_with_change": int(m.group(2)) if m else None,
                "commands": ["bin/seedeval <worktree> <name> <checks...>  (demo on clean tree; apply patch; full baseline suite; demo; revert)",
                             "bin/seedtest seeded/<name>/patch.diff <checks...>  (git -C /repo apply; bin/check <id> quick; git -C /repo checkout -- .)"],
            },
            "checks": caught,
            "verdict_lines": verdicts,
        }
        (d / "meta.json").write_text(json.dumps(meta, indent=1) + "\n")
        rows.append((name, prop, needs, caught))
    lines = ["# Seeded changes\n",
             "Each directory holds `patch.diff` (against /repo), the agent's `demo.py` + `NOTES.md`, logs of my own verification and `meta.json`.",
             "All changes keep the 254-test baseline green; each demo passes on the clean tree and fails with the change.\n",
             "| change | breaks | needs, in order to manifest | caught by |", "|---|---|---|---|"]
    for name, prop, needs, caught in rows:
        c = "; ".join(f"{k}: {v}" for k, v in caught.items())
        lines.append(f"| {name} | {prop} | {needs} | {c} |")
    (ROOT / "README.md").write_text("\n".join(lines) + "\n")
    print("\n".join(lines[-len(rows):]))


if __name__ == "__main__":
    main()
