"""Helpers to stand up real bellows objects on scripted lower layers."""
from __future__ import annotations

import asyncio

import shim_zigpy

shim_zigpy.install()

import zigpy.config  # noqa: E402

import bellows.ezsp  # noqa: E402
import bellows.zigbee.application as bapp  # noqa: E402

APP_CONFIG = {
    zigpy.config.CONF_DEVICE: {zigpy.config.CONF_DEVICE_PATH: "/dev/null"},
    zigpy.config.CONF_DATABASE: None,
}


def make_ezsp(version: int, path="/dev/null"):
    """Real EZSP facade + real per-version protocol handler; gateway is a stub object."""
    ez = bellows.ezsp.EZSP({zigpy.config.CONF_DEVICE_PATH: path})

    class _Gw:
        def __init__(self):
            self.sent = []
            self.closed = False

        async def send_data(self, data):
            self.sent.append(bytes(data))

        def close(self):
            self.closed = True

    ez._gw = _Gw()
    ez._switch_protocol_version(version)
    ez.start_ezsp()
    return ez


def make_app(version: int, config=None):
    app = bapp.ControllerApplication(dict(config or APP_CONFIG))
    app._ezsp = make_ezsp(version)
    return app


def script_commands(ez, handler):
    """Replace ProtocolHandler.command on this instance by an async scripted function."""
    async def command(name, *args, **kwargs):
        return await handler(name, args, kwargs)
    ez._protocol.command = command


def new_loop():
    loop = asyncio.new_event_loop()
    asyncio.set_event_loop(loop)
    return loop
