"""C06: EZSP command/response matching -- real EZSP + ProtocolHandler + zigpy priority semaphore on the
virtual loop with a scripted gateway, against the Coq protocol machine."""
import asyncio
import itertools

import ezsptypes as et
import vloop
from c07 import enc_ivals
from framework import PropertyCheck

# commands used by the scripts: (name, class)   class: 'hi' keep-alive, 'mid' ordinary, 'lo' packet send
CMDS = [("nop", "hi"), ("readCounters", "hi"), ("readAndClearCounters", "hi"), ("getValue", "hi"), ("getEui64", "mid"),
        ("getNodeId", "mid"), ("networkState", "mid"), ("sendUnicast", "lo"), ("sendMulticast", "lo"), ("setSourceRoute", "lo"),
        ("setExtendedTimeout", "lo"), ("sendBroadcast", "lo")]
# the property's priority classes, stated independently of the library: keep-alive and counter reads first (999), packet
# sends and their set-up commands last (-1), everything else 0
SPEC_PRIO = {"nop": 999, "readCounters": 999, "readAndClearCounters": 999, "getValue": 999,
             "sendUnicast": -1, "sendMulticast": -1, "sendBroadcast": -1, "setSourceRoute": -1, "setExtendedTimeout": -1}
KIND = {"timeout": 0, "sendfail": 1, "invalid": 2, "cancelled": 3, "other": 9}


class Driver:
    def __init__(self, version):
        import random
        import stack
        self.loop = vloop.VLoop()
        asyncio.set_event_loop(self.loop)
        self.ez = stack.make_ezsp(version)
        self.proto = self.ez._protocol
        self.version = version
        self.log = []
        self.events = []
        self.steps = []
        self.mark = 0
        self.tasks = {}
        self.sends = {}       # call id -> future the fake gateway awaits
        self.sent_ok = set()  # calls whose send_data has returned
        self.task_id = {}
        self.rng = random.Random(7)
        drv = self

        class Gw:
            async def send_data(self, data):
                cid = drv.task_id.get(asyncio.current_task())
                fut = drv.loop.create_future()
                drv.sends[cid] = fut
                seq, fid, _ = drv.proto._ezsp_frame_rx(bytes(data))
                drv.log.append(("send", cid, seq, fid))
                await fut

            def close(self):
                pass
        self.ez._gw = Gw()
        self.proto._gw = self.ez._gw
        self.ez.add_callback(self._cb)

    def _cb(self, name, args):
        if name not in self.proto.COMMANDS:
            self.log.append(("cbx", name))
            return
        cid, tx, rx = self.proto.COMMANDS[name]
        vals = list(args) if isinstance(rx, dict) else args
        self.log.append(("cb", cid, enc_ivals(et.flat_schema_values(rx, vals))))

    def close(self):
        for t in self.tasks.values():
            t.cancel()
        try:
            self.loop.settle()
        except Exception:
            pass
        self.loop.close()

    def _end(self, ev):
        self.events.append(ev)
        self.steps.append(self.log[self.mark:])
        self.mark = len(self.log)

    async def _caller(self, i, name, args):
        from bellows.exception import InvalidCommandError
        rx = self.proto.COMMANDS[name][2]
        try:
            res = await self.proto.command(name, *args)
            vals = list(res) if isinstance(rx, dict) else res
            self.log.append(("ret", i, enc_ivals(et.flat_schema_values(rx, vals))))
        except asyncio.TimeoutError:
            self.log.append(("raise", i, KIND["timeout"]))
        except InvalidCommandError:
            self.log.append(("raise", i, KIND["invalid"]))
        except ConnectionError:
            self.log.append(("raise", i, KIND["sendfail"]))
        except asyncio.CancelledError:
            self.log.append(("raise", i, KIND["cancelled"]))
            raise
        except BaseException as e:  # noqa
            self.log.append(("raise", i, KIND["other"], type(e).__name__ + ": " + str(e)[:80]))

    # ---- events -----------------------------------------------------------------------------------
    def call(self, i, name):
        cid, tx, rx = self.proto.COMMANDS[name]
        args = [et.gen_value(ty, self.rng, "lo") for ty in tx.values()]
        t = self.loop.create_task(self._caller(i, name, args))
        self.tasks[i] = t
        self.task_id[t] = i
        self.loop.settle()
        self._end(("call", i, name, SPEC_PRIO.get(name, 0), cid))

    def send_done(self, i, ok=True):
        fut = self.sends.pop(i)
        if ok:
            self.sent_ok.add(i)
            fut.set_result(None)
        else:
            fut.set_exception(ConnectionError("scripted link failure"))
        self.loop.settle()
        self._end(("senddone", i, ok))

    def frame(self, seq, name, mode="rand"):
        """a well-formed response/callback frame of command `name` under sequence number seq"""
        import bellows.types as t
        cid, tx, rx = self.proto.COMMANDS[name]
        vals = [et.gen_value(ty, self.rng, mode) for ty in rx.values()] if isinstance(rx, dict) else et.gen_value(rx, self.rng, mode)
        payload = t.serialize_dict(vals, {}, rx) if isinstance(rx, dict) else vals.serialize()
        saved = self.proto._seq
        self.proto._seq = seq
        hdr = bytes(self.proto._ezsp_frame_tx(name))
        self.proto._seq = saved
        self.ez.frame_received(hdr + payload)
        self.loop.settle()
        flat = et.flat_schema_values(rx, vals)
        self._end(("frame", seq, cid, name == "invalidCommand", flat))

    def timeout(self, i):
        self.loop.tick()
        self._end(("timeout", i))

    def race_frame(self, i, seq, name):
        """the frame is handled in the very loop iteration in which the running command timeout expires (the I/O callback
        runs first, then the due timer, and only afterwards the waiting coroutine resumes).  The Coq machine has this
        schedule as the step RRace (model/EzspRace.v): when the frame carries the number of the call whose timeout
        expires, that call raises the timeout whatever the frame holds.  When the frame does not concern the call whose
        timeout expires (a callback, a number nobody awaits or whose entry an earlier frame has used up) the iteration is the
        frame followed by the timeout and is
        recorded as those two events (the log is cut where frame_received returned); when no timeout is running (the
        call is still inside send_data) the iteration is just the frame (RRace falls back to the plain frame step)."""
        import bellows.types as t
        cid, tx, rx = self.proto.COMMANDS[name]
        vals = [et.gen_value(ty, self.rng, "rand") for ty in rx.values()] if isinstance(rx, dict) else et.gen_value(rx, self.rng, "rand")
        payload = t.serialize_dict(vals, {}, rx) if isinstance(rx, dict) else vals.serialize()
        saved = self.proto._seq
        self.proto._seq = seq
        hdr = bytes(self.proto._ezsp_frame_tx(name))
        self.proto._seq = saved
        lp = self.loop
        lp.settle()
        w = self.waiting_call()                      # the call whose command timeout is running (None: no timer)
        ent = self.proto._awaiting.get(seq)
        own = w is not None and self.last_send.get(w) == seq and ent is not None and not ent[2].done()
        nd = lp.next_deadline()
        if nd is not None:
            lp._vt = max(lp._vt, nd)
        io_mark = [None]

        def io(data):
            try:
                self.ez.frame_received(data)
            finally:
                io_mark[0] = len(self.log)
        lp.call_soon(io, hdr + payload)
        lp.call_soon(lp.stop)
        lp.run_forever()          # one iteration: [the frame, stop, the due timer]
        lp.settle()
        flat = et.flat_schema_values(rx, vals)
        invalid = name == "invalidCommand"
        if w is None or own:
            self._end(("race", i, seq, cid, flat, invalid, "own" if own else "no_timer"))
        else:
            self.events.append(("frame", seq, cid, invalid, flat))
            self.steps.append(self.log[self.mark:io_mark[0]])
            self.mark = io_mark[0]
            self._end(("timeout", w))

    def cancel(self, i):
        self.tasks[i].cancel()
        self.loop.settle()
        self._end(("cancel", i))

    # ---- introspection for adaptive scripts -----------------------------------------------------------
    def waiting_call(self):
        """the call that has sent its request and has not ended: it waits for the response under the command timeout"""
        for i, t in self.tasks.items():
            if i in self.sent_ok and not t.done():
                return i
        return None

    def holder(self):
        """(call id, seq, stage) of the call that owns the send slot"""
        for i, fut in list(self.sends.items()):
            if fut.done():
                del self.sends[i]
                continue
            return i, "sending"
        for seq, (cid, rx, fut) in self.proto._awaiting.items():
            if not fut.done():
                for i, t in self.tasks.items():
                    if not t.done() and self.last_send.get(i) == seq:
                        return i, "waiting"
        return None, None

    @property
    def last_send(self):
        d = {}
        for e in self.log:
            if e[0] == "send":
                d[e[1]] = e[2]
        return d


def run_script(version, calls, script, seq0=0, max_steps=60):
    """calls: list of command names issued at the start (ids 0..); script: reactions for the current
    holder, consumed one at a time until every call has ended"""
    d = Driver(version)
    d.proto._seq = seq0 % 256         # a handler that has already issued seq0 commands
    try:
        names = {}
        for i, n in enumerate(calls):
            d.call(i, n)
            names[i] = n
        nid = len(calls)
        k = 0
        guard = 0
        while any(not t.done() for t in d.tasks.values()) and guard < max_steps:
            guard += 1
            r = script[k] if k < len(script) else "reply"
            k += 1
            i, stage = d.holder()
            if i is None:
                break
            seq = d.last_send[i]
            name = names[i]
            if isinstance(r, tuple) and r[0] == "newcall":
                d.call(nid, r[1])
                names[nid] = r[1]
                nid += 1
                continue
            if isinstance(r, tuple) and r[0] == "cancel_queued":
                q = [j for j, t in d.tasks.items() if not t.done() and j != i]
                if q:
                    d.cancel(q[r[1] % len(q)])
                continue
            if stage == "sending":
                if r == "sendfail":
                    d.send_done(i, ok=False)
                    continue
                if r == "early_reply":      # response processed before send_data() returns
                    d.frame(seq, name)
                    d.send_done(i)
                    continue
                if r == "cancel":
                    d.cancel(i)
                    continue
                if r == "race_early":       # race_frame while the call is still inside send_data: no timeout runs yet
                    d.race_frame(i, seq, name)
                    d.send_done(i)
                    continue
                d.send_done(i)
            if r == "reply":
                d.frame(seq, name)
            elif r == "dup":               # the reply twice
                d.frame(seq, name)
                d.frame(seq, name)
            elif r == "late":              # nothing until the timeout, then the reply arrives
                d.timeout(i)
                d.frame(seq, name)
            elif r == "never":
                d.timeout(i)
            elif r == "race":              # the reply and the expiry of the timeout in one loop iteration
                d.race_frame(i, seq, name)
            elif r == "race_invalid":      # invalidCommand under the pending number in the iteration of the timeout
                d.race_frame(i, seq, "invalidCommand")
            elif r == "race_wrong_id":     # another command's response under the pending number in that iteration
                d.race_frame(i, seq, "getNodeId" if name != "getNodeId" else "getEui64")
            elif r == "race_cb":           # a callback frame in the iteration in which the holder's timeout expires
                d.race_frame(i, (seq + 100) % 256, "stackStatusHandler")
            elif r == "race_other_seq":    # the right frame under a number nobody awaits, in that iteration
                d.race_frame(i, (seq + 77) % 256, name)
            elif r == "cb_before":         # a callback (not under a pending number) then the reply
                d.frame((seq + 100) % 256, "stackStatusHandler")
                d.frame(seq, name)
            elif r == "cb_after":
                d.frame(seq, name)
                d.frame((seq + 1) % 256, "stackStatusHandler")
            elif r == "other_seq":         # the right frame under a number nobody awaits, then the reply
                d.frame((seq + 77) % 256, name)
                d.frame(seq, name)
            elif r == "invalid":           # NCP answers invalidCommand under the pending number
                d.frame(seq, "invalidCommand")
            elif r == "wrong_id":          # a different command's response under the pending number
                other = "getNodeId" if name != "getNodeId" else "getEui64"
                d.frame(seq, other)
                d.timeout(i)
            elif r == "cancel":
                d.cancel(i)
            elif r in ("sendfail", "early_reply", "race_early"):
                d.frame(seq, name)
            else:
                raise ValueError(r)
        return {"events": d.events, "steps": [[list(e) for e in st] for st in d.steps],
                "left": sum(1 for t in d.tasks.values() if not t.done()), "final_seq": d.proto._seq}
    except BaseException as e:  # noqa
        import traceback
        return {"crash": repr(e) + traceback.format_exc()[-600:], "events": d.events, "steps": []}
    finally:
        d.close()


REACTIONS = ["reply", "dup", "late", "never", "cb_before", "cb_after", "other_seq", "invalid", "wrong_id",
             "cancel", "sendfail", "early_reply"]
# a frame handled in the loop iteration in which the command timeout expires (Driver.race_frame; RRace in the model)
RACE_REACTIONS = ["race", "race_invalid", "race_wrong_id", "race_cb", "race_other_seq", "race_early"]


class Check(PropertyCheck):
    pid = "C06"
    gen_files = ["GenCmd", "GenProto", "GenEzspFn", "GenProtoFn"]
    model_imports = ["lib.EzspTypes", "gen.GenCmd", "gen.GenProto", "model.EzspCodec", "model.EzspProto", "model.EzspCases",
                     "model.EzspRace"]
    run_expr = "run_c06_race_case"
    case_type = "(N * list revent)"
    shard = 150
    rule = ("up to N concurrent callers of mixed priority (keep-alive / ordinary / packet-send commands) x per-command NCP behaviour "
            "{reply, duplicate reply, reply after the timeout, never, callback before/after, reply under a foreign number, invalidCommand, "
            "other command's id under the pending number, link-level send failure, reply before send_data returns, a frame (own reply / "
            "invalidCommand / other command's id / callback / foreign number / while still sending) handled in the loop iteration in "
            "which the command timeout expires} x caller cancellation "
            "(holder or queued) x late arrivals; handlers that have already issued 250..255 commands (every reaction at the 255 -> 0 wrap); EZSP v4 and v8; non-trivial = more than "
            "one caller or a non-'reply' reaction; distinct by (version, calls, script)")
    assumptions = ["callback frames carry a sequence number that is not pending (firmware convention)",
                   "zigpy PriorityDynamicBoundedSemaphore is exercised for real; its contract is what the model states"]

    def build_cases(self, tier, rng):
        cases = []
        names = [n for n, _ in CMDS]
        # one caller, every reaction; two callers of every priority-class pair x reaction pairs
        for v in (4, 8):
            for r in REACTIONS:
                cases.append({"v": v, "calls": ["getEui64"], "script": [r]})
            reps = {"hi": "nop", "mid": "getEui64", "lo": "sendUnicast"}
            for a, b in itertools.product(reps.values(), repeat=2):
                for r1, r2 in itertools.product(REACTIONS, repeat=2):
                    if tier == "quick" and rng.random() < 0.5:
                        continue
                    cases.append({"v": v, "calls": [a, b], "script": [r1, r2]})
            # three/four callers: priority order
            for combo in itertools.product(reps.values(), repeat=3):
                cases.append({"v": v, "calls": ["getNodeId"] + list(combo), "script": ["reply"] * 4})
        n = 300 if tier == "quick" else 4000
        for _ in range(n):
            v = rng.choice([4, 8])
            k = rng.randrange(1, 6)
            calls = [rng.choice(names) for _ in range(k)]
            script = []
            for _ in range(rng.randrange(1, 10)):
                x = rng.random()
                if x < 0.6:
                    script.append(rng.choice(REACTIONS))
                elif x < 0.8:
                    script.append(("newcall", rng.choice(names)))
                else:
                    script.append(("cancel_queued", rng.randrange(4)))
            cases.append({"v": v, "calls": calls, "script": script})
        # sequence number wrap: the handler has already issued 250..255 commands; every reaction at and around number 255
        for v in (4, 8):
            for seq0 in (250, 253, 254, 255, 511):
                for r in REACTIONS:
                    cases.append({"v": v, "seq0": seq0, "calls": ["getEui64", "nop", "getNodeId"], "script": [r, "reply", r, "reply"]})
                cases.append({"v": v, "seq0": seq0, "calls": ["getEui64"] * 3 + ["nop"] * 3, "script": ["reply"] * 8})
        for _ in range(40 if tier == "quick" else 600):
            c = dict(cases[rng.randrange(len(cases))])
            if "seq0" not in c:
                c["seq0"] = rng.choice([rng.randrange(256), 254, 255, 253])
                cases.append(c)
        # the reply handled in the loop iteration in which the timeout expires: payload or timeout, nothing else, and the
        # commands behind it are served as usual
        for v in (4, 8):
            for s0 in (0, 250, 255):
                cases.append({"v": v, "seq0": s0, "calls": ["getEui64", "nop", "getNodeId"], "script": ["race", "reply", "race", "reply"]})
                cases.append({"v": v, "seq0": s0, "calls": ["nop", "sendUnicast"], "script": ["race", "late", "race"]})
        # ... every kind of frame in that iteration, alone, in pairs with every other reaction, with callers of every
        # priority class queued behind, and at the 255 -> 0 wrap
        for v in (4, 8):
            for r in RACE_REACTIONS:
                cases.append({"v": v, "calls": ["getEui64"], "script": [r]})
                cases.append({"v": v, "calls": ["getEui64"], "script": [r, r]})
                for s0 in (0, 254, 255):
                    cases.append({"v": v, "seq0": s0, "calls": ["sendUnicast", "getNodeId", "nop"], "script": [r, "reply", r, r]})
                for r2 in REACTIONS:
                    if tier == "quick" and rng.random() < 0.5:
                        continue
                    cases.append({"v": v, "calls": ["getEui64", "nop"], "script": [r, r2]})
                    cases.append({"v": v, "calls": ["nop", "sendUnicast"], "script": [r2, r]})
            for r1, r2 in itertools.product(RACE_REACTIONS, repeat=2):
                cases.append({"v": v, "calls": ["getNodeId", "sendBroadcast", "readCounters"], "script": [r1, r2, "late", r1]})
        for _ in range(120 if tier == "quick" else 1500):
            v = rng.choice([4, 8])
            calls = [rng.choice(names) for _ in range(rng.randrange(1, 6))]
            script = []
            for _ in range(rng.randrange(1, 10)):
                x = rng.random()
                if x < 0.4:
                    script.append(rng.choice(RACE_REACTIONS))
                elif x < 0.7:
                    script.append(rng.choice(REACTIONS))
                elif x < 0.85:
                    script.append(("newcall", rng.choice(names)))
                else:
                    script.append(("cancel_queued", rng.randrange(4)))
            cases.append({"v": v, "seq0": rng.choice([0, 0, rng.randrange(256), 254, 255]), "calls": calls, "script": script})
        # a call that ended without any reply (no answer, link-level send failure, caller cancelled) leaves its sequence
        # number behind; 256 commands later the number comes round again and that command must complete like any other
        for v in (4, 8):
            for r0 in ("never", "sendfail", "cancel"):
                for s0 in (0, 3, 200):
                    if tier == "quick" and (v, s0) not in ((4, 3), (8, 200)):
                        continue
                    cases.append({"v": v, "seq0": s0, "calls": ["getEui64"] + ["nop"] * 258, "script": [r0] + ["reply"] * 258,
                                  "max_steps": 700})
        # sequence number wrap: 300 commands in a row
        for v in (4, 8):
            cases.append({"v": v, "calls": ["nop"], "script": [("newcall", rng.choice(names)) if i % 2 == 0 else "reply" for i in range(600)][:58]})
            cases.append({"v": v, "calls": ["getEui64"] * 1, "script": ["reply", ("newcall", "nop")] * 29})
        return cases

    def run_impl(self, case):
        script = [tuple(x) if isinstance(x, list) else x for x in case["script"]]
        obs = run_script(case["v"], case["calls"], script, case.get("seq0", 0), case.get("max_steps", 60))
        case["_events"] = obs.pop("events")
        races = [e for e in case["_events"] if e[0] == "race"]
        if races:
            n = self._race_stats = getattr(self, "_race_stats", {"cases": 0, "steps_own_number": 0, "steps_no_timer": 0})
            n["cases"] += 1
            n["steps_own_number"] += sum(1 for e in races if e[6] == "own")
            n["steps_no_timer"] += sum(1 for e in races if e[6] != "own")
        return obs

    def extra_checks(self, rep, tier, rng):
        # measured: how many of the cases compared with the model contain an RRace step (every one is compared: model_input
        # never returns None), how many of those steps hit a call waiting under the frame's own number (the timeout wins),
        # and how many found no timeout running (call still inside send_data: plain frame)
        st = getattr(self, "_race_stats", {"cases": 0, "steps_own_number": 0, "steps_no_timer": 0})
        rep.cov["race_cases_compared_with_model"] = st["cases"]
        rep.cov["race_steps_timeout_wins"] = st["steps_own_number"]
        rep.cov["race_steps_no_timer_running"] = st["steps_no_timer"]

    def describe(self, case):
        return {k: v for k, v in case.items() if not k.startswith("_")}

    def model_input(self, case):
        out = []
        for e in case["_events"]:
            if e[0] == "call":
                out.append(f"REv (ECall {e[1]} ({e[3]})%Z {e[4]})")
            elif e[0] == "senddone":
                out.append(f"REv (ESendDone {e[1]} {'true' if e[2] else 'false'})")
            elif e[0] == "frame":
                out.append(f"REv (EFrame (DOk {e[1]} {e[2]} {'true' if e[3] else 'false'} {et.coq_ivals(e[4])}))")
            elif e[0] == "timeout":
                out.append(f"REv (ETimeout {e[1]})")
            elif e[0] == "cancel":
                out.append(f"REv (ECancel {e[1]})")
            elif e[0] == "race":
                out.append(f"RRace (DOk {e[2]} {e[3]} {'true' if e[5] else 'false'} {et.coq_ivals(e[4])})")
        return f"({case.get('seq0', 0)}, [" + "; ".join(out) + "])"

    def obs_to_z(self, case, obs):
        if "crash" in obs:
            return [-99]
        z = []
        for st in obs["steps"]:
            for e in st:
                if e[0] == "send":
                    z += [1, e[1], e[2], e[3]]
                elif e[0] == "ret":
                    z += [2, e[1]] + e[2]
                elif e[0] == "raise":
                    z += [3, e[1], e[2]]
                elif e[0] == "cb":
                    z += [4, e[1]] + e[2]
                else:
                    z += [-50]
            z += [-1]
        return z + [obs["final_seq"]]

    def monitor(self, case, obs):
        if "crash" in obs:
            return f"raised {obs['crash']}"
        import bellows.ezsp.protocol as P
        evs, steps = case["_events"], obs["steps"]
        pending = {}          # seq -> (call, fid) as registered by the send
        inflight = None
        last_seq = None
        waiting_prio = {}     # queued calls: id -> (prio, arrival)
        arrival = 0
        prio_of = {}
        send_returned = set()
        ended = set()
        consumed = set()      # sequence numbers whose registration a frame has already used up
        for ev, st in zip(evs, steps):
            inflight0 = inflight
            if ev[0] == "senddone" and ev[2]:
                send_returned.add(ev[1])
            if ev[0] == "call":
                arrival += 1
                prio_of[ev[1]] = (ev[3], arrival)
                waiting_prio[ev[1]] = (ev[3], arrival)
            for e in st:
                if e[0] == "send":
                    _, cid, seq, fid = e
                    if inflight is not None:
                        return f"command {cid} sent while command {inflight} still awaits its response"
                    if last_seq is not None and seq != (last_seq + 1) % 256:
                        return f"sequence number went {last_seq} -> {seq}"
                    last_seq = seq
                    # priority order among those that were waiting
                    mine = waiting_prio.pop(cid, None)
                    if mine is not None and waiting_prio:
                        best = max(waiting_prio.values(), key=lambda pa: (pa[0], -pa[1]))
                        if (best[0], -best[1]) > (mine[0], -mine[1]) and ev[0] != "call":
                            return f"command {cid} (priority {mine[0]}) started before a waiting command of priority {best[0]}"
                    pending[seq] = (cid, fid)
                    consumed.discard(seq)
                    inflight = cid
                elif e[0] == "ret":
                    _, cid, vals = e
                    if ev[0] == "race":
                        if vals != enc_ivals(ev[4]) or pending.get(ev[2], (None,))[0] != cid:
                            return f"command {cid} returned something else than the response that raced its timeout"
                    elif ev[0] not in ("frame", "senddone"):
                        return f"command {cid} returned without a frame"
                    own = [s for s, (c, f) in pending.items() if c == cid]
                    if not own:
                        return f"command {cid} returned but has no registered request"
                    if inflight == cid:
                        inflight = None
                    self._last_ret = (cid, vals)
                elif e[0] == "raise":
                    if e[2] == KIND["other"]:
                        return (f"command {e[1]} ended with {e[3]}: a command call returns its response, raises a timeout, "
                                f"an invalid-command or a link error, or is cancelled")
                    if e[2] == KIND["timeout"]:
                        # a command times out when ITS request went unanswered for the command timeout: a caller that
                        # is still queued has sent nothing yet and cannot time out
                        if not any(c == e[1] for c, _f in pending.values()):
                            return f"command {e[1]} raised a timeout although its request was never sent (it was still queued)"
                        if ev[0] not in ("timeout", "race"):
                            return f"command {e[1]} raised a timeout in a step where no timer fired ({ev[0]})"
                    if e[2] == KIND["sendfail"]:
                        # the link error of a call is the failure of ITS OWN send: a caller still queued for the slot has
                        # handed nothing to the link, and a failure reported for one send ends that one call
                        if not (ev[0] == "senddone" and not ev[2] and ev[1] == e[1]):
                            return (f"command {e[1]} raised a link error in a step in which no send of its own failed ({ev[0]} "
                                    f"{ev[1] if len(ev) > 1 else ''}): "
                                    f"{'its request was never sent (it was still queued)' if not any(c == e[1] for c, _f in pending.values()) else 'its send had succeeded'}")
                    if inflight == e[1]:
                        inflight = None
                    waiting_prio.pop(e[1], None)
            for e in st:
                if e[0] in ("ret", "raise"):
                    ended.add(e[1])
            if ev[0] == "frame":
                _, seq, fid, invalid, flat = ev
                rets = [e for e in st if e[0] == "ret"]
                cbs = [e for e in st if e[0] == "cb"]
                # the response that carries the sequence number and the frame id of the command in flight completes it
                reg0 = pending.get(seq) if seq not in consumed else None
                if (reg0 is not None and not invalid and reg0[1] == fid and reg0[0] == inflight0 and inflight0 in send_returned
                        and not any(e[0] in ("ret", "raise") and e[1] == inflight0 for s0 in steps[:steps.index(st)] for e in s0)):
                    if not any(r[1] == inflight0 for r in rets):
                        return (f"the NCP answered command {inflight0} (sequence number {seq}, frame id {fid:#x}) but the call did "
                                f"not return that response" + (": it was handed to the callbacks" if cbs else ""))
                for r in rets:
                    reg = pending.get(seq)
                    if reg is None or reg[0] != r[1]:
                        return f"command {r[1]} completed by a frame carrying sequence number {seq} that is not its own"
                    if reg[1] != fid:
                        return f"command {r[1]} completed with the payload of frame id {fid:#x}, it had sent {reg[1]:#x}"
                    if r[2] != enc_ivals(flat):
                        return f"command {r[1]} returned values that are not the frame's payload"
                if len(cbs) > 1:
                    return "a frame was delivered to the callbacks more than once"
                # a well-formed frame that answers no pending call (no registration under its number, or the registration already
                # used up by an earlier frame -- the second copy of a reply) is delivered to the registered callbacks exactly once
                if reg0 is None and not invalid and not rets and len(cbs) != 1:
                    return (f"a frame (sequence number {seq}, frame id {fid:#x}) that answers no pending call was delivered to the "
                            f"callbacks {len(cbs)} times" + (": it repeats a reply that has already been used" if seq in consumed else ""))
                # a frame under a registered number consumes the registration, whether it completes the call or not
                # (another command's id under the pending number fails the lookup and drops the entry: that call then
                # ends by timeout, which the property permits)
                if seq in pending and not (ev[0] == "frame" and steps.index(st) < 0):
                    consumed.add(seq)
        return None

    def nontrivial(self, case, obs):
        return len(case["calls"]) > 1 or any(r != "reply" for r in case["script"])

    def signature(self, case, obs, why):
        import re
        return "proto:" + re.sub(r"\d+", "N", why)[:50]

    def shrink(self, case, still_fails):
        c = dict(case)
        sc = list(c["script"])
        changed = True
        while changed and sc:
            changed = False
            for i in range(len(sc)):
                cand = dict(c, script=sc[:i] + sc[i + 1:])
                if still_fails(cand):
                    sc = cand["script"]
                    changed = True
                    break
        c["script"] = sc
        return c
