"""C07: every command of every version -- the request as it reaches gateway.send_data() when called through the
public path (ProtocolHandler.command), and real __call__, vs the Coq codec."""
import asyncio

import ezsptypes as et
from framework import PropertyCheck


def enc_pval(p):
    if isinstance(p, (bytes, bytearray)):
        return [1, len(p)] + list(p)
    return [0, int(p)]


def enc_ivals(ivs):
    z = []
    for iv in ivs:
        if iv[0] == "P":
            z += [10] + enc_pval(iv[1])
        elif iv[0] == "NONE":
            z += [12]
        else:
            z += [11, len(iv[1])]
            for row in iv[1]:
                z += [len(row)]
                for p in row:
                    z += enc_pval(p)
    return z


def header_ref(v, seq, cid):
    """independent statement of the three header layouts (from the EZSP reference guide)"""
    if v == 4:
        return bytes([seq, 0x00, cid])
    if v < 8:
        return bytes([seq, 0x00, 0xFF, 0x00, cid])
    return bytes([seq, 0x00, 0x01, cid & 0xFF, cid >> 8])


class Check(PropertyCheck):
    pid = "C07"
    gen_files = ["GenCmd", "GenEzspFn"]
    model_imports = ["lib.EzspTypes", "gen.GenCmd", "model.EzspCodec", "model.EzspCases"]
    run_expr = "run_c07_case"
    case_type = "(N * string * N * list ival * list ival)"
    case_preamble = "Open Scope string_scope."
    shard = 250
    rule = ("all 11 protocol versions x every command of the version x value tuples (all-minimum incl. empty variable-length "
            "fields and absent optional fields, all-maximum incl. maximal length-prefixed fields, random incl. undefined enum values, each pair once more with the library's loggers at DEBUG); "
            "request: real _ezsp_frame bytes, positional and keyword form; response: raw wire values drawn from the flat layout "
            "(undefined enum / boolean values as an NCP could send them), encoded independently, fed through the real __call__; non-trivial = the command has at least one field; distinct by (version, command, values)")
    assumptions = ["zigpy's primitive serialisers are modelled (little-endian ints, LV bytes, lists) and compared on every case"]

    def setup(self):
        import stack
        self.stack = stack
        self.loop = stack.new_loop()
        self.ez = {}

    def teardown(self):
        self.loop.close()

    def build_cases(self, tier, rng):
        import bellows.ezsp as E
        cases = []
        modes = ["lo", "hi", "rand"] if tier == "quick" else ["lo", "hi"] + ["rand"] * 10
        for v in sorted(E.EZSP._BY_VERSION):
            for name in E.EZSP._BY_VERSION[v].COMMANDS:
                for m in modes:
                    cases.append({"v": v, "name": name, "mode": m, "seed": rng.randrange(1 << 30), "seq": rng.randrange(256)})
                # the codec is the same whatever the process's logging configuration: once more with the library's loggers at
                # DEBUG (what a user enables to report a problem)
                cases.append({"v": v, "name": name, "mode": "rand", "seed": rng.randrange(1 << 30), "seq": rng.randrange(256),
                              "log": "debug"})
        return cases

    def _values(self, schema, rng, mode):
        if isinstance(schema, dict):
            return [et.gen_value(ty, rng, mode) for ty in schema.values()]
        return et.gen_value(schema, rng, mode)

    def run_impl(self, case):
        import logging
        if case.get("log") != "debug":
            return self._run_impl(case)
        lg = logging.getLogger("bellows")
        saved, saved_disable = lg.level, logging.root.manager.disable
        lg.setLevel(logging.DEBUG)
        logging.disable(logging.NOTSET)          # the harness runs with logging switched off; nothing is printed (no handler)
        try:
            return self._run_impl(case)
        finally:
            lg.setLevel(saved)
            logging.disable(saved_disable)

    def _run_impl(self, case):
        import random
        import bellows.types as t
        v, name = case["v"], case["name"]
        if v not in self.ez:
            self.ez[v] = self.stack.make_ezsp(v)
        proto = self.ez[v]._protocol
        cid, tx, rx = proto.COMMANDS[name]
        rng = random.Random(case["seed"])
        out = {}
        try:
            txv = self._values(tx, rng, case["mode"])
            case["_txflat"] = et.flat_schema_values(tx, txv)
            # the argument bytes, taken BEFORE the values are handed to the library (a call must not alter its arguments)
            parts_before = (b"".join(ty(x).serialize() for ty, x in zip(tx.values(), txv)) if isinstance(tx, dict)
                            else txv.serialize())
            # the response: RAW wire values drawn from the flat layout alone (no library type constructed, so
            # undefined enum / boolean values reach the decoder as an NCP could send them), encoded by an
            # independent encoder
            rx_items = et.items_of_schema(rx)
            rawv = et.gen_flat(rx_items, rng, case["mode"])
            case["_rxflat"] = rawv
            proto._seq = case["seq"]
            sent = []

            class Gw:
                async def send_data(self, data):
                    sent.append(bytes(data))

            proto._gw = Gw()

            def public_call(args, kwargs):
                """the request as it reaches gateway.send_data() when the command is called through the public
                path (handler.<name>(...) == ProtocolHandler.command); the pending call is then abandoned"""
                del sent[:]
                proto._seq = case["seq"]
                task = self.loop.create_task(getattr(proto, name)(*args, **kwargs))
                for _ in range(6):
                    self.loop.run_until_complete(asyncio.sleep(0))
                    if sent or task.done():
                        break
                if task.done() and task.exception() is not None:
                    raise task.exception()
                task.cancel()
                self.loop.run_until_complete(asyncio.sleep(0))
                proto._awaiting.pop(case["seq"], None)
                if len(sent) != 1:
                    raise AssertionError(f"{len(sent)} frames handed to the gateway")
                return sent[0]

            if isinstance(tx, dict):
                b_pos = public_call(txv, {})
                keys = list(tx.keys())
                k = rng.randrange(0, len(keys) + 1)
                kw = dict(list(zip(keys, txv))[k:])
                kw = dict(sorted(kw.items(), key=lambda _: rng.random()))
                b_kw = public_call(txv[:k], kw)
                b_allkw = public_call([], dict(zip(keys, txv)))
                if b_allkw != b_kw:
                    b_kw = b_allkw if b_allkw != b_pos else b_kw
                parts = b"".join(ty(x).serialize() for ty, x in zip(tx.values(), txv))
                # the same values carried by EZSP integer types of ANOTHER width (a caller passing t.uint8_t(5) where the
                # version declares a 16-bit field): the declared type decides what goes on the wire
                import enum

                def retype(ty, x):
                    if et.kind(ty) != "int" or issubclass(ty, enum.Enum) or not isinstance(x, int) or isinstance(x, bool) or int(x) < 0:
                        return x
                    for alt in (t.uint8_t, t.uint16_t, t.uint32_t, t.uint64_t):
                        if alt._size != getattr(ty, "_size", None) and int(x) < (1 << (8 * alt._size)):
                            return alt(int(x))
                    return x
                b_alt = public_call([retype(ty, x) for ty, x in zip(tx.values(), txv)], {})
                if b_alt != b_pos:
                    b_kw = b_alt            # reported through the "forms differ" clause below
                    out["alt_differs"] = True
            else:
                b_pos = b_kw = public_call([], txv.as_dict())
                parts = txv.serialize()
            proto._seq = case["seq"]
            out["tx"] = bytes(b_pos).hex()
            out["tx_kw_same"] = bytes(b_pos) == bytes(b_kw)
            out["tx_parts_ok"] = bytes(b_pos)[len(header_ref(v, case["seq"], cid)):] == parts == parts_before
            # the response as the NCP would send it (real serialisers), through the real receive path
            payload = et.flat_encode(rx_items, rawv)
            frame = header_ref(v, case["seq"], cid) + payload
            out["rx"] = frame.hex()
            if name == "invalidCommand" or name.endswith("Handler"):
                # callbacks (and invalidCommand, which fails a pending call by design) go to the callback path
                box = []
                saved = proto._handle_callback
                proto._handle_callback = lambda n, r: box.append((n, r))
                proto._awaiting.pop(case["seq"], None)
                try:
                    proto(frame)
                finally:
                    proto._handle_callback = saved
                if len(box) != 1 or box[0][0] != name:
                    raise AssertionError(f"callback not delivered exactly once: {box!r}")
                res = box[0][1]
            else:
                fut = self.loop.create_future()
                proto._awaiting[case["seq"]] = (cid, rx, fut)
                proto(frame)
                res = fut.result()
            got = list(res) if isinstance(rx, dict) else res
            gotflat = et.flat_schema_values(rx, got)
            out["rx_equal"] = (enc_ivals(gotflat) == enc_ivals(rawv))
            # the decoded values serialise back to the bytes received
            back = t.serialize_dict(got, {}, rx) if isinstance(rx, dict) else got.serialize()
            out["rx_back"] = (bytes(back) == payload)
            out["rx_flat"] = enc_ivals(gotflat)
            out["rx_n"] = len(gotflat)
        except BaseException as e:  # noqa
            out["crash"] = repr(e)
        return out

    def describe(self, case):
        return {k: v for k, v in case.items() if not k.startswith("_")}

    def model_input(self, case):
        return (f"({case['v']}, \"{case['name']}\", {case['seq']}, {et.coq_ivals(case.get('_txflat', []))}, "
                f"{et.coq_ivals(case.get('_rxflat', []))})")

    def obs_to_z(self, case, obs):
        if "crash" in obs:
            return [-99]
        import bellows.ezsp as E
        tx = bytes.fromhex(obs["tx"])
        rx = bytes.fromhex(obs["rx"])
        cid = E.EZSP._BY_VERSION[case["v"]].COMMANDS[case["name"]][0]
        return [len(tx)] + list(tx) + [len(rx)] + list(rx) + [case["seq"], cid, obs["rx_n"]] + obs["rx_flat"] + [0]

    def monitor(self, case, obs):
        import bellows.ezsp as E
        v, name = case["v"], case["name"]
        cmds = E.EZSP._BY_VERSION[v].COMMANDS
        cid = cmds[name][0]
        same = [n for n, c in cmds.items() if c[0] == cid]
        if len(same) != 1:
            return f"frame id {cid:#06x} belongs to several commands in v{v}: {same}"
        if "crash" in obs:
            return f"v{v}.{name}: {obs['crash']}"
        hdr = header_ref(v, case["seq"], cid)
        if not bytes.fromhex(obs["tx"]).startswith(hdr):
            return f"v{v}.{name}: request header {obs['tx'][:10]} is not {hdr.hex()}"
        if not obs["tx_parts_ok"]:
            return f"v{v}.{name}: arguments are not serialised in declared order"
        if obs.get("alt_differs"):
            return (f"v{v}.{name}: the same argument values carried by EZSP integer types of another width are serialised with "
                    f"that width instead of the declared one")
        if not obs["tx_kw_same"]:
            return f"v{v}.{name}: positional and keyword forms differ"
        if not obs["rx_equal"]:
            return f"v{v}.{name}: decoding a response does not give the values on the wire back (frame {obs['rx']})"
        if not obs.get("rx_back", True):
            return f"v{v}.{name}: the decoded response does not serialise back to the bytes received (frame {obs['rx']})"
        return None

    def extra_checks(self, rep, tier, rng):
        import ezsptypes as et
        bad = et.unified_status_violations()
        rep.cov["unified_status_fields_checked"] = True
        if bad:
            v, name, side, field = bad[0]
            rep.violation({"input": {"version": v, "command": name, "schema": side, "field": field},
                           "observed": f"{len(bad)} field(s) of the v14+ tables still have a one-byte legacy status type: {bad[:6]}",
                           "required": "the schemas of a version describe that version's wire format: from EZSP v14 on every status field is the 32-bit unified status"}, found_input=True, signature="tables:legacy-status-in-v14")

        self._handler_independence(rep, rng)
        self._long_run(rep)

    def _long_run(self, rep):
        """one handler object per version issues 600 commands through the public path: every request carries the number of
        commands issued before it modulo 256 (the counter is never set by the harness here), in that version's layout"""
        import bellows.ezsp as E
        problems, n = [], 0
        for v in sorted(E.EZSP._BY_VERSION):
            ez = self.stack.make_ezsp(v)
            proto = ez._protocol
            sent = []

            class Gw:
                async def send_data(self, data):
                    sent.append(bytes(data))
            proto._gw = Gw()
            cid = proto.COMMANDS["nop"][0]
            for i in range(600):
                del sent[:]
                task = self.loop.create_task(proto.command("nop"))
                for _ in range(6):
                    self.loop.run_until_complete(asyncio.sleep(0))
                    if sent or task.done():
                        break
                err = task.exception() if task.done() and not task.cancelled() else None
                if not task.done():
                    task.cancel()
                    self.loop.run_until_complete(asyncio.sleep(0))
                n += 1
                want = header_ref(v, i % 256, cid)
                if err is not None or len(sent) != 1 or sent[0] != want:
                    problems.append(f"v{v}: command #{i} on one handler: " + (f"raised {err!r}" if err is not None else
                                    f"request {sent[0].hex() if sent else None}, expected {want.hex()} (sequence number {i % 256})"))
                    break
        rep.cov["long_run_commands"] = n
        if problems:
            rep.violation({"input": "600 commands issued one after the other through one handler object, per protocol version",
                           "observed": problems[:6], "required": "a command call emits its sequence number (commands issued so far modulo 256), that version's frame-control bytes and its frame id"},
                          found_input=True, signature="codec:long-run")

    def _handler_independence(self, rep, rng):
        """the receive-path round trip holds for the handler in use whatever EARLIER handler objects (replaced at a reset or a
        version switch) were left with: commands abandoned there under the numbers 0..3 do not touch frames that reach the new
        handler under those numbers"""
        import bellows.ezsp as E
        problems, n = [], 0
        versions = sorted(E.EZSP._BY_VERSION)
        for v in versions:
            ov = rng.choice(versions)
            old = self.stack.make_ezsp(ov)._protocol
            tasks = [self.loop.create_task(old.command("getNodeId" if i % 2 else "nop")) for i in range(4)]
            for _ in range(6):
                self.loop.run_until_complete(asyncio.sleep(0))
            for tk in tasks:
                tk.cancel()
            self.loop.run_until_complete(asyncio.sleep(0))
            ez = self.stack.make_ezsp(v)
            proto = ez._protocol
            got = []
            ez.add_callback(lambda name, args: got.append((name, args)))
            names = [nm for nm in ("stackStatusHandler", "getEui64", "getNodeId", "networkState", "incomingMessageHandler")
                     if nm in proto.COMMANDS]
            for sq, name in enumerate(names[:4]):
                cid, tx, rx = proto.COMMANDS[name]
                items = et.items_of_schema(rx)
                rawv = et.gen_flat(items, rng, "rand")
                proto._seq = sq
                hdr = bytes(proto._ezsp_frame_tx(name))
                del got[:]
                n += 1
                try:
                    ez.frame_received(hdr + et.flat_encode(items, rawv))
                except BaseException as e:  # noqa
                    problems.append(f"v{v} (earlier handler v{ov}): a {name} frame under number {sq} raised {e!r} in the receive path")
                    continue
                if len(got) != 1 or got[0][0] != name:
                    problems.append(f"v{v} (earlier handler v{ov}): a {name} frame under number {sq} reached a handler with nothing "
                                    f"outstanding and yielded {[g[0] for g in got]} instead of its values")
        rep.cov["handler_independence_frames"] = n
        if problems:
            rep.violation({"input": "an earlier handler object abandons four commands (numbers 0..3); a new handler receives proper frames under those numbers",
                           "observed": problems[:6], "required": "feeding the encoding of a value tuple back through the receive path of the handler in use yields those values"},
                          found_input=True, signature="codec:handler-independence")

    def nontrivial(self, case, obs):
        return bool(case.get("_txflat") or case.get("_rxflat"))

    def signature(self, case, obs, why):
        return f"codec:v{case['v']}.{case['name']}"
