"""C17: event-completed operations -- real EZSP.formNetwork / leaveNetwork / startScan and
ControllerApplication._ensure_network_running on the virtual loop with a scripted command layer,
against the Coq model."""
import asyncio
import itertools

import vloop
from framework import PropertyCheck

KINDS = ["form", "leave", "bringup", "scan"]
UP, DOWN = 0x15, 0x16


class Driver:
    def __init__(self, version=8):
        import stack
        self.loop = vloop.VLoop()
        asyncio.set_event_loop(self.loop)

        async def mk():
            return stack.make_app(version)
        self.app = self.loop.run_until_complete(mk())
        self.ez = self.app._ezsp
        self.base_callbacks = len(self.ez._callbacks)
        self.monitors = []       # other users of EZSP's callback registry: [id, callback, alive, frames seen since registration]
        self.log = []
        self.steps = []
        self.mark = 0
        self.pending_cmd = None
        self.task = None
        self.kind = None
        drv = self

        async def command(name, *args, **kwargs):
            fut = drv.loop.create_future()
            drv.pending_cmd = (name, fut)
            drv.log.append(("cmd", name))
            return await fut
        self.ez._protocol.command = command

    def end(self):
        self.steps.append(self.log[self.mark:])
        self.mark = len(self.log)

    async def _run(self, kind):
        import bellows.types as t
        import zigpy.exceptions
        from bellows.exception import ControllerError, EzspError
        try:
            if kind == "form":
                await self.ez.formNetwork(t.EmberNetworkParameters())
                self.log.append(("done", kind, [0, 0]))
            elif kind == "leave":
                await self.ez.leaveNetwork()
                self.log.append(("done", kind, [0, 0]))
            elif kind == "bringup":
                await self.app._ensure_network_running()
                self.log.append(("done", kind, [0, 0]))
            else:
                res = await self.ez.startScan(t.EzspNetworkScanType.ENERGY_SCAN, 0x07FFF800, 2)
                self.log.append(("done", kind, [0, len(res)] + [int(r[0]) for r in res]))
        except asyncio.TimeoutError:
            self.log.append(("done", kind, [3]))
        except asyncio.CancelledError:
            self.log.append(("done", kind, [4]))
            raise
        except zigpy.exceptions.NetworkNotFormed:
            self.log.append(("done", kind, [2]))
        except (zigpy.exceptions.FormationFailure, EzspError, ControllerError):
            self.log.append(("done", kind, [1]))
        except Exception as e:  # noqa
            # _list_command raises a bare Exception for a refused command and for a failed completion
            self.log.append(("done", kind, [5 if getattr(self, "_scan_phase", "") == "event" else 1]))

    # ---- events -----------------------------------------------------------------------------------
    def start(self, kind):
        import bellows.types as t
        if self.task is not None and not self.task.done():
            self.end()
            return
        self.kind = kind
        self._scan_phase = "cmd"
        self.task = self.loop.create_task(self._run(kind))
        self.loop.settle()
        if kind == "bringup" and self.pending_cmd and self.pending_cmd[0] == "networkState":
            # the preliminary state query: not joined yet, so that the operation goes on
            name, fut = self.pending_cmd
            self.pending_cmd = None
            fut.set_result([t.EmberNetworkStatus.NO_NETWORK])
            self.loop.settle()
        self.end()

    def reply(self, code):
        """code 1 = accepted, 0 = refused, 2 = 'not joined' (bring-up only)"""
        import bellows.types as t
        if self.pending_cmd is None:
            self.end()
            return
        name, fut = self.pending_cmd
        self.pending_cmd = None
        st = t.EmberStatus.SUCCESS if code == 1 else t.EmberStatus.NOT_JOINED if code == 2 else t.EmberStatus.ERR_FATAL
        if self.ez.ezsp_version >= 14:
            st = t.sl_Status.OK if code == 1 else t.sl_Status.NOT_JOINED if code == 2 else t.sl_Status.FAIL
        if code == 1:
            self._scan_phase = "event"
        fut.set_result([st])
        self.loop.settle()
        self.end()

    def callbacks(self, frames):
        import bellows.types as t
        for f in frames:
            if f[0] == "status":
                self.ez.handle_callback("stackStatusHandler", [t.sl_Status(f[1]) if self.ez.ezsp_version >= 14 else _ember(f[1])])
            elif f[0] == "item":
                self.ez.handle_callback("energyScanResultHandler", [t.uint8_t(f[1]), t.int8s(-40)])
            else:
                self.ez.handle_callback("scanCompleteHandler",
                                        [t.uint8_t(0), (t.EmberStatus.SUCCESS if f[1] else t.EmberStatus.ERR_FATAL)
                                         if self.ez.ezsp_version < 14 else (t.sl_Status.OK if f[1] else t.sl_Status.FAIL)])
        self.loop.settle()
        self.end()

    def timeout(self):
        if self.loop.next_deadline() is not None:
            self.loop.tick()
        self.end()

    def churn(self):
        """another component uses the callback registry while an operation may be in progress: the oldest of its
        callbacks is removed (if any) and a new one registered"""
        alive = [m for m in self.monitors if m[2]]
        if alive:
            self.ez.remove_callback(alive[0][0])
            alive[0][2] = False
        seen = []

        def cb(name, args, _seen=seen):
            _seen.append(name)
        self.monitors.append([self.ez.add_callback(cb), cb, True, seen])
        self.end()

    def monitors_ok(self, probe=True):
        """every monitor that is still registered is still reachable under its id and still gets frames"""
        import bellows.types as t
        problems = []
        alive = [m for m in self.monitors if m[2]]
        for m in alive:
            if self.ez._callbacks.get(m[0]) is not m[1]:
                problems.append("a callback registered by another component is no longer registered under its id")
        if probe and alive and not problems:
            before = [len(m[3]) for m in alive]
            self.ez.handle_callback("childJoinHandler", [t.uint8_t(0), t.Bool.true, t.EmberNodeId(1), t.EUI64.convert("00:11:22:33:44:55:66:77"), t.EmberNodeType.END_DEVICE])
            for m, b in zip(alive, before):
                if len(m[3]) != b + 1:
                    problems.append("a callback registered by another component no longer receives frames")
        return problems

    def cancel(self):
        if self.task is not None and not self.task.done():
            self.task.cancel()
            self.loop.settle()
            self.pending_cmd = None
        self.end()

    def residue(self):
        alive = sum(1 for m in self.monitors if m[2])
        return [sum(len(v) for v in self.ez._stack_status_listeners.values()), len(self.ez._callbacks) - self.base_callbacks - alive]

    def close(self):
        if self.task is not None and not self.task.done():
            self.task.cancel()
            try:
                self.loop.settle()
            except Exception:
                pass
        self.loop.close()


def _ember(unified):
    import bellows.types as t
    return {UP: t.EmberStatus.NETWORK_UP, DOWN: t.EmberStatus.NETWORK_DOWN, 0x17: t.EmberStatus.NETWORK_OPENED,
            0x18: t.EmberStatus.NETWORK_CLOSED}.get(unified, t.EmberStatus.NETWORK_BUSY)


def run_events(events):
    ver = [e[1] for e in events if e[0] == "v"]
    d = Driver(ver[0]) if ver else Driver()
    try:
        for e in events:
            if e[0] == "v":
                continue
            if e[0] == "start":
                d.start(e[1])
            elif e[0] == "reply":
                d.reply(e[1])
            elif e[0] == "cbs":
                d.callbacks(e[1])
            elif e[0] == "timeout":
                d.timeout()
            elif e[0] == "cancel":
                d.cancel()
            elif e[0] == "churn":
                d.churn()
        out = {"steps": [[list(x) for x in st] for st in d.steps], "residue": d.residue()}
        if d.monitors:
            out["monitor_problems"] = d.monitors_ok()
        return out
    except BaseException as e:  # noqa
        import traceback
        return {"crash": repr(e) + traceback.format_exc()[-600:]}
    finally:
        d.close()


# status frames use unified codes in the model; 0x17/0x18 are non-matching statuses
FRAMES = [("status", UP), ("status", DOWN), ("status", 0x17), ("item", 11), ("item", 12), ("complete", 1), ("complete", 0)]


class Check(PropertyCheck):
    pid = "C17"
    gen_files = ["GenStatus", "GenEventsFn"]
    model_imports = ["model.Events"]
    run_expr = "run_events_case"
    case_type = "(list (N * N * list (N * Z)))"
    shard = 400
    rule = ("for each operation {form, leave, bring-up, scan}: all orders (up to a length bound) of {command response accepted / refused / "
            "not-joined, matching status event, non-matching status events, result callbacks, completion callback ok / failed, timeout "
            "expiry, caller cancellation}, other components registering / removing callbacks around and during the operation, callbacks delivered singly and back to back, events before the operation is started; then "
            "repeated operations of random kinds; non-trivial = the operation is started and at least one event follows; distinct by history")
    assumptions = ["operations are sequential (the property speaks of repeated operations); two concurrent waiters on one status are outside",
                   "status callbacks are injected at EZSP.handle_callback (decoding is C07/C08's subject)"]

    def build_cases(self, tier, rng):
        cases = []
        atoms = [("reply", 1), ("reply", 0), ("reply", 2), ("timeout",), ("cancel",)] + [("cbs", [f]) for f in FRAMES]
        depth = 3 if tier == "quick" else 4
        for k in KINDS:
            rel = [a for a in atoms if not (a[0] == "cbs" and a[1][0][0] in ("item", "complete") and k != "scan")
                   and not (a == ("reply", 2) and k != "bringup")]
            for n in range(0, depth + 1):
                for seq in itertools.product(rel, repeat=n):
                    if tier == "quick" and n == depth and rng.random() < 0.6:
                        continue
                    # one event before the start (must be ignored), then the operation
                    pre = [rng.choice(rel)] if rng.random() < 0.3 and n < depth else []
                    cases.append(pre + [("start", k)] + list(seq))
        # the same short histories on the other protocol generations (the stack status arrives as a legacy status up to
        # version 13 and as a unified one from 14 on)
        for ver in ((4, 13, 14) if tier == "quick" else (4, 5, 7, 9, 12, 13, 14)):
            for k in KINDS:
                rel = [a for a in atoms if not (a[0] == "cbs" and a[1][0][0] in ("item", "complete") and k != "scan")
                       and not (a == ("reply", 2) and k != "bringup")]
                for n in range(0, 3):
                    for seq in itertools.product(rel, repeat=n):
                        cases.append([("v", ver), ("start", k)] + list(seq))
        # a scan whose result callbacks repeat (same channel, same reading): every one of them is returned, in order
        for pre in ([], [("cbs", [("item", 11)])]):
            for items in ([11, 11], [11, 12, 12, 11], [12, 11, 12, 12, 12]):
                cases.append(pre + [("start", "scan"), ("reply", 1)] + [("cbs", [("item", i)]) for i in items] + [("cbs", [("complete", 1)])])
                cases.append(pre + [("start", "scan"), ("cbs", [("item", items[0])]), ("reply", 1), ("cbs", [("item", i) for i in items] + [("complete", 1)])])
        # back-to-back callbacks
        for k in KINDS:
            for _ in range(40 if tier == "quick" else 400):
                batch = [rng.choice(FRAMES) for _ in range(rng.randrange(2, 5))]
                evs = [("start", k)]
                if rng.random() < 0.5:
                    evs.append(("cbs", batch))
                    evs.append(("reply", 1))
                else:
                    evs.append(("reply", 1))
                    evs.append(("cbs", batch))
                evs.append(("cbs", [rng.choice(FRAMES)]))
                evs.append(("timeout",))
                cases.append(evs)
        # other components using the callback registry while an operation is in flight (registered before it, removed and
        # re-registered during it): the operation still completes / cleans up, and they keep receiving frames
        for k in KINDS:
            tails = [[("cbs", [("item", 11)]), ("cbs", [("item", 12), ("complete", 1)])], [("cbs", [("status", UP)]), ("cbs", [("status", DOWN)])],
                     [("cancel",)], [("timeout",)]]
            for tail in tails:
                for pos in range(0, 4):
                    evs = [("churn",), ("churn",), ("start", k), ("reply", 1)] + tail
                    evs.insert(2 + pos, ("churn",))
                    cases.append(evs + [("churn",), ("start", k), ("reply", 1)] + tail)
        # repeated operations
        for _ in range(150 if tier == "quick" else 2000):
            evs = []
            for _ in range(rng.randrange(2, 6)):
                k = rng.choice(KINDS)
                evs.append(("start", k))
                for _ in range(rng.randrange(0, 5)):
                    a = rng.choice(atoms)
                    evs.append(a)
                evs.append(rng.choice([("timeout",), ("cancel",), ("cbs", [("complete", 1)]), ("cbs", [("status", UP)])]))
                evs.append(("cancel",))
            cases.append(evs)
        return cases

    def run_impl(self, case):
        return run_events(case)

    def describe(self, case):
        return [list(e) if e[0] != "cbs" else ["cbs", [list(f) for f in e[1]]] for e in case]

    def model_input(self, case):
        out = []
        for e in case:
            if e[0] == "start":
                out.append(f"(0, {KINDS.index(e[1])}, [])")
            elif e[0] == "reply":
                out.append(f"(1, {e[1]}, [])")
            elif e[0] == "cbs":
                fr = []
                for f in e[1]:
                    if f[0] == "status":
                        fr.append(f"(0, {f[1]}%Z)")
                    elif f[0] == "item":
                        fr.append(f"(1, {f[1]}%Z)")
                    else:
                        fr.append(f"(2, {f[1]}%Z)")
                out.append("(2, 0, [" + "; ".join(fr) + "])")
            elif e[0] == "timeout":
                out.append("(3, 0, [])")
            elif e[0] in ("churn", "v"):
                continue          # not an event of the operation: the model does not see it
            else:
                out.append("(4, 0, [])")
        return "[" + "; ".join(out) + "]"

    def obs_to_z(self, case, obs):
        if "crash" in obs:
            return [-99]
        z = []
        for ev, st in zip([e for e in case if e[0] != "v"], obs["steps"]):
            if ev[0] == "churn":
                continue
            for e in st:
                if e[0] == "cmd":
                    name = e[1]
                    k = {"formNetwork": 0, "leaveNetwork": 1, "startScan": 3}.get(name)
                    if k is None:
                        if name in ("networkState",):
                            continue
                        k = 2          # bring-up: networkInit / networkInitExtended
                    z += [10, k]
                elif e[0] == "done":
                    z += [11, KINDS.index(e[1])] + e[2]
            z += [-1]
        return z + obs["residue"]

    def monitor(self, case, obs):
        """the property's clauses on the implementation's own trace"""
        if "crash" in obs:
            return f"raised {obs['crash']}"
        case = [e for e in case if e[0] != "v"]      # the protocol version marker is not an event
        active = None          # (kind, replied_ok, matching_event_seen, items, completed)
        for ev, st in zip(case, obs["steps"]):
            dones = [e for e in st if e[0] == "done"]
            if ev[0] == "start" and active is None and any(e[0] == "cmd" for e in st):
                active = {"k": ev[1], "reply": None, "event": False, "items": [], "complete": None}
            elif active is not None:
                k = active["k"]
                if ev[0] == "reply" and active["reply"] is None:
                    active["reply"] = ev[1]
                elif ev[0] == "cbs":
                    for f in ev[1]:
                        if f[0] == "status" and k != "scan" and f[1] == (DOWN if k == "leave" else UP):
                            active["event"] = True
                        elif f[0] == "item" and k == "scan":
                            active["items"].append(f[1])
                        elif f[0] == "complete" and k == "scan" and active["complete"] is None:
                            active["complete"] = f[1]
                            active["items_at_completion"] = list(active["items"])
            for d in dones:
                if active is None:
                    return f"an operation ended ({d}) although none was in progress"
                k, res = d[1], d[2]
                if res[0] == 0:
                    if active["reply"] != 1:
                        return f"{k} completed although its command was not accepted"
                    if k != "scan" and not active["event"]:
                        return f"{k} completed without the matching stack-status event after it was issued"
                    if k == "scan":
                        if active["complete"] != 1:
                            return "scan returned without a successful completion callback"
                        got = res[2:]
                        base = active["items_at_completion"]
                        if got[:len(base)] != base or any(x not in active["items"] for x in got):
                            return f"scan returned {got}, results between start and completion were {base}"
                elif res[0] == 3 and active["event"] and active["reply"] == 1:
                    return f"{k} timed out although the matching event arrived after the command was issued"
                active = None
            if active is not None and not dones and active["k"] != "scan" and active["reply"] == 1 and active["event"] \
                    and ev[0] in ("reply", "cbs"):
                # both halves are there (the command was accepted, the matching event arrived after it was issued): the
                # operation completes in the step that brings the second half
                return (f"{active['k']}: the command was accepted and the matching stack-status event has arrived, but the "
                        f"operation did not complete")
            if ev[0] in ("timeout",) and active is not None and active["reply"] == 1 and not active["event"] \
                    and active["k"] != "scan" and not dones:
                return f"{active['k']}: the operation timeout expired but the operation did not raise"
        if obs.get("monitor_problems"):
            return f"after the operations: {obs['monitor_problems'][0]}"
        if obs["residue"] != [0, 0] and active is None:
            return f"listeners/callbacks left registered after the operations ended: {obs['residue']}"
        return None

    def extra_checks(self, rep, tier, rng):
        """the operation timeout is the one the caller asked for: leaveNetwork(timeout=T) with the command accepted and no
        matching event raises at T (virtual time), for T below and above the default"""
        import asyncio
        import bellows.ezsp as E
        n = 0
        for T in (0.5, 3.0, 10.0, 25.0):
            d = Driver()
            try:
                res = {}

                async def go():
                    t0 = d.loop.time()
                    try:
                        await d.ez.leaveNetwork(timeout=T)
                        res["end"] = "returned"
                    except asyncio.TimeoutError:
                        res["end"] = "timeout"
                    except BaseException as e:  # noqa
                        res["end"] = "raise:" + type(e).__name__
                    res["after"] = round(d.loop.time() - t0, 6)
                task = d.loop.create_task(go())
                d.loop.settle()
                d.reply(1)                       # the command is accepted; the stack-status event never arrives
                guard = 0
                while not task.done() and guard < 10:
                    guard += 1
                    d.loop.tick()
                n += 1
                if res.get("end") != "timeout" or abs(res.get("after", -1) - T) > 1e-6:
                    rep.violation({"input": {"operation": "leaveNetwork", "timeout": T, "command": "accepted", "event": "never"},
                                   "observed": res, "required": f"raises a timeout when the operation timeout of {T} s has passed "
                                                                f"(default {E.NETWORK_OPS_TIMEOUT} s)"},
                                  found_input=True, signature="events:operation-timeout-argument")
                    break
            finally:
                d.close()
        rep.cov["operation_timeout_arguments"] = n
        # the same operation twice in a row from one coroutine, no loop iteration in between; the first one's response and
        # matching event are handled in ONE iteration (one serial read), response first: the second still observes its event
        import bellows.types as t
        nb2b = 0
        for kind in ("leave", "form"):
            d = Driver()
            res = {}
            try:
                st_ok = t.EmberStatus.SUCCESS
                ev = t.EmberStatus.NETWORK_DOWN if kind == "leave" else t.EmberStatus.NETWORK_UP

                async def once():
                    if kind == "leave":
                        await d.ez.leaveNetwork()
                    else:
                        await d.ez.formNetwork(t.EmberNetworkParameters())

                async def go():
                    try:
                        await once()
                        res["first"] = "ok"
                        await once()
                        res["second"] = "ok"
                    except asyncio.TimeoutError:
                        res.setdefault("first", "-")
                        res["second" if res.get("first") == "ok" else "first"] = "timeout"
                    except BaseException as e:  # noqa
                        res["error"] = type(e).__name__
                task = d.loop.create_task(go())
                d.loop.settle()
                name, fut = d.pending_cmd
                d.pending_cmd = None
                fut.set_result([st_ok])                                   # the response ...
                d.ez.handle_callback("stackStatusHandler", [ev])          # ... and the event, same loop iteration
                d.loop.settle()
                if d.pending_cmd is not None:
                    name, fut = d.pending_cmd
                    d.pending_cmd = None
                    fut.set_result([st_ok])
                    d.loop.settle()
                    d.ez.handle_callback("stackStatusHandler", [ev])
                    d.loop.settle()
                guard = 0
                while not task.done() and guard < 10:
                    guard += 1
                    d.loop.tick()
                nb2b += 1
                if res != {"first": "ok", "second": "ok"}:
                    rep.violation({"input": {"operation": kind, "twice": "back to back from one coroutine",
                                             "first": "response and matching event handled in one loop iteration",
                                             "second": "response, then the matching event"},
                                   "observed": res, "required": "each operation observes the matching event that arrives after its "
                                                                "command was issued"}, found_input=True, signature="events:back-to-back")
                    break
            except BaseException as e:  # noqa
                rep.violation({"input": {"operation": kind}, "observed": repr(e), "required": "scenario runs"}, found_input=True,
                              signature="events:back-to-back")
                break
            finally:
                d.close()
        rep.cov["back_to_back_operations"] = nb2b
        # non-matching status events: EVERY status of the family the running version reports its stack status in (legacy
        # stack statuses up to v13, unified ones from v14 on) other than the awaited one leaves the operation pending, whether it
        # arrives before or after the command's response; the awaited one then completes it
        nnm = 0
        bad = None
        for version in ((8, 14) if tier == "quick" else (4, 7, 8, 13, 14)):
            fam = t.sl_Status if version >= 14 else t.EmberStatus
            for kind, awaited in (("leave", "NETWORK_DOWN"), ("form", "NETWORK_UP")):
                for before in (False, True):
                    d = Driver(version)
                    try:
                        for m in list(fam):
                            if m.name == awaited or bad:
                                continue
                            res = {}

                            async def go(_res=res):
                                try:
                                    if kind == "leave":
                                        await d.ez.leaveNetwork()
                                    else:
                                        await d.ez.formNetwork(t.EmberNetworkParameters())
                                    _res["end"] = "returned"
                                except BaseException as e:  # noqa
                                    _res["end"] = "raise:" + type(e).__name__
                            task = d.loop.create_task(go())
                            d.loop.settle()
                            name, fut = d.pending_cmd
                            d.pending_cmd = None
                            if before:
                                d.ez.handle_callback("stackStatusHandler", [m])
                                d.loop.settle()
                            fut.set_result([fam(0)])
                            d.loop.settle()
                            if not before:
                                d.ez.handle_callback("stackStatusHandler", [m])
                                d.loop.settle()
                            nnm += 1
                            if task.done():
                                bad = {"input": {"version": version, "operation": kind, "command": "accepted",
                                                 "event": f"{m!r} {'before' if before else 'after'} the response"},
                                       "observed": res, "required": f"the operation completes only on the matching event ({awaited}); "
                                                                    f"any other status of the family leaves it pending"}
                                continue
                            d.ez.handle_callback("stackStatusHandler", [fam[awaited]])
                            d.loop.settle()
                            if res.get("end") != "returned":
                                bad = {"input": {"version": version, "operation": kind, "command": "accepted",
                                                 "events": [repr(m), awaited]},
                                       "observed": res, "required": "the matching event that arrives after the command was issued completes the operation"}
                    except BaseException as e:  # noqa
                        bad = {"input": {"version": version, "operation": kind}, "observed": repr(e), "required": "scenario runs"}
                    finally:
                        d.close()
        rep.cov["non_matching_status_events"] = nnm
        if bad:
            rep.violation(bad, found_input=True, signature="events:non-matching-status")

    def nontrivial(self, case, obs):
        return any(e[0] == "start" for e in case) and len(case) > 1

    def signature(self, case, obs, why):
        return "events:" + why[:60]

    def shrink(self, case, still_fails):
        evs = list(case)
        changed = True
        while changed and len(evs) > 1:
            changed = False
            for i in range(len(evs)):
                cand = evs[:i] + evs[i + 1:]
                if still_fails(cand):
                    evs, changed = cand, True
                    break
        return evs
