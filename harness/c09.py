"""C09: bring-up and version negotiation -- full stack (real ASH, Gateway, EZSP) on a simulated line and NCP,
against the Coq negotiation model; link faults explored with the property predicate only."""
import asyncio

import fullstack
from framework import PropertyCheck

SUPPORTED = list(range(4, 15))
LATEST = 14


def layout_of(handler):
    return 4 if handler == 4 else 5 if handler < 8 else 8


def run_bringup(ncp_v, path_kind="serial", second_reset=False, fault=None):
    """fault: None or (direction 'h2n'|'n2h', index of the frame on that direction, 'drop'|'corrupt'|'dup')"""
    path = "/dev/ttyFAKE" if path_kind == "serial" else "socket://sim:1234"
    late = path_kind == "socket-late"
    s = fullstack.Stack(ncp_version=ncp_v, path=path, ncp_up=(path_kind != "socket-late"), ncp_timer=True)
    raw_seen = []
    orig_ezsp = s.ncp.ezsp

    def spy(data):
        raw_seen.append(bytes(data))
        return orig_ezsp(data)
    s.ncp.ezsp = spy
    counters = {"h2n": 0, "n2h": 0}
    out = {"phases": []}
    if fault is not None:
        d, idx, kind = fault

        def h2n(data):
            if counters.get("deaf"):
                return None          # the NCP is restarting: it hears nothing
            if d == "rst":
                # a DATA frame of the OLD session (a callback that was in flight) reaches the host after it has written its
                # k-th RST and before the RSTACK: frame number 0, or the number the host expected next in the old session
                if bytes(data).lstrip(b"\x1a").startswith(b"\xc0"):
                    k = counters["rst"] = counters.get("rst", 0) + 1
                    if k - 1 == idx and kind == "poweron":
                        # the NCP had just restarted by itself (power-on / watchdog): its spontaneous RSTACK, carrying that cause,
                        # reaches the host after the host has written its RST and before the RSTACK that answers it
                        import ashref
                        out["fault_hit"] = "spontaneous RSTACK (power-on) between RST and RSTACK"
                        s.loop.call_soon(s.line._deliver, ashref.wire(("RSTACK", 2, 0x02)))
                        # ... and the NCP takes 40 ms to obey the RST, deaf meanwhile, before it answers with its RSTACK
                        counters["deaf"] = True

                        def obeyed(_data=data):
                            counters["deaf"] = False
                            s.ncp.feed(_data)
                            s.line.flush()
                        s.loop.call_later(0.04, obeyed)
                        return None
                    elif k - 1 == idx and kind == "duprstack":
                        # the line duplicates the RSTACK that answers this RST
                        out["fault_hit"] = "the RSTACK answering this RST duplicated by the line"
                        counters["dup_next_rstack"] = True
                    elif k - 1 == idx and kind == "busy":
                        # another task of the application (the watchdog, a queued request) issues a command while the reset
                        # handshake is in progress -- the NCP takes 50 ms to obey the RST, deaf meanwhile
                        out["fault_hit"] = "a command issued by another task between RST and RSTACK"
                        counters["deaf"] = True

                        def obeyed2(_data=data):
                            counters["deaf"] = False
                            s.ncp.feed(_data)
                            s.line.flush()

                        async def other():
                            try:
                                await s.ez.nop()
                                out["other_task"] = "answered"
                            except BaseException as e:  # noqa
                                out["other_task"] = type(e).__name__ + ": " + str(e)[:60]
                        s.loop.call_later(0.05, obeyed2)
                        s.loop.call_later(0.01, lambda: s.spawn(other()))
                        return None
                    elif k - 1 == idx:
                        import ashref
                        frm = 0 if kind == "stale0" else s.ash._rx_seq
                        out["fault_hit"] = f"old-session DATA({frm}) between RST and RSTACK"
                        lay = layout_of(s.ez._protocol.VERSION)
                        cb = {4: bytes([0x33, 0x90, 0x19, 0x90]), 5: bytes([0x33, 0x90, 0xFF, 0x00, 0x19, 0x90]),
                              8: bytes([0x33, 0x90, 0x01, 0x19, 0x00, 0x90])}[lay]
                        s.loop.call_soon(s.line._deliver, ashref.wire(("DATA", frm, 0, s.ash._tx_seq, cb)))
                return data
            i = counters["h2n"]
            counters["h2n"] += 1
            if d == "h2n" and kind.startswith("drop") and kind != "drop":
                # the same DATA frame lost k times in a row (the frame and its next k-1 retransmissions): ASH transmits a
                # frame up to five times, so up to four consecutive losses are repaired
                b0 = bytes(data).lstrip(b"\x1a")[:1]
                is_data = bool(b0) and b0[0] < 0x80
                if i == idx:
                    out["fault_hit"] = "RST" if b0 == b"\xc0" else "other"
                    if is_data:
                        counters["multi"] = int(kind[4:]) - 1
                        counters["multi_frm"] = b0[0] & 0x70
                        out["fault_hit"] = f"DATA frame lost {kind[4:]} times in a row"
                    return None
                if counters.get("multi", 0) > 0 and is_data and (b0[0] & 0x70) == counters["multi_frm"]:
                    counters["multi"] -= 1
                    return None
                return data
            if d == "h2n" and i == idx:
                out["fault_hit"] = "RST" if bytes(data).lstrip(b"\x1a").startswith(b"\xc0") else "other"
                out["fault_phase"] = len(out["phases"])
                if kind == "drop":
                    return None
                if kind == "corrupt":
                    b = bytearray(data)
                    b[len(b) // 2] ^= 0x04
                    return bytes(b)
                if kind == "dup":
                    return data + data
            return data

        def n2h(fr):
            i = counters["n2h"]
            counters["n2h"] += 1
            if counters.get("dup_next_rstack") and bytes(fr)[:1] == b"\xc1":
                counters["dup_next_rstack"] = False
                return [fr, fr]
            if d == "n2h" and i == idx:
                out["fault_hit"] = "RSTACK" if bytes(fr)[:1] == b"\xc1" else "other"
                out["fault_phase"] = len(out["phases"])
                if kind == "drop":
                    return []
                if kind == "corrupt":
                    b = bytearray(fr)
                    b[len(b) // 2] ^= 0x04
                    return [bytes(b)]
                if kind == "dup":
                    return [fr, fr]
            return [fr]
        s.line.fault_h2n = h2n
        s.line.fault_n2h = n2h
    async def bring(tag):
        ph = {"tag": tag}
        mark = len(raw_seen)
        wmark = len(s.serial.written)
        try:
            if tag == "first":
                await s.ez.startup_reset()
            elif second_reset in ("app", "app-quiet"):
                # what ControllerApplication._reset() does; on a socket path on which the start-up reset is seen the NCP
                # (zigbeed) restarts by itself during the start-up wait of this second round too
                import types
                import bellows.zigbee.application as A
                from bellows.config import CONF_EZSP_CONFIG
                if path_kind == "socket-seen" and second_reset == "app":
                    s.loop.call_later(0.3, lambda: (s.ncp.reset(0x0B), s.line.flush()))
                # the library's own later reset: ControllerApplication._reset(self) on an object that holds this EZSP
                await A.ControllerApplication._reset(types.SimpleNamespace(_ezsp=s.ez, config={CONF_EZSP_CONFIG: {}}))
            else:
                await s.ez.reset()
                await s.ez.version()
            ph["done"] = "ok"
        except asyncio.TimeoutError:
            ph["done"] = "timeout"
        except BaseException as e:  # noqa
            ph["done"] = "raise:" + type(e).__name__
        ph["version_frames"] = [f.hex() for f in raw_seen[mark:] if _fid(f) == 0]
        ph["first_frame"] = raw_seen[mark].hex() if len(raw_seen) > mark else None
        ph["rst_written"] = any(w[1].startswith(b"\x1a\xc0\x38\xbc\x7e") for w in s.serial.written[wmark:])
        ph["ezsp_version"] = s.ez.ezsp_version
        ph["handler"] = s.ez._protocol.VERSION
        if ph["done"] == "ok":
            m2 = len(raw_seen)
            # commands the library itself issued in this phase after the negotiation (the later reset writes the
            # configuration): the sequence number of the next command is counted from there
            vidx = [i for i in range(mark, m2) if _fid(raw_seen[i]) == 0]
            ph["after_negotiation"] = m2 - (vidx[-1] + 1) if vidx else 0
            try:
                await s.ez.getConfigurationValue(configId=1)
                ph["later"] = raw_seen[m2].hex() if len(raw_seen) > m2 else None
            except BaseException as e:  # noqa
                ph["later"] = "raise:" + type(e).__name__
            try:
                await s.ez.write_config({})
                ph["config"] = "ok"
            except BaseException as e:  # noqa
                ph["config"] = "raise:" + repr(e)[:80]
        return ph

    async def main():
        if path_kind == "socket-seen":
            # zigbeed announces itself with a spontaneous RSTACK right after the connection is made
            s.loop.call_soon(lambda: (s.ncp.reset(0x0B), s.line.flush()))
        if late:
            s.loop.call_later(1.5, lambda: (setattr(s.ncp, "up", True), s.ncp.reset(0x0B), s.line.flush()))
        out["phases"].append(await bring("first"))
        # the application registers its handler on the EZSP object once the stack is up (start_network does): from now on
        # EZSP forwards failures to it
        if fault is not None and fault[2] == "duprstack":
            s.ez.add_callback(lambda name, args: out.setdefault("app_events", []).append(str(name)))
        if second_reset:
            out["phases"].append(await bring("second"))

    t = s.spawn(main())
    try:
        finished = s.run_until(t, limit=2000)
        out["finished"] = finished
        out["time"] = s.loop.time()
        if t.done() and t.exception() is not None:
            out["crash"] = repr(t.exception())
    except BaseException as e:  # noqa
        out["crash"] = repr(e)
    finally:
        s.close()
    return out


def _fid(f):
    if len(f) >= 5 and f[2] == 0xFF and f[3] == 0x00:
        return f[4]
    if len(f) >= 5 and f[2] == 0x01 and not (len(f) == 4):
        return f[3] | f[4] << 8
    return f[2] if len(f) >= 3 else None


class Check(PropertyCheck):
    pid = "C09"
    gen_files = ["GenCmd", "GenConfig", "GenBringupFn"]
    model_imports = ["lib.EzspTypes", "gen.GenCmd", "gen.GenConfig", "model.EzspCodec", "model.EzspCases", "model.Config", "model.Bringup"]
    run_expr = "run_bringup_case"
    case_type = "(N * N)"
    shard = 200
    rule = ("NCP versions 4..14 and unknown newer ones (15, 16, 200) x device path {serial, socket:// with the start-up reset seen, late, "
            "absent} x optional second reset: no-fault matrix compared with the model; each crossed with single link faults (drop / "
            "corrupt / duplicate the k-th frame in either direction during bring-up) judged by the property predicate: bring-up raises or "
            "completes in the negotiated state; non-trivial = version other than 4 or a fault; distinct by (version, path, faults)")
    assumptions = ["the simulated NCP (harness/fullstack.SimNcp) answers the legacy version query in the legacy layout and ignores "
                   "commands in a layout it has not negotiated; it is an assumption about firmware",
                   "link faults are not part of the Coq negotiation model (C01/C05 cover the link)"]

    def build_cases(self, tier, rng):
        cases = []
        versions = SUPPORTED + [15, 16, 200]
        for v in versions:
            for path in ("serial", "socket-seen", "socket-late", "socket-absent"):
                for second in (False, True):
                    cases.append({"v": v, "path": path, "second": second, "fault": None})
                # the later reset as the application performs it: stop_ezsp() + startup_reset() on the same EZSP object
                cases.append({"v": v, "path": path, "second": "app", "fault": None})
                # ... with an NCP that does NOT restart by itself this time: the host has to request the reset, whatever
                # happened to the start-up reset of the first round (seen, late, duplicated)
                cases.append({"v": v, "path": path, "second": "app-quiet", "fault": None})
                if path in ("socket-seen", "socket-late") and v in (4, 8, 13, 14, 15):
                    cases.append({"v": v, "path": path, "second": "app-quiet", "fault": ("n2h", 0, "dup")})
        # every single fault on the first frames of each direction (the reset handshake and the version exchange)
        for v in ((4, 13) if tier == "quick" else (4, 7, 8, 13, 14, 15)):
            for path in ("serial", "socket-seen", "socket-late", "socket-absent"):
                for d in ("h2n", "n2h"):
                    for idx in range(0, 4 if tier == "quick" else 8):
                        for kind in ("drop", "corrupt", "dup"):
                            cases.append({"v": v, "path": path, "second": False, "fault": (d, idx, kind)})
        # a frame of the old session arriving between the host's RST and the RSTACK, at the first and at the later reset
        for v in ((4, 8, 13) if tier == "quick" else versions):
            for path in ("serial", "socket-seen", "socket-absent"):
                for k in (0, 1):
                    for kind in ("stale0", "stalecur", "poweron", "duprstack") + (("busy",) if k == 1 else ()):
                        cases.append({"v": v, "path": path, "second": True, "fault": ("rst", k, kind)})
        # the reset handshake has no retry: a lost or damaged RST / RSTACK makes that bring-up time out.  The NEXT reset on the
        # same objects (a retry by the caller, the application's later reset) runs over a healthy line and must work
        for v in ((4, 8, 13) if tier == "quick" else versions):
            for path in ("serial", "socket-absent"):
                for d in ("h2n", "n2h"):
                    for kind in ("drop", "corrupt"):
                        for second in (True, "app-quiet"):
                            cases.append({"v": v, "path": path, "second": second, "fault": (d, 0, kind)})
        # the same frame lost two, three and four times in a row (the fifth transmission gets through)
        for v in ((4, 13) if tier == "quick" else (4, 7, 8, 13, 14, 15)):
            for path in (("serial", "socket-absent") if tier == "quick" else ("serial", "socket-seen", "socket-absent")):
                for idx in range(0, 5 if tier == "quick" else 8):
                    for k in (2, 3, 4):
                        cases.append({"v": v, "path": path, "second": idx % 2 == 1, "fault": ("h2n", idx, f"drop{k}")})
        nf = 200 if tier == "quick" else 2500
        for _ in range(nf):
            v = rng.choice(versions)
            d = rng.choice(["h2n", "n2h"])
            cases.append({"v": v, "path": rng.choice(["serial", "serial", "socket-seen", "socket-absent"]),
                          "second": rng.random() < 0.3,
                          "fault": (d, rng.randrange(0, 12), rng.choice(["drop", "corrupt", "dup"]))})
        return cases

    def run_impl(self, case):
        f = case["fault"]
        return run_bringup(case["v"], case["path"], case["second"], tuple(f) if f else None)

    def describe(self, case):
        return case

    # only the no-fault matrix is compared with the model
    def model_input(self, case):
        if case["fault"] is not None:
            return None
        return f"({case['v']}, {1 if case['second'] else 0})"

    def obs_to_z(self, case, obs):
        if case["fault"] is not None:
            return [-77]
        if "crash" in obs:
            return [-99]
        z = []
        ph = obs["phases"]
        for fr in ph[0]["version_frames"]:
            b = bytes.fromhex(fr)
            z += [len(b)] + list(b)
        z += [-2]
        if case["second"] and len(ph) > 1:
            for fr in ph[1]["version_frames"]:
                b = bytes.fromhex(fr)
                z += [len(b)] + list(b)
        last = ph[-1]
        z += [-3, last["ezsp_version"], last["handler"], 1 if last.get("config") == "ok" else 0]
        later = last.get("later")
        if later and not later.startswith("raise"):
            b = bytes.fromhex(later)
            n = 3 if layout_of(last["handler"]) == 4 else 5
            # sequence number of the first command after negotiation, then frame-control bytes and id
            z += [n, (b[0] - last.get("after_negotiation", 0)) % 256] + list(b[1:n])
        else:
            z += [-1]
        return z

    def extra_checks(self, rep, tier, rng):
        rep.cov["outcome_distribution"] = dict(getattr(self, "hist", {}))

    def monitor(self, case, obs):
        v = case["v"]
        import collections
        if not hasattr(self, "hist"):
            self.hist = collections.Counter()
        key = ("fault:" + "/".join(map(str, case["fault"][::2])) if case["fault"] else "nofault:" + case["path"])
        self.hist[key + " -> " + ",".join(p.get("done", "?") for p in obs.get("phases", []))] += 1
        if "crash" in obs:
            return f"bring-up harness/implementation crashed: {obs['crash']}"
        if not obs.get("finished"):
            return "bring-up neither completed nor raised (no timer left: hang)"
        want_handler = v if v in SUPPORTED else LATEST
        # a single lost / damaged / duplicated frame is repaired by ASH (NAK, retransmission, duplicate suppression) and
        # bring-up completes; only the reset handshake itself has no retry: a lost or damaged RST / RSTACK may time out
        recoverable = case["fault"] is not None and (case["fault"][2] == "dup" or obs.get("fault_hit") not in ("RST", "RSTACK"))
        if case["fault"] is not None and case["fault"][0] == "rst" and "fault_hit" not in obs:
            recoverable = False    # no such reset request in this scenario: nothing was injected
        for ph in obs["phases"]:
            if ph["done"] != "ok":
                if case["fault"] is None and case["path"] != "socket-late":
                    return f"bring-up of an NCP v{v} over a fault-free line failed: {ph['done']}"
                if recoverable:
                    return (f"bring-up of an NCP v{v} ({case['path']}) failed with {ph['done']} after a single {case['fault'][2]} fault "
                            f"on a {obs.get('fault_hit', 'no')} frame ({case['fault'][0]} #{case['fault'][1]})")
                if ph["tag"] == "second" and case["fault"] is not None and case["fault"][0] in ("h2n", "n2h") \
                        and case["fault"][2] in ("drop", "corrupt", "dup") and obs.get("fault_phase") == 0 \
                        and obs["phases"][0]["done"] == "timeout":
                    return (f"NCP v{v} ({case['path']}): the first reset handshake timed out (single {case['fault'][2]} fault on the "
                            f"{obs.get('fault_hit')} frame); the next reset on the same objects, over a healthy line, ended with "
                            f"{ph['done']} (RST written: {ph['rst_written']})")
                continue
            if recoverable and ((ph.get("later") or "").startswith("raise") or ph.get("config") != "ok"):
                return (f"NCP v{v} ({case['path']}): after a single {case['fault'][2]} fault the first command / the default configuration "
                        f"failed: later={ph.get('later')!r} config={ph.get('config')!r}")
            if ph["tag"] == "second" and "_reset_controller_application" in obs.get("app_events", []) and case["fault"] is not None \
                    and case["fault"][2] in ("duprstack", "dup"):
                return (f"NCP v{v} ({case['path']}): during the later reset the application was asked to restart the controller although "
                        f"the only fault was a duplicated frame ({obs.get('fault_hit')})")
            ff = ph.get("first_frame")
            if ph["tag"] == "second" and ff is not None and bytes.fromhex(ff)[1:] != bytes([0x00, 0x00, 0x04]):
                return (f"NCP v{v} ({case['path']}): after the later reset the first EZSP frame the NCP received is {ff}, not the "
                        f"legacy-format version query: framing did not fall back to the legacy format until negotiation was repeated"
                        f"{' (' + obs.get('fault_hit') + ')' if obs.get('fault_hit') else ''}")
            vf = [bytes.fromhex(x) for x in ph["version_frames"]]
            # duplicates on the line may make the NCP see a query twice: look at distinct consecutive frames
            dist = [f for i, f in enumerate(vf) if i == 0 or f != vf[i - 1]]
            if not dist or dist[0][1:] != bytes([0x00, 0x00, 0x04]):
                return f"first version query is not in the legacy format asking for v4: {[f.hex() for f in dist[:1]]}"
            if ph["ezsp_version"] != v:
                return f"NCP reports v{v} but ezsp_version is {ph['ezsp_version']}"
            if ph["handler"] != want_handler:
                return f"NCP v{v}: command tables of v{ph['handler']} adopted, expected v{want_handler}"
            if v != 4:
                if len(dist) < 2:
                    return f"NCP v{v}: no confirming second version query"
                lay = layout_of(want_handler)
                hdr = dist[1][1:5] if lay != 4 else dist[1][1:3]
                exp = bytes([0x00, 0xFF, 0x00, 0x00]) if lay == 5 else bytes([0x00, 0x01, 0x00, 0x00])
                if lay != 4 and (hdr != exp or dist[1][5:] != bytes([v & 0xFF])):
                    return f"NCP v{v}: second version query {dist[1].hex()} is not in the v{want_handler} layout asking for v{v}"
            elif len(dist) != 1:
                return "NCP v4: a second version query was sent"
            later = ph.get("later")
            if later is None or later.startswith("raise"):
                if case["fault"] is None:
                    return f"NCP v{v}: first command after negotiation failed: {later}"
            else:
                b = bytes.fromhex(later)
                lay = layout_of(want_handler)
                ok = (lay == 4 and b[1] == 0 and b[2] == 0x52) or (lay == 5 and b[1:5] == bytes([0, 0xFF, 0, 0x52])) \
                    or (lay == 8 and b[1:5] == bytes([0, 1, 0x52, 0]))
                if not ok:
                    return f"NCP v{v}: command after negotiation {b[:5].hex()} is not framed for v{want_handler}"
            cfg = ph.get("config")
            if cfg is not None and cfg != "ok" and not (case["fault"] is not None and "Timeout" in cfg):
                return f"NCP v{v}: writing the default configuration failed: {cfg}"
            if ph["tag"] == "second" and not ph["rst_written"] and (case["second"] == "app-quiet" or (
                    case["path"] in ("serial", "socket-absent") and case["fault"] is None)):
                return f"NCP v{v} ({case['path']}): the later reset wrote no RST frame"
            if case["path"] in ("serial", "socket-absent", "socket-late") and ph["tag"] == "first" and not ph["rst_written"]:
                return "no ASH reset request (RST) was written during bring-up"
        return None

    def nontrivial(self, case, obs):
        return case["v"] != 4 or case["fault"] is not None

    def signature(self, case, obs, why):
        import re
        return "bringup:" + re.sub(r"v\d+", "vN", why)[:60]
