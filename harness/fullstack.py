"""Full stack on a simulated serial line: real AshProtocol <-> real Gateway <-> real EZSP, virtual time,
and a specification-derived NCP simulator (ASH peer + EZSP responder) written independently of bellows'
ASH code (it uses harness/ashref.py).  Used by C09, C10 and C01."""
from __future__ import annotations

import asyncio

import ashref
import vloop


class FakeSerial:
    """asyncio transport stand-in: bytes the host writes go to the line; close() behaves like a
    real transport (connection_lost(None) on a later loop iteration)."""

    def __init__(self, loop, line):
        self.loop = loop
        self.line = line
        self.closing = False
        self.protocol = None
        self.written = []

    def write(self, data):
        if self.closing:
            return
        self.written.append((self.loop.time(), bytes(data)))
        self.line.host_wrote(bytes(data))

    def is_closing(self):
        return self.closing

    def close(self):
        if not self.closing:
            self.closing = True
            self.loop.call_soon(self._lost)

    def _lost(self):
        if self.protocol is not None:
            self.protocol.connection_lost(None)


class SimNcp:
    """Specification-conforming NCP: ASH receiver/sender with window 1 + EZSP responder."""

    def __init__(self, version: int, up=True):
        self.version = version
        self.up = up                    # not up: ignores everything (still booting)
        self.dec = ashref.RefDecoder()  # reused only for its framing (acc / discard)
        self.rx_expected = 0            # next frame number expected from the host
        self.tx_next = 0                # next frame number to send
        self.window = 1                 # transmit window (1..3)
        self.unacked = []               # [(frm, payload)] awaiting the host's ACK, oldest first
        self.queue = []                 # EZSP frames waiting to be sent
        self.out = []                   # wire bytes to deliver to the host (list of frames)
        self.fmt = 4                    # EZSP frame format in use: 4 legacy, 5 extended legacy, 8 new
        self.failed = False
        self.seen = []                  # decoded host frames (for assertions)
        self.ezsp_seen = []             # (format, seq, frame id, payload)
        self.responder = None           # optional override: f(fmt, seq, fid, payload) -> bytes | None
        self.mute_ezsp = False          # accept frames but never answer (silent NCP)

    # ---- wire in ------------------------------------------------------------------------------------
    def feed(self, data: bytes):
        if not self.up:
            return
        for b in data:
            if b == ashref.FLAG:
                raw = ashref.unstuff(bytes(self.dec.acc)) if self.dec.acc else None
                had = bool(self.dec.acc)
                self.dec.acc = bytearray()
                if self.dec.discard:
                    self.dec.discard = False
                    continue
                if not had:
                    continue
                fr = ashref.decode(raw) if raw else None
                if fr is None:
                    if not self.failed:
                        self.out.append(ashref.wire(("NAK", 0, 0, self.rx_expected)))
                    continue
                self.frame(fr)
            elif b == ashref.CANCEL:
                self.dec.acc = bytearray()
            elif b == ashref.SUB:
                self.dec.acc = bytearray()
                self.dec.discard = True
            elif b in (ashref.XON, ashref.XOFF):
                pass
            elif not self.dec.discard:
                self.dec.acc.append(b)

    def frame(self, fr):
        self.seen.append(fr)
        k = fr[0]
        if k == "RST":
            self.reset(0x0B)
            return
        if self.failed:
            return
        if k in ("ACK", "NAK", "DATA"):
            ack = fr[3]
            # cumulative acknowledgement: ackNum names the next frame the host expects
            nums = [u[0] for u in self.unacked]
            if ack in [(n + 1) % 8 for n in nums]:
                upto = [(n + 1) % 8 for n in nums].index(ack)
                self.unacked = self.unacked[upto + 1:]
            if k == "NAK":
                self.retransmit()
        if k == "DATA":
            _, frm, re, ack, payload = fr
            if frm == self.rx_expected:
                self.rx_expected = (self.rx_expected + 1) % 8
                self.ezsp(bytes(payload))
                if not (self.queue and len(self.unacked) < self.window):
                    self.out.append(ashref.wire(("ACK", 0, 0, self.rx_expected)))
            elif re:
                self.out.append(ashref.wire(("ACK", 0, 0, self.rx_expected)))
            else:
                self.out.append(ashref.wire(("NAK", 0, 0, self.rx_expected)))
        self.pump()

    def pump(self):
        while len(self.unacked) < self.window and self.queue and not self.failed:
            payload = self.queue.pop(0)
            self.unacked.append((self.tx_next, payload))
            self.out.append(ashref.wire(("DATA", self.tx_next, 0, self.rx_expected, payload)))
            self.tx_next = (self.tx_next + 1) % 8

    def reset(self, code):
        self.rx_expected = self.tx_next = 0
        self.unacked = []
        self.queue = []
        self.failed = False
        self.fmt = 4
        self.dec = ashref.RefDecoder()
        self.out.append(ashref.wire(("RSTACK", 2, code)))

    def spontaneous(self, kind, code):
        """ERROR frame / unsolicited RSTACK"""
        if kind == "error":
            self.failed = True
            self.out.append(ashref.wire(("ERROR", 2, code)))
        else:
            self.reset(code)

    def retransmit(self):
        if not self.failed:
            for frm, payload in self.unacked:
                self.out.append(ashref.wire(("DATA", frm, 1, self.rx_expected, payload)))

    # ---- EZSP ---------------------------------------------------------------------------------------
    def ezsp(self, data: bytes):
        import bellows.ezsp as E
        if len(data) < 3:
            return
        fmt = 4
        if len(data) >= 5 and data[2] == 0xFF and data[3] == 0x00:
            fmt = 5
        elif len(data) >= 5 and data[2] == 0x01 and self.version >= 8 and not (data[1] == 0 and data[2] == 0 and len(data) == 4):
            fmt = 8
        # a frame in a layout this NCP does not speak is ignored
        native = 4 if self.version == 4 else 5 if self.version < 8 else 8
        if fmt == 4:
            seq, fid, payload = data[0], data[2], data[3:]
        elif fmt == 5:
            seq, fid, payload = data[0], data[4], data[5:]
        else:
            seq, fid, payload = data[0], data[3] | data[4] << 8, data[5:]
        self.ezsp_seen.append((fmt, seq, fid, bytes(payload)))
        if self.mute_ezsp:
            return
        if self.responder is not None:
            r = self.responder(fmt, seq, fid, bytes(payload))
            if r is not None:
                self.queue.append(r)
                return
        if fid == 0x00:      # version
            if fmt != 4 and fmt != native:
                return
            body = bytes([self.version, 2, 0x10, 0x70])
            if fmt == native:
                self.fmt = native
            self.queue.append(self.header(fmt, seq, 0) + body)
            return
        if fmt != native or self.fmt != native:
            return           # not negotiated: real firmware ignores / errors; modelled as silence
        tbl = E.EZSP._BY_VERSION.get(self.version, E.EZSP._BY_VERSION[E.EZSP_LATEST])
        by_id = {c[0]: (n, c) for n, c in tbl.COMMANDS.items()}
        if fid not in by_id:
            return
        name, (cid, tx, rx) = by_id[fid]
        # the configuration commands of bring-up are answered from the EZSP reference, NOT from the library's tables (which
        # would change together with the host): the status is one byte before protocol version 14 and the 32-bit unified
        # status from 14 on; success is 0 in every family
        st = bytes(4 if self.version >= 14 else 1)
        wire = {0x0052: st + (0).to_bytes(2, "little"),      # getConfigurationValue: status, uint16 value
                0x0053: st,                                   # setConfigurationValue: status
                0x00AA: st + bytes([1, 3]),                   # getValue: status, length-prefixed value
                0x00AB: st,                                   # setValue: status
                0x0055: st,                                   # setPolicy: status
                0x0002: st}                                   # addEndpoint: status
        if fid in wire:
            body = wire[fid]
        else:
            body = self.default_payload(rx, value=(b"\x03" if name == "getValue" else None))
        self.queue.append(self.header(fmt, seq, fid) + body)

    @staticmethod
    def header(fmt, seq, fid):
        if fmt == 4:
            return bytes([seq, 0x80, fid])
        if fmt == 5:
            return bytes([seq, 0x80, 0xFF, 0x00, fid])
        return bytes([seq, 0x80, 0x01, fid & 0xFF, fid >> 8])

    @staticmethod
    def default_payload(rx, value=None):
        import random

        import bellows.types as t
        import ezsptypes as et
        rng = random.Random(0)
        if isinstance(rx, dict):
            vals = [et.gen_value(ty, rng, "lo") for ty in rx.values()]
            if value is not None and "value" in rx:
                vals[list(rx).index("value")] = rx["value"](value)
            return t.serialize_dict(vals, {}, rx)
        return et.gen_value(rx, rng, "lo").serialize()

    def callback(self, name, payload=None):
        """queue an asynchronous callback frame (sequence number of nothing pending)"""
        import bellows.ezsp as E
        tbl = E.EZSP._BY_VERSION.get(self.version, E.EZSP._BY_VERSION[E.EZSP_LATEST])
        cid, tx, rx = tbl.COMMANDS[name]
        self.queue.append(self.header(self.fmt, 0xEE, cid) + (payload if payload is not None else self.default_payload(rx)))
        self.pump()


class Line:
    """the serial line: delivers host bytes to the NCP at once and NCP frames to the host as separate
    loop callbacks; faults are applied by hooks"""

    def __init__(self, loop, ncp):
        self.loop = loop
        self.ncp = ncp
        self.proto = None
        self.host_to_ncp = []          # log of host writes
        self.ncp_to_host = []          # log of delivered frames
        self.fault_h2n = None          # f(bytes) -> bytes | None
        self.fault_n2h = None          # f(frame bytes) -> list[bytes]
        self.cut = False               # line cut: nothing is delivered any more
        self.socket_like = False       # transport semantics for an exception escaping data_received
        self.fatal_errors = []

    def host_wrote(self, data):
        self.host_to_ncp.append((self.loop.time(), data))
        if self.cut:
            return
        if self.fault_h2n is not None:
            data = self.fault_h2n(data)
            if data is None:
                return
        self.ncp.feed(data)
        self.flush()

    def flush(self):
        frames, self.ncp.out = self.ncp.out, []
        for fr in frames:
            outs = [fr] if self.fault_n2h is None else self.fault_n2h(fr)
            for o in outs:
                self.loop.call_soon(self._deliver, o)

    def _deliver(self, data):
        if self.cut or self.proto is None or self.proto._transport is None:
            return
        self.ncp_to_host.append((self.loop.time(), data))
        if not self.socket_like:
            # pyserial-asyncio calls protocol.data_received unguarded: an exception reaches the loop's handler
            self.proto.data_received(data)
            return
        try:
            self.proto.data_received(data)
        except (SystemExit, KeyboardInterrupt):
            raise
        except BaseException as exc:  # noqa
            # asyncio's socket transport: "Fatal error: protocol.data_received() call failed." -> the transport
            # is closed and the protocol gets connection_lost(exc)
            self.fatal_errors.append(repr(exc))
            tr = self.proto._transport
            if tr is not None and not tr.closing:
                tr.closing = True
                self.loop.call_soon(self.proto.connection_lost, exc)


class Stack:
    def __init__(self, ncp_version=8, path="/dev/ttyFAKE", ncp_up=True, ncp_timer=False):
        import bellows.ash
        import bellows.ezsp
        import bellows.uart
        import zigpy.config
        self.loop = vloop.VLoop()
        asyncio.set_event_loop(self.loop)
        vloop.patch_monotonic(bellows.ash, self.loop)
        self.ncp = SimNcp(ncp_version, up=ncp_up)
        self.line = Line(self.loop, self.ncp)
        self.serial = FakeSerial(self.loop, self.line)
        import zigpy.serial
        cfg = {zigpy.config.CONF_DEVICE_PATH: path, zigpy.config.CONF_DEVICE_BAUDRATE: 115200,
               zigpy.config.CONF_DEVICE_FLOW_CONTROL: None}
        self.ez = bellows.ezsp.EZSP(cfg)
        made = {}

        async def fake_create_serial_connection(loop, protocol_factory, url=None, **kwargs):
            proto = protocol_factory()
            made["ash"] = proto
            self.serial.protocol = proto
            self.line.proto = proto
            proto.connection_made(self.serial)
            return self.serial, proto

        # the library's own EZSP.connect() (single-threaded), on the fake serial port
        orig = zigpy.serial.create_serial_connection
        zigpy.serial.create_serial_connection = fake_create_serial_connection
        try:
            self.loop.run_until_complete(self.ez.connect(use_thread=False))
        finally:
            zigpy.serial.create_serial_connection = orig
        self.ash = made["ash"]
        self.gw = self.ez._gw
        self.reset_requests = []
        self.tasks = []
        self.line.socket_like = path.startswith("socket://")
        self._ncp_timer = None
        if ncp_timer:
            # the NCP's own acknowledgement timer: an unacknowledged DATA frame is retransmitted (UG101), five
            # fruitless rounds put the NCP into the failed state
            state = {"oldest": None, "rounds": 0}

            def tick():
                self._ncp_timer = self.loop.call_later(1.6, tick)
                ncp = self.ncp
                if ncp.failed or not ncp.unacked:
                    state["oldest"], state["rounds"] = None, 0
                    return
                key = (ncp.unacked[0][0], bytes(ncp.unacked[0][1]))
                if key != state["oldest"]:
                    state["oldest"], state["rounds"] = key, 0
                    return
                state["rounds"] += 1
                if state["rounds"] > 5:
                    ncp.spontaneous("error", 0x51)
                else:
                    ncp.retransmit()
                self.line.flush()
            self._ncp_timer = self.loop.call_later(1.6, tick)

    def add_app_callback(self):
        def cb(name, *args):
            if name == "_reset_controller_application":
                self.reset_requests.append((self.loop.time(), args))
        self.ez.add_callback(cb)

    def spawn(self, coro):
        t = self.loop.create_task(coro)
        self.tasks.append(t)
        return t

    def run_until(self, task, limit=400):
        """advance virtual time until the task is done"""
        self.loop.settle()
        n = 0
        while not task.done():
            if self.loop.next_deadline() is None:
                return False
            self.loop.tick()
            n += 1
            if n > limit:
                return False
        return True

    def close(self):
        if self._ncp_timer is not None:
            self._ncp_timer.cancel()
        for t in self.tasks:
            if not t.done():
                t.cancel()
        try:
            self.loop.settle()
        except Exception:
            pass
        self.loop.close()
