"""C12: ControllerApplication.send_packet -- real application + real per-version send wrappers on a scripted
command layer in virtual time, against the Coq model."""
import asyncio

import vloop
from framework import PropertyCheck

KIND = {"unicast": 0, "multicast": 1, "broadcast": 2}
SENDCMDS = {"sendUnicast": 0, "sendMulticast": 1, "sendBroadcast": 2}
IEEE_BASE = "00:11:22:33:44:55:66:"


class Driver:
    def __init__(self, version):
        import stack
        import zigpy.types as zt
        self.zt = zt
        self.version = version
        self.loop = vloop.VLoop()
        asyncio.set_event_loop(self.loop)

        async def mk():
            app = stack.make_app(version)
            app.controller_event.set()
            return app
        self.app = self.loop.run_until_complete(mk())
        self.ez = self.app._ezsp
        self.ez.add_callback(self.app.ezsp_callback_handler)      # as ControllerApplication.connect() does
        self.log = []
        self.steps = []
        self.mark = 0
        self.tasks = {}
        self.task_id = {}
        self.pending_cmd = None          # (request id, name, future)
        self.events = []
        drv = self
        # devices 0x1000.. are known (needed for the extended-timeout set-up)
        for i in range(4):
            dev = self.app.add_device(zt.EUI64.convert(IEEE_BASE + f"{i:02x}"), 0x1000 + i)

        async def command(name, *args, **kwargs):
            rid = drv.task_id.get(asyncio.current_task())
            fut = drv.loop.create_future()
            drv.pending_cmd = (rid, name, fut)
            if name in SENDCMDS:
                tag = kwargs.get("messageTag", kwargs.get("message_tag"))
                dst = kwargs.get("indexOrDestination", kwargs.get("nwk", kwargs.get("destination", kwargs.get("address"))))
                if name == "sendMulticast":
                    af = kwargs.get("apsFrame", kwargs.get("aps_frame"))
                    dst = af.groupId
                drv.log.append(("send", rid, SENDCMDS[name], int(dst), int(tag)))
            else:
                drv.log.append(("setup", rid, name))
            return await fut
        self.ez._protocol.command = command
        self._cnt = self._unexpected()

    def _unexpected(self):
        import bellows.zigbee.application as A
        c = self.app.state.counters[A.COUNTERS_CTRL]
        return sum(int(v.value) for k, v in c.items() if k.endswith("_unexpected") or k.endswith("_duplicate"))

    def end(self, ev):
        n = self._unexpected()
        for _ in range(n - self._cnt):
            self.log.append(("unexpected",))
        self._cnt = n
        self.events.append(ev)
        self.steps.append(self.log[self.mark:])
        self.mark = len(self.log)
        self.loop._vt += 2.0 ** -10          # keep the deadlines of different requests distinct

    async def _send(self, rid, packet):
        import zigpy.exceptions
        try:
            await self.app.send_packet(packet)
            self.log.append(("done", rid, 0))
        except zigpy.exceptions.DeliveryError:
            self.log.append(("done", rid, 1))
        except asyncio.TimeoutError:
            self.log.append(("done", rid, 2))
        except asyncio.CancelledError:
            self.log.append(("done", rid, 3))
            raise
        except zigpy.exceptions.ControllerException:
            self.log.append(("done", rid, 4))
        except BaseException as e:  # noqa
            self.log.append(("done", rid, 9, type(e).__name__ + ": " + str(e)[:80]))

    # ---- events -----------------------------------------------------------------------------------
    def send(self, rid, kind, dst, ext, route):
        zt = self.zt
        if kind == "unicast":
            d = zt.AddrModeAddress(addr_mode=zt.AddrMode.NWK, address=zt.NWK(dst))
        elif kind == "ieee":
            d = zt.AddrModeAddress(addr_mode=zt.AddrMode.IEEE, address=zt.EUI64.convert(IEEE_BASE + f"{dst - 0x1000:02x}"))
        elif kind == "multicast":
            d = zt.AddrModeAddress(addr_mode=zt.AddrMode.Group, address=zt.Group(dst))
        else:
            d = zt.AddrModeAddress(addr_mode=zt.AddrMode.Broadcast, address=zt.BroadcastAddress.ALL_ROUTERS_AND_COORDINATOR)
        pkt = zt.ZigbeePacket(
            src=zt.AddrModeAddress(addr_mode=zt.AddrMode.NWK, address=zt.NWK(0)), src_ep=1, dst=d, dst_ep=1,
            tsn=(rid & 0xFF) if getattr(self, "fixed_tsn", None) is None else self.fixed_tsn,
            profile_id=0x0104, cluster_id=6, data=zt.SerializableBytes(bytes([rid])),
            extended_timeout=ext, source_route=[zt.NWK(0x2222)] if route else None, radius=0, non_member_radius=3)
        t = self.loop.create_task(self._send(rid, pkt))
        self.tasks[rid] = t
        self.task_id[t] = rid
        self.loop.settle()
        known = 0x1000 <= dst < 0x1004
        mkind = "unicast" if kind == "ieee" else kind
        mdst = dst if kind != "broadcast" else 0xFFFC
        nsetup = 0
        if mkind == "unicast":
            nsetup = (1 if ext and known else 0) + (1 if route and self.version < 9 else 0)
        self.end(("send", rid, KIND[mkind], mdst, nsetup))

    def reply(self, enq, busy_variant=0, settle=True):
        """settle=False: the response is handled but the waiting coroutine has not resumed yet when the next
        event arrives (a confirmation right behind the response in the same read)"""
        import bellows.types as t
        if self.pending_cmd is None:
            return False
        rid, name, fut = self.pending_cmd
        self.pending_cmd = None
        v14 = self.version >= 14
        if name in SENDCMDS:
            if enq == 0:
                st = t.sl_Status.OK if v14 else t.EmberStatus.SUCCESS
            elif enq == 1:
                st = ([t.sl_Status.ZIGBEE_MAX_MESSAGE_LIMIT_REACHED, t.sl_Status.TRANSMIT_BUSY, t.sl_Status.ALLOCATION_FAILED]
                      if v14 else [t.EmberStatus.MAX_MESSAGE_LIMIT_REACHED, t.EmberStatus.NETWORK_BUSY, t.EmberStatus.NO_BUFFERS])[busy_variant % 3]
            else:
                st = ([t.sl_Status.FAIL, t.sl_Status.INVALID_STATE, t.sl_Status.NOT_JOINED] if v14
                      else [t.EmberStatus.ERR_FATAL, t.EmberStatus.NETWORK_DOWN, t.EmberStatus.DELIVERY_FAILED])[busy_variant % 3]
            fut.set_result([st, t.uint8_t(0x55)])
            if settle:
                self.loop.settle()
            self.end(("reply", rid, enq))
        else:
            if name == "getExtendedTimeout":
                fut.set_result([t.Bool.true])
            else:
                fut.set_result([t.sl_Status.OK if v14 else t.EmberStatus.SUCCESS])
            self.loop.settle()
            self.end(("reply", rid, 0))
        return True

    def confirm(self, dst, tag, ok, hi=0, mtype=0):
        """messageSentHandler as the NCP sends it: the callback FRAME (independent byte-level encoder, layouts from the
        EZSP reference: pre-v14 one-byte tag and status after it, v14 status first and a two-byte tag) through the
        real frame_received; `hi` is the upper byte of the v14 tag (a confirmation for another message whose tag
        shares the low byte)"""
        import struct
        v = self.version
        aps = struct.pack("<HHBBHHB", 0x0104, 6, 1, 1, 0, 0, tag & 0xFF)
        seq = 0x5A
        if v == 4:
            hdr = bytes([seq, 0x90, 0x3F])
        elif v < 8:
            hdr = bytes([seq, 0x90, 0xFF, 0x00, 0x3F])
        else:
            hdr = bytes([seq, 0x90, 0x01, 0x3F, 0x00])
        if v >= 14:
            body = struct.pack("<IBH", 0 if ok else 0x0C02, mtype, dst) + aps + struct.pack("<H", (tag & 0xFF) | (hi << 8)) + b"\x00"
        else:
            body = struct.pack("<BH", mtype, dst) + aps + bytes([tag & 0xFF, 0x00 if ok else 0x66]) + b"\x00"
        self.ez.frame_received(hdr + body)
        self.loop.settle()
        eff_tag = (tag & 0xFF) | ((hi << 8) if v >= 14 else 0)
        self.end(("confirm", dst, eff_tag, 1 if ok else 0))

    def next_timer_owner(self):
        """which request the earliest timer belongs to"""
        hs = [h for h in self.loop._scheduled if not h._cancelled]
        if not hs:
            return None
        h = min(hs, key=lambda x: x._when)
        cb = h._callback
        task = None
        owner = getattr(cb, "__self__", None)
        if owner is not None and hasattr(owner, "_task"):
            task = owner._task
        elif h._args:
            fut = h._args[0]
            for t in self.tasks.values():
                if getattr(t, "_fut_waiter", None) is fut:
                    task = t
        return self.task_id.get(task)

    def timer(self):
        rid = self.next_timer_owner()
        if rid is None:
            return False
        self.loop.fire_earliest()
        self.end(("timer", rid))
        return True

    def cancel(self, rid):
        t = self.tasks.get(rid)
        if t is None or t.done():
            return False
        if self.pending_cmd and self.pending_cmd[0] == rid:
            self.pending_cmd = None
        t.cancel()
        self.loop.settle()
        self.end(("cancel", rid))
        return True

    def outstanding(self):
        return [i for i, t in self.tasks.items() if not t.done()]

    def close(self):
        for t in self.tasks.values():
            if not t.done():
                t.cancel()
        try:
            self.loop.settle()
        except Exception:
            pass
        self.loop.close()


def run_script(version, script):
    d = Driver(version)
    rid = 0
    sent = {}        # rid -> (dst, tag) once the send command was seen
    try:
        for op in script:
            k = op[0]
            if k == "tsn":
                d.fixed_tsn = op[1]      # the upper layer's transaction number: the same for every packet from now on
            elif k == "send":
                d.send(rid, op[1], op[2], op[3], op[4])
                rid += 1
            elif k == "reply":
                d.reply(op[1], op[2] if len(op) > 2 else 0)
            elif k == "burst":
                # the send command's response and the confirmation of that very message in ONE read: both frames are
                # handled before the waiting coroutine resumes
                if d.pending_cmd is not None and d.pending_cmd[1] in SENDCMDS:
                    rid_b = d.pending_cmd[0]
                    e = [x for st in d.steps for x in st if x[0] == "send" and x[1] == rid_b][-1:]
                    if d.log[d.mark:]:
                        e = [x for x in d.log[d.mark:] if x[0] == "send" and x[1] == rid_b][-1:] or e
                    d.reply(op[1], 0, settle=False)
                    if e:
                        d.confirm(e[0][3], e[0][4], op[2])
                    else:
                        d.loop.settle()
                else:
                    d.reply(op[1], 0)
            elif k == "confirm":
                # confirm the n-th request that has put a send command on the wire (or a foreign tag)
                sends = [e for st in d.steps for e in st if e[0] == "send" and e[2] == 0]
                if op[1] == "foreign" or not sends:
                    d.confirm(0x7777, 0x42, op[2])
                else:
                    e = sends[op[1] % len(sends)]
                    if op[3] in (4, 5):
                        # a confirmation of a message sent via the address table (4) / a binding (5): its "destination" is a
                        # table index; bellows sends direct messages only, so it is nobody's confirmation even with a pending tag
                        d.confirm(3, e[4], op[2], mtype=1 if op[3] == 4 else 2)
                    elif op[3] == 3:
                        # same destination, same low tag byte, another upper byte: a different message on v14 (16-bit tags);
                        # before v14 the tag has one byte and this IS the request's own confirmation
                        d.confirm(e[3], e[4], op[2], hi=1)
                    else:
                        d.confirm(e[3] if op[3] == 0 else e[3] ^ 1, e[4] if op[3] != 2 else (e[4] + 1) % 256, op[2])
            elif k == "timer":
                d.timer()
            elif k == "cancel":
                out = d.outstanding()
                if out:
                    d.cancel(out[op[1] % len(out)])
        # drain: answer everything positively so that nothing is left hanging
        guard = 0
        while d.outstanding() and guard < 60:
            guard += 1
            if d.pending_cmd is not None:
                d.reply(0)
            else:
                waiting = [e for st in d.steps for e in st if e[0] == "send" and e[2] == 0 and e[1] in d.outstanding()]
                if waiting and guard % 2:
                    d.confirm(waiting[-1][3], waiting[-1][4], 1)
                elif not d.timer():
                    break
        return {"events": d.events, "steps": [[list(e) for e in st] for st in d.steps],
                "pending": len(d.app._pending), "left": len(d.outstanding())}
    except BaseException as e:  # noqa
        import traceback
        return {"crash": repr(e) + traceback.format_exc()[-700:], "events": d.events, "steps": []}
    finally:
        d.close()


class Check(PropertyCheck):
    pid = "C12"
    gen_files = ["GenApp", "GenCallbacks", "GenStatus", "GenAppFn", "GenSendPacketFn"]
    model_imports = ["gen.GenApp", "model.SendPacket"]
    run_expr = "run_send_case"
    case_type = "(list (N * N * N * N * N))"
    shard = 200
    rule = ("concurrent packets (unicast with/without source route and extended timeout, IEEE-addressed, multicast, broadcast) x enqueue-"
            "status sequences incl. response and confirmation in one read (accepted, each of the three busy statuses, several refusals) x confirmation timing (before/after the enqueue "
            "reply), failure, duplication, foreign tag / destination, absence (timeout) x caller cancellation x protocol versions 4, 8, 13, 14 "
            "(thorough: 4..14); non-trivial = more than one packet or a non-accepted status; distinct by (version, script)")
    assumptions = ["zigpy.util.Requests is the harness re-implementation (the installed zigpy no longer ships it)",
                   "the extended-timeout set-up is answered 'already set' (one command)"]

    def build_cases(self, tier, rng):
        versions = [4, 8, 13, 14] if tier == "quick" else list(range(4, 15))
        cases = []
        for v in versions:
            base = [
                [("send", "unicast", 0x1000, False, False), ("reply", 0), ("confirm", 0, 1, 0)],
                [("send", "unicast", 0x1000, False, False), ("confirm", 0, 1, 0), ("reply", 0)],
                [("send", "unicast", 0x1000, False, False), ("reply", 0), ("confirm", 0, 0, 0)],
                [("send", "unicast", 0x1000, False, False), ("reply", 0), ("confirm", 0, 1, 1), ("confirm", 0, 1, 2),
                 ("confirm", "foreign", 1, 0), ("timer",)],
                [("send", "unicast", 0x1000, False, False), ("reply", 0), ("confirm", 0, 1, 0), ("confirm", 0, 1, 0)],
                # two unicasts in flight to the SAME destination: the failed confirmation of one says nothing about the other
                [("send", "unicast", 0x1000, False, False), ("send", "unicast", 0x1000, False, False), ("reply", 0), ("reply", 0),
                 ("confirm", 0, 0, 0), ("confirm", 1, 1, 0)],
                [("send", "unicast", 0x1000, False, False), ("send", "unicast", 0x1000, False, False), ("reply", 0), ("reply", 0),
                 ("confirm", 1, 0, 0), ("confirm", 0, 1, 0)],
                [("send", "unicast", 0x1000, False, False), ("send", "unicast", 0x1000, False, False), ("reply", 0), ("reply", 0),
                 ("confirm", 0, 0, 0), ("timer",), ("timer",)],
                [("send", "unicast", 0x1000, False, False), ("reply", 0), ("confirm", 0, 1, 4), ("confirm", 0, 0, 0)],
                [("send", "unicast", 0x1000, False, False), ("reply", 0), ("confirm", 0, 1, 5), ("timer",)],
                [("send", "unicast", 0x1000, False, False), ("send", "unicast", 0x1001, False, False), ("reply", 0), ("reply", 0),
                 ("confirm", 1, 1, 4), ("confirm", 0, 1, 0), ("confirm", 1, 0, 0)],
                [("send", "unicast", 0x1000, False, False), ("reply", 2, 0)],
                [("send", "unicast", 0x1000, False, False), ("reply", 2, 1)],
                [("send", "unicast", 0x1000, False, False), ("reply", 2, 2)],
                [("send", "unicast", 0x1000, False, False), ("reply", 1, 0), ("timer",), ("reply", 1, 1), ("timer",), ("reply", 1, 2),
                 ("timer",)],
                [("send", "unicast", 0x1000, False, False), ("reply", 1, 0), ("timer",), ("reply", 0), ("confirm", 0, 1, 0)],
                [("send", "unicast", 0x1001, True, True), ("reply", 0), ("reply", 0), ("reply", 0), ("confirm", 0, 1, 0)],
                [("send", "unicast", 0x1001, True, True), ("send", "unicast", 0x1002, True, True), ("reply", 0), ("reply", 0),
                 ("reply", 0), ("reply", 0), ("reply", 0), ("reply", 0), ("confirm", 1, 1, 0), ("confirm", 0, 1, 0)],
                [("send", "multicast", 0x0033, False, False), ("reply", 0)],
                [("send", "broadcast", 0xFFFC, False, False), ("reply", 0)],
                [("send", "broadcast", 0xFFFC, False, False), ("reply", 2, 0)],
                [("send", "ieee", 0x1003, False, False), ("reply", 0), ("confirm", 0, 1, 0)],
                # v14: a confirmation whose 16-bit tag shares only the low byte with the pending request's
                [("send", "unicast", 0x1000, False, False), ("reply", 0), ("confirm", 0, 1, 3), ("timer",)],
                [("send", "unicast", 0x1000, False, False), ("reply", 0), ("confirm", 0, 1, 3), ("confirm", 0, 0, 0)],
                # a confirmation carrying the (destination, tag) of a request that is still waiting for the lock
                [("send", "ieee", 0x1002, True, False), ("send", "ieee", 0x1003, True, False), ("reply", 0, 1), ("confirm", 1, 1, 2)],
                # a request with set-up commands meets a busy NCP while a second request waits: the retry repeats the set-up
                [("send", "unicast", 0x1001, True, True), ("send", "unicast", 0x1002, False, False), ("reply", 0), ("reply", 0),
                 ("reply", 1, 0), ("reply", 0), ("timer",), ("reply", 0), ("reply", 0), ("reply", 0), ("confirm", 0, 1, 0), ("confirm", 1, 1, 0)],
                [("send", "unicast", 0x1001, True, False), ("send", "unicast", 0x1002, True, False), ("reply", 0), ("reply", 1, 1),
                 ("reply", 0), ("reply", 0), ("timer",), ("reply", 0), ("reply", 0), ("confirm", 0, 1, 0), ("confirm", 1, 1, 0)],
                # response and confirmation back to back in one read (success / failure), also behind a busy retry
                [("send", "unicast", 0x1000, False, False), ("burst", 0, 1)],
                [("send", "unicast", 0x1000, False, False), ("burst", 0, 0)],
                [("send", "unicast", 0x1001, True, True), ("reply", 0), ("reply", 0), ("burst", 0, 1)],
                [("send", "unicast", 0x1000, False, False), ("reply", 1, 0), ("timer",), ("burst", 0, 1)],
                [("send", "unicast", 0x1000, False, False), ("send", "unicast", 0x1001, False, False), ("burst", 0, 1), ("burst", 0, 0)],
                [("send", "unicast", 0x1000, False, False), ("cancel", 0)],
                [("send", "unicast", 0x1000, False, False), ("reply", 0), ("cancel", 0), ("confirm", 0, 1, 0)],
                [("send", "unicast", 0x1000, False, True), ("send", "unicast", 0x1000, False, False), ("cancel", 0), ("reply", 0)],
            ]
            for s in base:
                cases.append({"v": v, "script": s})
            # the packets' transaction numbers are the upper layer's business and may coincide (a retransmitted ZCL frame, two
            # clusters counting independently): requests are told apart by the tag the library gives them, not by the TSN
            tsn_base = [
                [("tsn", 0x42), ("send", "unicast", 0x1000, False, False), ("reply", 0), ("confirm", 0, 1, 0),
                 ("send", "unicast", 0x1000, False, False), ("reply", 0), ("confirm", 0, 1, 0), ("confirm", 1, 1, 0)],
                [("tsn", 0x42), ("send", "unicast", 0x1000, False, False), ("reply", 0), ("confirm", 0, 1, 0),
                 ("send", "unicast", 0x1000, False, False), ("reply", 0), ("confirm", 0, 0, 0), ("confirm", 1, 1, 0)],
                [("tsn", 0x42), ("send", "unicast", 0x1000, False, False), ("send", "unicast", 0x1000, False, False), ("reply", 0),
                 ("reply", 0), ("confirm", 0, 1, 0), ("confirm", 1, 1, 0)],
                [("tsn", 0x42), ("send", "unicast", 0x1000, False, False), ("send", "unicast", 0x1000, False, False), ("reply", 0),
                 ("reply", 0), ("confirm", 1, 0, 0), ("confirm", 0, 1, 0)],
                [("tsn", 0x07), ("send", "unicast", 0x1001, False, False), ("send", "unicast", 0x1001, False, False), ("reply", 0),
                 ("reply", 0), ("confirm", 0, 1, 0), ("timer",), ("timer",)],
            ]
            for s in tsn_base:
                cases.append({"v": v, "script": s})
            for _ in range(120 if tier == "quick" else 800):
                s = []
                for _ in range(rng.randrange(3, 16)):
                    x = rng.random()
                    if x < 0.22:
                        kind = rng.choice(["unicast", "unicast", "unicast", "ieee", "multicast", "broadcast"])
                        dst = rng.choice([0x1000, 0x1001, 0x1002, 0x4444]) if kind == "unicast" else \
                            rng.choice([0x1002, 0x1003]) if kind == "ieee" else 0x0033
                        s.append(("send", kind, dst, rng.random() < 0.4, rng.random() < 0.4))
                    elif x < 0.52:
                        s.append(("reply", rng.choice([0, 0, 0, 1, 1, 2]), rng.randrange(3)))
                    elif x < 0.6:
                        s.append(("burst", rng.choice([0, 0, 1, 2]), rng.choice([1, 1, 0])))
                    elif x < 0.82:
                        s.append(("confirm", rng.choice([0, 1, 2, "foreign"]), rng.choice([1, 1, 0]), rng.choice([0, 0, 0, 1, 2, 3, 4, 5])))
                    elif x < 0.94:
                        s.append(("timer",))
                    else:
                        s.append(("cancel", rng.randrange(3)))
                cases.append({"v": v, "script": s})
        return cases

    def run_impl(self, case):
        script = [tuple(x) for x in case["script"]]
        obs = run_script(case["v"], script)
        case["_events"] = obs.pop("events")
        return obs

    def describe(self, case):
        return {k: v for k, v in case.items() if not k.startswith("_")}

    def model_input(self, case):
        if any(x[0] == "burst" for x in case["script"]):
            return None        # the model settles between events; back-to-back frames are judged by the predicate
        out = []
        for e in case["_events"]:
            if e[0] == "send":
                out.append(f"(0, {e[1]}, {e[2]}, {e[3]}, {e[4]})")
            elif e[0] == "reply":
                out.append(f"(1, {e[1]}, {e[2]}, 0, 0)")
            elif e[0] == "confirm":
                out.append(f"(2, {e[1]}, {e[2]}, {e[3]}, 0)")
            elif e[0] == "timer":
                out.append(f"(3, {e[1]}, 0, 0, 0)")
            else:
                out.append(f"(4, {e[1]}, 0, 0, 0)")
        return "[" + "; ".join(out) + "]"

    def obs_to_z(self, case, obs):
        if "crash" in obs:
            return [-99]
        z = []
        for st in obs["steps"]:
            for e in st:
                if e[0] == "setup":
                    z += [1, e[1]]
                elif e[0] == "send":
                    z += [2, e[1], e[2], e[3], e[4]]
                elif e[0] == "done":
                    z += [3, e[1], e[2]]
                elif e[0] == "unexpected":
                    z += [4]
            z += [-1]
        return z + [obs["pending"]]

    def monitor(self, case, obs):
        """the property's clauses on the implementation's own trace"""
        if "crash" in obs:
            return f"raised {obs['crash']}"
        sendcmd = {}          # rid -> (kind, dst, tag) of its send command
        accepted = set()
        ok_confirms = []      # (event index, destination, tag) of successful confirmations
        all_confirms = []     # (event index, destination, tag, ok)
        created = {}          # rid -> index of its send_packet call
        in_lock = None        # request currently between its first set-up/send command and the send reply
        last_cmd = {}         # rid -> 'setup' | 'send' : the command that request is waiting on
        cmd_order = []        # ('setup' | 'send', rid) in the order the commands reached the NCP
        nsetup = {}           # rid -> set-up commands per attempt
        for idx, (ev, st) in enumerate(zip(case["_events"], obs["steps"])):
            if ev[0] == "send":
                created[ev[1]] = idx
                nsetup[ev[1]] = ev[4] if ev[2] == 0 else 0
                # a request ends by returning (accepted + confirmed), by a delivery error (refused, still busy, failed
                # confirmation) or by a timeout -- never by being turned away with some other controller error in the very call
                # that made it, before anything was sent for it
                for e in st:
                    if e[0] == "done" and e[1] == ev[1] and e[2] == 4:
                        return (f"request {ev[1]} (destination {ev[3]:#06x}) was turned away with a controller error in the call that "
                                f"made it, before any command was sent for it (other requests in flight: "
                                f"{sorted(r for r in created if r != ev[1])})")
            if ev[0] == "reply":
                rid, enq = ev[1], ev[2]
                if last_cmd.get(rid) == "send" and enq == 1:
                    # the NCP is busy (message limit reached / network busy / no buffers, in the status family of the
                    # running version): the request backs off and tries again; it may only give up after the fixed number
                    # of spaced retries, i.e. never in the step that handles a busy answer
                    if any(e[0] == "done" and e[1] == rid for e in st):
                        return (f"request {rid}: the NCP answered the send command with a busy status and the call ended at once "
                                f"instead of retrying after the delay")
                if last_cmd.get(rid) == "send":
                    if in_lock == rid:
                        in_lock = None          # the send command returned: set-up + send are over
                    if enq == 0:
                        accepted.add(rid)
                last_cmd.pop(rid, None)
            elif ev[0] == "cancel":
                if in_lock == ev[1]:
                    in_lock = None
                last_cmd.pop(ev[1], None)
            elif ev[0] == "confirm":
                # the pending entry (destination, tag) exists from the moment send_packet was called, i.e. possibly
                # before the send command is on the wire: a confirmation is matched against the request's own
                # destination and tag whenever it arrives during the request's lifetime (the statement fixes no order)
                if ev[3] == 1:
                    ok_confirms.append((idx, ev[1], ev[2]))
                all_confirms.append((idx, ev[1], ev[2], ev[3]))
            for e in st:
                if e[0] in ("setup", "send"):
                    cmd_order.append((e[0], e[1]))
                    if e[0] == "send" and nsetup.get(e[1], 0) > 0:
                        # every attempt of a request that needs set-up issues its set-up commands immediately before its
                        # send command, with no other request's command in between (a retry after a busy status included)
                        prev = cmd_order[-1 - nsetup[e[1]]:-1]
                        if len(prev) != nsetup[e[1]] or any(p != ("setup", e[1]) for p in prev):
                            return (f"request {e[1]} put its send command on the wire without its {nsetup[e[1]]} set-up command(s) "
                                    f"directly in front of it (commands before it: {cmd_order[-4:-1]})")
                    if in_lock is not None and in_lock != e[1]:
                        return f"request {e[1]} issued a command while request {in_lock} was between its set-up and its send"
                    in_lock = e[1]
                    last_cmd[e[1]] = e[0]
                    if e[0] == "send":
                        sendcmd[e[1]] = (e[2], e[3], e[4])
                elif e[0] == "done":
                    rid, res = e[1], e[2]
                    if res == 9:
                        return f"request {rid} ended with {e[3]}: send_packet returns, raises a delivery error or a timeout, or is cancelled"
                    if in_lock == rid:
                        in_lock = None
                    if rid in sendcmd and sendcmd[rid][0] == 0 and rid in accepted and res in (1, 2):
                        # the NCP accepted the message and its confirmation (same destination, same tag) arrived while the
                        # request was in progress: success returns normally, failure raises a delivery error -- never a timeout
                        _, dst0, tag0 = sendcmd[rid]
                        mine = [c for c in all_confirms if c[0] >= created.get(rid, 0) and c[0] <= idx and c[1] == dst0 and c[2] == tag0]
                        if res == 1 and not any(c[3] == 0 for c in mine):
                            return (f"unicast {rid} was accepted by the NCP and ended with a delivery error although no confirmation for "
                                    f"its own destination {dst0:#x} and tag {tag0} reported failure")
                        if mine and mine[0][3] == 1:
                            return (f"unicast {rid} was accepted and its confirmation (destination {dst0:#x}, tag {tag0}) reported success, "
                                    f"but the call ended with {'a timeout' if res == 2 else 'a delivery error'}")
                        if mine and mine[0][3] == 0 and res == 2:
                            return (f"unicast {rid} was accepted and its confirmation reported failure, but the call ended with a timeout "
                                    f"instead of a delivery error")
                    if res == 2 and rid in sendcmd and sendcmd[rid][0] == 0 and rid not in accepted:
                        # a timeout is the outcome of an ACCEPTED unicast whose confirmation does not arrive; a message the
                        # NCP refused, or was still too busy to take after the retries, ends in a delivery error
                        return (f"unicast {rid} ended with a timeout although the NCP never accepted the message (refused / busy on "
                                f"every attempt): that is a delivery error")
                    if res == 0 and rid in sendcmd and sendcmd[rid][0] == 0:
                        if rid not in accepted:
                            return f"unicast {rid} returned normally although the NCP never accepted the message"
                        _, dst, tag = sendcmd[rid]
                        if not any(i >= created.get(rid, 0) and d == dst and tg == tag for i, d, tg in ok_confirms):
                            return f"unicast {rid} returned normally without a successful confirmation for its own destination and tag"
        if obs["pending"] != 0 and obs["left"] == 0:
            return f"{obs['pending']} entries remain in the pending table after every request ended"
        return None

    def nontrivial(self, case, obs):
        s = case["script"]
        return sum(1 for x in s if x[0] == "send") > 1 or any(x[0] == "reply" and x[1] != 0 for x in s)

    def signature(self, case, obs, why):
        import re
        return "send:" + re.sub(r"\d+", "N", why)[:60]

    def shrink(self, case, still_fails):
        c = dict(case)
        sc = list(c["script"])
        changed = True
        while changed and len(sc) > 1:
            changed = False
            for i in range(len(sc)):
                cand = dict(c, script=sc[:i] + sc[i + 1:])
                if still_fails(cand):
                    sc, changed = cand["script"], True
                    break
        c["script"] = sc
        return c
