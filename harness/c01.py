"""C01: exactly-once, in-order delivery over a faulty line -- the real AshProtocol against a
specification-conforming NCP (harness/fullstack.SimNcp, windows 1..3) joined by two FIFO queues whose
head frame can be delivered, dropped, detectably corrupted, duplicated or stalled past the timeout.
The host half is co-simulated against the Coq host model; the end-to-end property is judged on the run."""
import asyncio

import ashref
import ashrun
import c05
import fullstack
import vloop
from framework import PropertyCheck



# payload lengths: mostly short, some around and beyond 128 bytes (EZSP frames reach 200+ bytes; the data field of a DATA
# frame is randomised over its whole length)
PADS = [0, 0, 0, 0, 0, 0, 126, 0, 0, 0, 0, 0, 0, 157, 0, 0, 0, 0, 0, 0, 0, 0, 197]


def _pad(n):
    k = PADS[n % len(PADS)]
    return bytes((n * 7 + j * 13 + 1) % 256 for j in range(k))

class Link:
    def __init__(self, window, rng_choices):
        self.d = c05.Driver()
        self.d.rec.clock = self.d.loop.time
        self.ncp = fullstack.SimNcp(8)
        self.ncp.window = window
        self.ncp_up = []
        self.ncp.ezsp = lambda data: self.ncp_up.append(bytes(data))
        self.h2n = []          # frames (wire bytes incl. flag) written by the host, FIFO
        self.n2h = []
        self.buf = bytearray()
        rec = self.d.rec
        orig_write = rec.write

        def write(data):
            orig_write(data)
            self.buf += data
            while ashref.FLAG in self.buf:
                i = self.buf.index(ashref.FLAG)
                self.h2n.append(bytes(self.buf[:i + 1]))
                del self.buf[:i + 1]
        rec.write = write
        self.host_subm = []    # (id, payload)
        self.ncp_subm = []
        self.nid = 0

    def drain_ncp(self):
        self.n2h += self.ncp.out
        self.ncp.out = []

    # ---- labels -----------------------------------------------------------------------------------
    def host_submit(self):
        pl = bytes([0xA0, self.nid >> 8, self.nid & 0xFF]) + _pad(self.nid)
        self.host_subm.append((self.nid, pl))
        self.d.submit(self.nid, pl)
        self.nid += 1

    def ncp_submit(self, payload=None):
        pl = bytes([0xB0, len(self.ncp_subm) >> 8, len(self.ncp_subm) & 0xFF]) + _pad(len(self.ncp_subm) + 5)
        if payload is not None:
            pl = payload
        self.ncp_subm.append(pl)
        self.ncp.queue.append(pl)
        self.ncp.pump()
        self.drain_ncp()

    def h2n_step(self, action):
        if not self.h2n:
            return
        fr = self.h2n[0]
        if action != "dup":
            self.h2n.pop(0)
        if action == "drop":
            return
        if action == "corrupt":
            b = bytearray(fr)
            b[max(0, len(b) // 2 - 1)] ^= 0x10
            fr = bytes(b)
        if action == "corrupt0":        # damage in the control byte: the acknowledgement number reads one higher / lower
            b = bytearray(fr)
            b[0] ^= 0x01
            fr = bytes(b)
        self.ncp.feed(fr)
        self.drain_ncp()

    def n2h_step(self, action):
        if not self.n2h:
            return
        fr = self.n2h[0]
        if action != "dup":
            self.n2h.pop(0)
        if action == "drop":
            return
        if action == "corrupt":
            b = bytearray(fr)
            b[max(0, len(b) // 2 - 1)] ^= 0x10
            fr = bytes(b)
        if action == "corrupt0":
            b = bytearray(fr)
            b[0] ^= 0x01
            fr = bytes(b)
        # the model gets the very bytes (valid or corrupted): it deframes them itself
        self.d.proto.data_received(fr)
        self.d.loop.settle()
        self.d._end_step(("bytes", fr))

    def host_timeout(self):
        if self.d.loop.next_deadline() is not None:
            self.d.tick()

    def ncp_timeout(self):
        self.ncp.retransmit()
        self.drain_ncp()

    def cancel(self, rng):
        out = self.d.outstanding()
        if out:
            self.d.cancel(rng.choice(out))


def run_schedule(seed, window, nlabels, fault_rate, cancels, directed=None):
    import random
    rng = random.Random(seed)
    L = Link(window, rng)
    labels = []
    try:
        for lab in (directed or []):
            lab = tuple(lab)
            labels.append(lab)
            _apply(L, lab, rng)
        for _ in range(0 if directed is not None else nlabels):
            r = rng.random()
            if r < 0.12:
                lab = ("hsub",)
            elif r < 0.22:
                lab = ("nsub",)
            elif r < 0.55:
                lab = ("h2n", "deliver" if rng.random() > fault_rate else rng.choice(["drop", "corrupt", "dup", "corrupt0"]))
            elif r < 0.88:
                lab = ("n2h", "deliver" if rng.random() > fault_rate else rng.choice(["drop", "corrupt", "dup", "corrupt0"]))
            elif r < 0.93:
                lab = ("htimeout",)
            elif r < 0.97:
                lab = ("ntimeout",)
            else:
                lab = ("cancel",) if cancels else ("htimeout",)
            labels.append(lab)
            _apply(L, lab, rng)
        # quiesce: a fault-free tail so that everything in flight settles (bounded)
        for _ in range(400):
            if not (L.h2n or L.n2h or L.d.outstanding() or L.ncp.unacked or L.ncp.queue):
                break
            if L.h2n:
                L.h2n_step("deliver")
            elif L.n2h:
                L.n2h_step("deliver")
            elif L.d.proto._ncp_state.name == "FAILED":
                break
            elif L.d.outstanding() and L.d.loop.next_deadline() is not None:
                L.host_timeout()
            elif L.ncp.unacked:
                L.ncp_timeout()
            else:
                break
        d = L.d
        dones = {e[1]: e[2] for st in d.steps for e in st if e[0] == "done"}
        # dones may also have been logged after the last step boundary
        for e in d.rec.log:
            if e[0] == "done":
                dones[e[1]] = e[2]
        pairs = list(zip(d.events, d.steps))
        return {"events": [ev for ev, _ in pairs], "steps": [[c05._j(e) for e in st] for _, st in pairs],
                "final": d.final() + [len(d.proto._buffer), 1 if d.proto._discarding_until_next_flag else 0],
                "host_up": [e[1].hex() for e in d.rec.log if e[0] == "up"], "ncp_up": [p.hex() for p in L.ncp_up],
                "host_subm": [[i, p.hex()] for i, p in L.host_subm], "ncp_subm": [p.hex() for p in L.ncp_subm],
                "dones": {str(k): v for k, v in dones.items()}, "labels": len(labels),
                "failed": d.proto._ncp_state.name == "FAILED",
                "ncp_acked_all": not L.ncp.unacked and not L.ncp.queue}
    except BaseException as e:  # noqa
        import traceback
        return {"crash": repr(e) + traceback.format_exc()[-800:], "events": L.d.events, "steps": [], "final": []}
    finally:
        L.d.close()


def run_assignment(window, n_nsub, n_hsub, assign_n2h, assign_h2n, ncp_payloads=None):
    """small scope: fixed submissions, then the k-th frame delivered on each line gets the k-th action of its
    assignment (deliver afterwards); timeouts fire whenever nothing is in flight"""
    L = Link(window, None)
    try:
        for k in range(n_nsub):
            L.ncp_submit(ncp_payloads[k] if ncp_payloads else None)
        for _ in range(n_hsub):
            L.host_submit()
        kn = kh = 0
        for _ in range(300):
            if L.n2h:
                act = assign_n2h[kn] if kn < len(assign_n2h) else "deliver"
                kn += 1
                if act.startswith("stall"):
                    # the frame (and, the line being FIFO, everything behind it) is held while the acknowledgement
                    # timers of both ends expire once / twice; then it is delivered
                    for _ in range(2 if act == "stall2" else 1):
                        if L.d.outstanding() and L.d.loop.next_deadline() is not None:
                            L.host_timeout()
                        if L.ncp.unacked:
                            L.ncp_timeout()
                        while L.h2n:            # what the host retransmitted reaches the NCP meanwhile
                            a2 = assign_h2n[kh] if kh < len(assign_h2n) else "deliver"
                            kh += 1
                            L.h2n_step(a2 if not a2.startswith("stall") else "deliver")
                    act = "deliver"
                L.n2h_step(act)
                if act == "dup":
                    L.n2h_step("deliver")
            elif L.h2n:
                act = assign_h2n[kh] if kh < len(assign_h2n) else "deliver"
                kh += 1
                if act.startswith("stall"):
                    for _ in range(2 if act == "stall2" else 1):
                        if L.d.outstanding() and L.d.loop.next_deadline() is not None:
                            L.host_timeout()
                        if L.ncp.unacked:
                            L.ncp_timeout()
                    act = "deliver"
                L.h2n_step(act)
                if act == "dup":
                    L.h2n_step("deliver")
            elif L.d.proto._ncp_state.name == "FAILED":
                break
            elif L.d.outstanding() and L.d.loop.next_deadline() is not None:
                L.host_timeout()
            elif L.ncp.unacked:
                L.ncp_timeout()
            else:
                break
        d = L.d
        dones = {}
        for e in d.rec.log:
            if e[0] == "done":
                dones[e[1]] = e[2]
        return {"host_up": [e[1].hex() for e in d.rec.log if e[0] == "up"], "ncp_up": [p.hex() for p in L.ncp_up],
                "host_subm": [[i, p.hex()] for i, p in L.host_subm], "ncp_subm": [p.hex() for p in L.ncp_subm],
                "dones": {str(k): v for k, v in dones.items()}, "failed": d.proto._ncp_state.name == "FAILED",
                "ncp_acked_all": not L.ncp.unacked and not L.ncp.queue}
    except BaseException as e:  # noqa
        return {"crash": repr(e)}
    finally:
        L.d.close()


def _apply(L, lab, rng):
    k = lab[0]
    if k == "hsub":
        L.host_submit()
    elif k == "nsub":
        L.ncp_submit()
    elif k == "h2n":
        L.h2n_step(lab[1])
    elif k == "n2h":
        L.n2h_step(lab[1])
    elif k == "htimeout":
        L.host_timeout()
    elif k == "ntimeout":
        L.ncp_timeout()
    elif k == "cancel":
        L.cancel(rng)


def is_subsequence(a, b):
    it = iter(b)
    return all(x in it for x in a)


class Check(PropertyCheck):
    pid = "C01"
    gen_files = ["GenAsh", "GenAshRxFn", "GenAshTxFn"]
    model_imports = ["gen.GenAsh", "model.AshCodec", "model.AshRx", "model.AshHost", "model.AshHostBytes"]
    run_expr = "run_hostbytes_case"
    case_type = "(list bevent)"
    case_preamble = "From Coq Require Import PrimFloat."
    shard = 60
    rule = ("random schedules over labels {host submit, NCP submit, head of either FIFO line: deliver / drop / detectable corruption / "
            "duplicate, host acknowledgement timeout (stall), NCP retransmission timeout, caller cancellation}, NCP transmit windows 1..3, "
            "fault rates 0..50%, long enough to wrap the 3-bit numbers several times, then a fault-free tail; host half compared with the "
            "Coq host model event by event, end-to-end delivery judged on both ends; non-trivial = at least one fault label; distinct by seed")
    assumptions = ["FIFO lines (a serial line does not reorder); one epoch per run unless the retry budget is exhausted",
                   "the NCP is harness/fullstack.SimNcp, written from the ASH specification"]

    def build_cases(self, tier, rng):
        cases = []
        n = 240 if tier == "quick" else 5000
        for i in range(n):
            cases.append({"seed": rng.randrange(1 << 30), "window": 1 + i % 3, "n": rng.choice([80, 200, 400]),
                          "fault": rng.choice([0.0, 0.03, 0.08, 0.15, 0.3, 0.5]), "cancels": i % 5 == 0})
        # directed: the host's DATA frame is lost and repeated after the timeout while NCP traffic goes on -- k NCP frames
        # delivered and acknowledged in between, then w frames of the NCP's window lost; the repeat carries the host's
        # acknowledgement number (cumulative, three bits): it must be the current one.  All k around a wrap, windows 1..3
        for w in (1, 2, 3):
            for k in (range(4, 10) if tier == "quick" else range(0, 18)):
                lab = [("hsub",), ("h2n", "drop")]
                for _ in range(k):
                    lab += [("nsub",), ("n2h", "deliver"), ("h2n", "deliver")]
                lab += [("nsub",)] * w + [("n2h", "drop")] * w + [("htimeout",), ("h2n", "deliver")]
                cases.append({"seed": 1, "window": w, "n": 0, "fault": 0.0, "cancels": False, "directed": lab})
        # directed: the host's DATA frame is lost; while it is pending a frame of the NCP arrives damaged in its control byte
        # so that its acknowledgement number reads one higher (detectable: the CRC no longer matches): nothing may be taken
        # from a damaged frame.  From every frame number (k warm-up exchanges first)
        for w in (1, 2):
            for k in range(0, 9):
                lab = []
                for _ in range(k):
                    lab += [("hsub",), ("h2n", "deliver"), ("n2h", "deliver")]
                lab += [("hsub",), ("h2n", "drop"), ("nsub",), ("n2h", "corrupt0"), ("nsub",), ("n2h", "corrupt0")]
                cases.append({"seed": 1, "window": w, "n": 0, "fault": 0.0, "cancels": False, "directed": lab})
        # directed: a send of the host fails by timeouts alone (every transmission lost) while the NCP stays healthy and goes
        # on sending: what the host acknowledges afterwards it has handed up
        for w in (1, 2, 3):
            for before in (0, 2):
                lab = []
                for _ in range(before):
                    lab += [("nsub",), ("n2h", "deliver"), ("h2n", "deliver")]
                lab += [("hsub",)] + [("h2n", "drop"), ("htimeout",)] * 5
                for _ in range(10):
                    lab += [("nsub",), ("n2h", "deliver"), ("h2n", "deliver")]
                cases.append({"seed": 1, "window": w, "n": 0, "fault": 0.0, "cancels": False, "directed": lab})
        # directed: the line duplicates a frame of the NCP the host has already accepted while later frames of the NCP's window
        # are lost: the host rejects the duplicate; the number its NAK carries is the host's own expected number, whatever
        # the two ends' counters are relative to each other (every offset between them, windows 1..3)
        for w in (1, 2, 3):
            for off in range(8):
                for base in ((0,) if tier == "quick" else (0, 3, 6)):
                    lab = []
                    for _ in range(base):
                        lab += [("nsub",), ("n2h", "deliver"), ("h2n", "deliver")]
                    for _ in range(base + off):
                        lab += [("hsub",), ("h2n", "deliver"), ("n2h", "deliver")]
                    lab += [("nsub",)] * (w + 1) + [("n2h", "dup"), ("n2h", "deliver"), ("h2n", "deliver")]
                    lab += [("n2h", "drop")] * w + [("h2n", "deliver")]
                    cases.append({"seed": 1, "window": w, "n": 0, "fault": 0.0, "cancels": False, "directed": lab})
        return cases

    def run_impl(self, case):
        obs = run_schedule(case["seed"], case["window"], case["n"], case["fault"], case["cancels"], case.get("directed"))
        case["_events"] = obs.pop("events")
        return obs

    def describe(self, case):
        return {k: v for k, v in case.items() if not k.startswith("_")}

    def model_input(self, case):
        out = []
        for e in case["_events"]:
            if e[0] == "bytes":
                out.append("BBytes [" + ";".join(str(b) for b in e[1]) + "]")
            else:
                out.append("BEv (" + c05.hevent_coq(e) + ")")
        return "[" + "; ".join(out) + "]"

    def obs_to_z(self, case, obs):
        if "crash" in obs:
            return [-99]
        return c05.enc_steps(obs["steps"]) + obs["final"]

    def monitor(self, case, obs):
        if "crash" in obs:
            return f"raised {obs['crash']}"
        import collections
        if not hasattr(self, "stats"):
            self.stats = collections.Counter()
        self.stats["runs"] += 1
        self.stats["runs_link_failed"] += 1 if obs["failed"] else 0
        self.stats["runs_wrapping_host_to_ncp"] += 1 if len(obs["ncp_up"]) > 8 else 0
        self.stats["runs_wrapping_ncp_to_host"] += 1 if len(obs["host_up"]) > 8 else 0
        self.stats["payloads_delivered_to_ncp"] += len(obs["ncp_up"])
        self.stats["payloads_delivered_to_host"] += len(obs["host_up"])
        self.stats["sends_ok"] += sum(1 for v in obs["dones"].values() if v == [0])
        self.stats["sends_failed"] += sum(1 for v in obs["dones"].values() if v not in ([0], [4]))
        self.stats["sends_cancelled"] += sum(1 for v in obs["dones"].values() if v == [4])
        hs = [p for _, p in obs["host_subm"]]
        if len(set(obs["ncp_up"])) != len(obs["ncp_up"]):
            return "a payload was handed up twice on the NCP side"
        if len(set(obs["host_up"])) != len(obs["host_up"]):
            return "a payload was handed to the host's upper layer twice"
        if not is_subsequence(obs["ncp_up"], hs):
            return f"NCP-side deliveries are not an in-order subsequence of what the host submitted"
        if not is_subsequence(obs["host_up"], obs["ncp_subm"]):
            return f"host-side deliveries are not an in-order subsequence of what the NCP submitted"
        pl = dict((str(i), p) for i, p in obs["host_subm"])
        for i, out in obs["dones"].items():
            if out == [0] and obs["ncp_up"].count(pl[i]) != 1:
                return f"send {i} completed successfully but its payload was delivered {obs['ncp_up'].count(pl[i])} times"
        if obs.get("ncp_acked_all") and len(obs["host_up"]) != len(obs["ncp_subm"]):
            # (also when the host's own sends have failed meanwhile: what the host acknowledges it has accepted)
            return (f"every send of the NCP completed (acknowledged by the host) but only {len(obs['host_up'])} of "
                    f"{len(obs['ncp_subm'])} payloads were handed up on the host side")
        return None

    def judge(self, obs):
        """end-to-end clauses on a small-scope run (same as monitor, plus: what the NCP believes acknowledged
        must have been handed up on the host side)"""
        if "crash" in obs:
            return f"raised {obs['crash']}"
        hs = [p for _, p in obs["host_subm"]]
        if len(set(obs["ncp_up"])) != len(obs["ncp_up"]) or len(set(obs["host_up"])) != len(obs["host_up"]):
            return "a payload was handed up twice"
        if not is_subsequence(obs["ncp_up"], hs) or obs["ncp_up"] != hs[:len(obs["ncp_up"])]:
            return "NCP-side deliveries are not an in-order prefix of what the host submitted"
        if obs["host_up"] != obs["ncp_subm"][:len(obs["host_up"])]:
            return f"host-side deliveries {obs['host_up']} are not an in-order prefix of what the NCP submitted {obs['ncp_subm']}"
        if obs.get("ncp_acked_all") and not obs["failed"] and len(obs["host_up"]) != len(obs["ncp_subm"]):
            return (f"the NCP's sends all completed (acknowledged) but only {len(obs['host_up'])} of {len(obs['ncp_subm'])} "
                    f"payloads were handed up on the host side")
        pl = dict((str(i), p) for i, p in obs["host_subm"])
        for i, out in obs["dones"].items():
            if out == [0] and obs["ncp_up"].count(pl[i]) != 1:
                return f"host send {i} completed successfully but its payload was delivered {obs['ncp_up'].count(pl[i])} times"
        return None

    def small_scopes(self, rep, depth):
        import itertools
        acts = ["deliver", "drop", "corrupt", "dup"]
        n = 0
        for window in (1, 2, 3):
            for a in itertools.product(acts, repeat=depth):
                if all(x == "deliver" for x in a):
                    continue
                for direction in ("n2h", "h2n"):
                    obs = run_assignment(window, 3, 2, a if direction == "n2h" else (), a if direction == "h2n" else ())
                    n += 1
                    why = self.judge(obs)
                    if why:
                        rep.violation({"input": {"window": window, "ncp_submits": 3, "host_submits": 2, "faulty_line": direction,
                                                 "assignment": list(a)},
                                       "observed": obs, "required": why,
                                       "how": "exhaustive fault assignment on a small scenario, judged end to end"},
                                      found_input=True, signature="link:" + why[:50])
                        return n
        # stalls past the acknowledgement timeout (the held frame is overtaken by nothing: the line is FIFO, but the
        # retransmissions it provokes leave stale acknowledgements in the queue) combined with losses on the other line
        quick = depth <= 4
        for window in ((1, 3) if quick else (1, 2, 3)):
            for a in itertools.product(["deliver", "stall", "stall2"], repeat=3 if quick else 4):
                if all(x == "deliver" for x in a):
                    continue
                for b in itertools.product(["deliver", "drop"], repeat=4 if quick else 6):
                    for (n2h, h2n) in ((a, b), (b, a)):
                        obs = run_assignment(window, 2, 5, n2h, h2n)
                        n += 1
                        why = self.judge(obs)
                        if why:
                            rep.violation({"input": {"window": window, "ncp_submits": 2, "host_submits": 5,
                                                     "assignment_ncp_to_host": list(n2h), "assignment_host_to_ncp": list(h2n)},
                                           "observed": obs, "required": why,
                                           "how": "exhaustive stall x loss assignment on a small scenario, judged end to end"},
                                          found_input=True, signature="link:" + why[:50])
                            return n
        # payloads that repeat: two byte-identical callbacks of the NCP back to back (two equal stack-status events) are two
        # sends and are handed up twice, whatever happens to their transmissions
        A, B = bytes([0xC1, 0x90, 0x19, 0x90]), bytes([0xC2, 0x90, 0x19, 0x91])
        for window in (1, 2, 3):
            for pls in ([A, A, B], [B, A, A], [A, A, A]):
                for a in itertools.product(acts, repeat=min(depth, 4)):
                    obs = run_assignment(window, 3, 0, a, (), ncp_payloads=pls)
                    n += 1
                    why = None
                    if "crash" in obs:
                        why = f"raised {obs['crash']}"
                    elif obs["host_up"] != [p.hex() for p in pls][:len(obs["host_up"])]:
                        why = f"host-side deliveries {obs['host_up']} are not an in-order prefix of what the NCP submitted"
                    elif obs.get("ncp_acked_all") and len(obs["host_up"]) != 3:
                        why = (f"the NCP's three sends (payloads {[p.hex() for p in pls]}) all completed but {len(obs['host_up'])} "
                               f"payloads were handed up on the host side: {obs['host_up']}")
                    if why:
                        rep.violation({"input": {"window": window, "ncp_payloads": [p.hex() for p in pls], "faulty_line": "n2h",
                                                 "assignment": list(a)},
                                       "observed": obs, "required": why,
                                       "how": "exhaustive fault assignment with repeating payloads, judged end to end"},
                                      found_input=True, signature="link:repeating-payloads")
                        return n
        # retry-budget boundary: every mix of lost and detectably corrupted transmissions of the first frames
        # (up to the whole budget of one frame and into the next), both directions
        for ln in range(depth + 1, 8):
            for a in itertools.product(["drop", "corrupt"], repeat=ln):
                for direction in ("n2h", "h2n"):
                    obs = run_assignment(1, 2, 2, a if direction == "n2h" else (), a if direction == "h2n" else ())
                    n += 1
                    why = self.judge(obs)
                    if why:
                        rep.violation({"input": {"window": 1, "ncp_submits": 2, "host_submits": 2, "faulty_line": direction,
                                                 "assignment": list(a)},
                                       "observed": obs, "required": why,
                                       "how": "exhaustive loss/corruption assignment around the retry budget, judged end to end"},
                                      found_input=True, signature="link:" + why[:50])
                        return n
        return n

    def extra_checks(self, rep, tier, rng):
        rep.cov["run_statistics"] = dict(getattr(self, "stats", {}))
        depth = 4 if tier == "quick" else 6
        rep.cov["small_scope_fault_assignments"] = self.small_scopes(rep, depth)
        rep.cov["small_scope_depth"] = depth

    def nontrivial(self, case, obs):
        return case["fault"] > 0

    def signature(self, case, obs, why):
        return "link:" + why[:50]
