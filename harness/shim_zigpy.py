"""zigpy.util.Requests shim.

bellows at the pinned commit was written against a zigpy that ships zigpy.util.Request/Requests;
the zigpy installed in /venv no longer has them (which is why tests/test_application.py is outside
the 254-test baseline).  This is a re-implementation of that small class, installed before
bellows.zigbee.application is imported.  It is part of the trusted base of C12/C13/C14/C17/C19.
"""
import asyncio

import zigpy.util


class Request:
    def __init__(self, pending, sequence):
        self._pending = pending
        self._result = asyncio.get_running_loop().create_future() if _running() else asyncio.Future()
        self._sequence = sequence

    @property
    def result(self):
        return self._result

    @property
    def sequence(self):
        return self._sequence

    def __enter__(self):
        return self

    def __exit__(self, exc_type, exc_value, exc_traceback):
        if not self.result.done():
            self.result.cancel()
        self._pending.pop(self.sequence)
        return not exc_type


def _running():
    try:
        asyncio.get_running_loop()
        return True
    except RuntimeError:
        return False


class Requests(dict):
    def new(self, sequence):
        if sequence in self:
            from zigpy.exceptions import ControllerException
            raise ControllerException(f"duplicate {sequence} TSN")
        req = self[sequence] = Request(self, sequence)
        return req


def install():
    if not hasattr(zigpy.util, "Requests"):
        zigpy.util.Request = Request
        zigpy.util.Requests = Requests
