"""probe: does the race model agree with the real code? (development helper; merged into c05.py afterwards)"""
import asyncio, itertools, sys, logging
logging.disable(logging.CRITICAL)
import c05, vloop, common
from c03 import to_impl_frame


def race(d, frs):
    lp = d.loop
    lp.settle()
    nd = lp.next_deadline()
    if nd is None:
        return False
    lp._vt = max(lp._vt, nd)
    lp.call_soon(lambda: [d.proto.frame_received(to_impl_frame(fr)) for fr in frs])
    lp.call_soon(lp.stop)
    lp.run_forever()
    lp.settle()
    d._end_step(("race", list(frs)))
    return True


RACES = ["r_ack", "r_nak", "r_stale", "r_error", "r_dataack", "r_rstack"]


def run(script, nsends=1, warm=0):
    d = c05.Driver()
    try:
        for w in range(warm):
            d.submit(100 + w, bytes([0x70 + w, 0xEE]))
            d.frames([("ACK", 0, 0, (d.pending_frm() + 1) % 8)])
        for i in range(nsends):
            d.submit(i, bytes([0x10 + i, i]))
        k = 0
        guard = 0
        while d.outstanding() and guard < 60:
            guard += 1
            r = script[k] if k < len(script) else "ack"
            k += 1
            frm = d.pending_frm()
            if frm is None:
                if d.loop.next_deadline() is not None:
                    d.tick()
                else:
                    break
                continue
            if r == "ack":
                d.frames([("ACK", 0, 0, (frm + 1) % 8)])
            elif r == "silence":
                d.tick()
            elif r == "nak":
                d.frames([("NAK", 0, 0, frm)])
            elif r == "r_ack":
                race(d, [("ACK", 0, 0, (frm + 1) % 8)])
            elif r == "r_nak":
                race(d, [("NAK", 0, 0, frm)])
            elif r == "r_stale":
                race(d, [("ACK", 0, 0, frm)])
            elif r == "r_error":
                race(d, [("ERROR", 2, 0x52)])
            elif r == "r_dataack":
                race(d, [("DATA", d.proto._rx_seq, 0, (frm + 1) % 8, b"\x01")])
            elif r == "r_rstack":
                race(d, [("RSTACK", 2, 11)])
        return {"events": d.events, "steps": [[c05._j(e) for e in st] for st in d.steps], "final": d.final()}
    finally:
        d.close()


def model_events(evs):
    chk = c05.Check()
    out = []
    for e in evs:
        if e[0] == "race":
            fs = chk.model_input({"_events": [("frames", e[1])]})[1:-1]       # "Frames [..]"
            out.append("RRace " + fs[len("Frames "):])
        else:
            out.append("REv (" + chk.model_input({"_events": [e]})[1:-1] + ")")
    return "[" + "; ".join(out) + "]"


if __name__ == "__main__":
    cases = []
    meta = []
    allr = ["ack", "silence", "nak"] + RACES
    for n in range(1, 4):
        for s in itertools.product(allr, repeat=n):
            if any(x.startswith("r_") for x in s):
                for ns in (1, 2):
                    o = run(list(s), ns, warm=(7 if n == 1 else 0))
                    cases.append((model_events(o["events"]), c05.enc_steps(o["steps"]) + o["final"]))
                    meta.append((list(s), ns, 7 if n == 1 else 0))
    print(len(cases), "cases")
    bad = common.run_cases_in_coq("C05R", ["gen.GenAsh", "model.AshCodec", "model.AshRx", "model.AshHost", "model.AshRace"],
                                  "run_race_case", cases, shard=200, in_ty="(list revent)", preamble="From Coq Require Import PrimFloat.")
    print("bad:", len(bad[0]), bad[0][:20])
    for i in bad[0][:3]:
        print("=====", meta[i])
        debug(*meta[i])


def debug(script, ns=1, warm=0):
    o = run(script, ns, warm)
    for e, s in zip(o["events"], o["steps"]):
        print(e, s)
    print("final", o["final"])
    print("impl z:", c05.enc_steps(o["steps"]) + o["final"])
    print(model_events(o["events"]))
    print(common.eval_in_coq(["gen.GenAsh", "model.AshCodec", "model.AshRx", "model.AshHost", "model.AshRace"],
                             ["run_race_case " + model_events(o["events"])], preamble="From Coq Require Import PrimFloat."))
