"""C03: ASH wire layout -- real frame classes / parse_frame / stuffing / _write_frame vs the Coq codec,
with an independent Python encoder (ashref) as the property oracle."""
import itertools

import ashref
from framework import PropertyCheck

TAG = {"DATA": 0, "ACK": 1, "NAK": 2, "RST": 3, "RSTACK": 4, "ERROR": 5}


def fields_of(fr):
    k = fr[0]
    if k == "DATA":
        return [0, fr[1], fr[2], fr[3]], bytes(fr[4])
    if k in ("ACK", "NAK"):
        return [TAG[k], fr[1], fr[2], fr[3]], b""
    if k == "RST":
        return [3], b""
    return [TAG[k], fr[1], fr[2]], b""


def to_impl_frame(fr):
    import bellows.ash as ash
    import bellows.types as t
    k = fr[0]
    if k == "DATA":
        return ash.DataFrame(frm_num=fr[1], re_tx=fr[2], ack_num=fr[3], ezsp_frame=bytes(fr[4]))
    if k == "ACK":
        return ash.AckFrame(res=fr[1], ncp_ready=fr[2], ack_num=fr[3])
    if k == "NAK":
        return ash.NakFrame(res=fr[1], ncp_ready=fr[2], ack_num=fr[3])
    if k == "RST":
        return ash.RstFrame()
    cls = ash.RStackFrame if k == "RSTACK" else ash.ErrorFrame
    return cls(version=fr[1], reset_code=t.NcpResetCode(fr[2]))


def from_impl_frame(f):
    import bellows.ash as ash
    if isinstance(f, ash.DataFrame):
        return ("DATA", int(f.frm_num), int(f.re_tx), int(f.ack_num), bytes(f.ezsp_frame))
    if isinstance(f, ash.AckFrame):
        return ("ACK", int(f.res), int(f.ncp_ready), int(f.ack_num))
    if isinstance(f, ash.NakFrame):
        return ("NAK", int(f.res), int(f.ncp_ready), int(f.ack_num))
    if isinstance(f, ash.RstFrame):
        return ("RST",)
    if isinstance(f, ash.RStackFrame):
        return ("RSTACK", int(f.version), int(f.reset_code))
    if isinstance(f, ash.ErrorFrame):
        return ("ERROR", int(f.version), int(f.reset_code))
    raise TypeError(f)


def enc_frame_z(fr):
    if fr is None:
        return [-1]
    f, p = fields_of(fr)
    if fr[0] == "DATA":
        return f + [len(p)] + list(p)
    return f


def payload_classes(n, rng):
    res = [0x7E, 0x7D, 0x11, 0x13, 0x18, 0x1A]
    # the last class: reserved on the WIRE (after randomisation), so that every data byte is escaped -- the stuffed
    # frame is about twice as long as the frame itself
    return [bytes(n), bytes(res[i % 6] for i in range(n)), bytes(i % 256 for i in range(n)),
            bytes(rng.randrange(256) for _ in range(n)), bytes(res[i % 6] ^ ashref.SEQ[i % 256] for i in range(n))]


class Check(PropertyCheck):
    pid = "C03"
    gen_files = ["GenAsh", "GenAshFn"]
    model_imports = ["gen.GenAsh", "model.AshCodec"]
    run_expr = "run_codec_case"
    case_type = "(N * list N * list N)"
    shard = 250
    rule = ("kinds: encode (to_bytes), parse (parse_frame on unstuffed bytes), rxwire (wire bytes of long / heavily escaped DATA frames through data_received), stuff, unstuff, write (_write_frame on a fake "
            "transport), crc (binascii.crc_hqx). Frames: all control-field values of every class, all 256 reset codes, payload "
            "lengths 0..200 in five content classes (zeros, all reserved bytes, ramp, random, reserved on the wire i.e. after randomisation); parse inputs: all 256 control bytes "
            "x body lengths, truncations, all 1- and 2-bit corruptions of short frames; non-trivial = not the empty input; "
            "distinct by (kind, input)")
    assumptions = ["binascii.crc_hqx (C library) is compared with the bitwise CRC on every case, not verified"]

    def setup(self):
        import bellows.ash as ash

        class Tr:
            def __init__(self):
                self.w = bytearray()

            def write(self, d):
                self.w += d

            def is_closing(self):
                return False
        self.ash = ash
        self.Tr = Tr

    def build_cases(self, tier, rng):
        cases = []
        frames = []
        # DATA: every control-field value, short payloads; then every length in 4 content classes
        for frm, re, ack in itertools.product(range(8), range(2), range(8)):
            frames.append(("DATA", frm, re, ack, bytes(rng.randrange(256) for _ in range(rng.randrange(0, 6)))))
        step = 1 if tier == "thorough" else 1
        for n in range(0, 201, step):
            cls = payload_classes(n, rng)
            pick = cls if (tier == "thorough" or n % 8 == 0 or n > 190) else [cls[n % 5]]
            for p in pick:
                frames.append(("DATA", rng.randrange(8), rng.randrange(2), rng.randrange(8), p))
        frames.append(("DATA", 7, 1, 7, bytes(rng.randrange(256) for _ in range(256))))
        for k in ("ACK", "NAK"):
            for res, nrdy, ack in itertools.product(range(2), range(2), range(8)):
                frames.append((k, res, nrdy, ack))
        frames.append(("RST",))
        for code in range(256):
            frames.append(("RSTACK", 2, code))
            frames.append(("ERROR", 2, code))
        for fr in frames:
            cases.append(("encode", fr))
            cases.append(("parse", ashref.encode(fr)))
        # the receive path on WIRE bytes (stuffed, flag-terminated): parsing is the inverse of encoding for what is on the
        # wire too, however many bytes of the frame had to be escaped
        for fr in frames:
            if fr[0] == "DATA" and (len(fr[4]) >= 100 or len(fr[4]) % 16 == 0):
                cases.append(("rxwire", fr))
        for fr in frames[::7] + frames[:40]:
            cases.append(("write", (rng.random() < 0.3, fr)))
        # classification: all 256 control bytes with a valid CRC and body lengths 0..3, 257
        for ctrl in range(256):
            for n in (0, 1, 2, 3):
                body = bytes([ctrl]) + bytes(rng.randrange(256) for _ in range(n))
                if n == 2 and rng.random() < 0.7:
                    body = bytes([ctrl, 2, rng.randrange(256)])
                cases.append(("parse", ashref.with_crc(body)))
            cases.append(("parse", bytes([ctrl])))
            cases.append(("parse", bytes([ctrl, rng.randrange(256)])))
        cases.append(("parse", b""))
        cases.append(("parse", ashref.with_crc(bytes([0x25]) + bytes(257))))
        cases.append(("parse", ashref.with_crc(bytes([0x25]) + bytes(256))))
        cases.append(("parse", ashref.with_crc(bytes([0xC1, 3, 11]))))
        # all 1- and 2-bit corruptions of short frames (before stuffing)
        maxlen = 8 if tier == "quick" else 14
        shorts = [ashref.encode(("RST",)), ashref.encode(("ACK", 0, 0, 3)), ashref.encode(("RSTACK", 2, 11)),
                  ashref.encode(("DATA", 2, 0, 5, b"\x00\x7e\x11")), ashref.encode(("NAK", 0, 1, 6)),
                  ashref.encode(("DATA", 7, 1, 0, bytes(rng.randrange(256) for _ in range(maxlen - 3))))]
        for raw in shorts:
            nb = len(raw) * 8
            for i in range(nb):
                cases.append(("parse", _flip(raw, [i])))
            pairs = list(itertools.combinations(range(nb), 2))
            if tier == "quick" and len(pairs) > 700:
                pairs = rng.sample(pairs, 700)
            for i, j in pairs:
                cases.append(("parse", _flip(raw, [i, j])))
        # the CRC is big-endian: a frame with its two CRC bytes exchanged is (unless they are equal) not a frame; and every
        # 1- and 2-bit corruption confined to the CRC bytes, for every ACK / NAK value and a spread of reset codes
        ctl = [("ACK", r, n, a) for r in range(2) for n in range(2) for a in range(8)] \
            + [("NAK", r, n, a) for r in range(2) for n in range(2) for a in range(8)] + [("RST",)] \
            + [(k, 2, c) for k in ("RSTACK", "ERROR") for c in (range(256) if tier == "thorough" else range(0, 256, 5))]
        for fr in ctl + [f for f in frames if f[0] == "DATA"][::9]:
            raw = ashref.encode(fr)
            cases.append(("parse", raw[:-2] + raw[-1:] + raw[-2:-1]))
            if (fr[0] in ("ACK", "NAK", "RST") and (tier == "thorough" or fr[1:3] in ((0, 0), (1, 1), ()))) or tier == "thorough":
                nb = len(raw) * 8
                for i, j in itertools.combinations(range(nb - 16, nb), 2):
                    cases.append(("parse", _flip(raw, [i, j])))
        # stuffing
        for n in list(range(0, 12)) + [50, 200]:
            for p in payload_classes(n, rng):
                cases.append(("stuff", p))
                cases.append(("unstuff", ashref.stuff(p)))
        for _ in range(300 if tier == "quick" else 3000):
            n = rng.randrange(0, 10)
            cases.append(("unstuff", bytes(rng.choice([0x7D, 0x7D, 0x5E, 0x5D, 0x31, 0x33, 0x38, 0x3A, 0xAB, 0x00, 0x7E])
                                           for _ in range(n))))
        for _ in range(100 if tier == "quick" else 1000):
            cases.append(("crc", bytes(rng.randrange(256) for _ in range(rng.randrange(0, 40)))))
        cases.append(("crc", b"\xC0"))
        return cases

    def run_impl(self, case):
        kind, x = case
        ash = self.ash
        try:
            if kind == "encode":
                return {"bytes": to_impl_frame(x).to_bytes().hex()}
            if kind == "parse":
                try:
                    return {"frame": from_impl_frame(ash.parse_frame(bytes(x)))}
                except Exception as e:  # the receive loop catches Exception and NAKs
                    return {"frame": None, "exc": type(e).__name__}
            if kind == "rxwire":
                import ashrun
                p, rec = ashrun.new_protocol()
                p._rx_seq = x[1]
                p.data_received(ashref.wire(x))
                return {"events": [list(e) if not isinstance(e[1], bytes) else [e[0], e[1].hex()] for e in ashrun.rx_events(rec.log)]}
            if kind == "stuff":
                return {"bytes": bytes(ash.AshProtocol._stuff_bytes(bytes(x))).hex()}
            if kind == "unstuff":
                try:
                    return {"bytes": bytes(ash.AshProtocol._unstuff_bytes(bytes(x))).hex()}
                except ash.ParsingError:
                    return {"bytes": None}
            if kind == "write":
                cancel, fr = x
                p = ash.AshProtocol(None)
                p._transport = self.Tr()
                p._write_frame(to_impl_frame(fr), prefix=(ash.Reserved.CANCEL,) if cancel else ())
                return {"bytes": bytes(p._transport.w).hex()}
            if kind == "crc":
                return {"bytes": ash.AshFrame.append_crc(bytes(x))[-2:].hex()}
        except BaseException as e:  # noqa
            return {"crash": repr(e)}

    def describe(self, case):
        kind, x = case
        if kind in ("encode", "rxwire"):
            return [kind, _jsonable(x)]
        if kind == "write":
            return [kind, x[0], _jsonable(x[1])]
        return [kind, bytes(x).hex()]

    def model_input(self, case):
        kind, x = case
        if kind == "rxwire":
            return None      # judged by the predicate (the byte-level receive path is C02's model)
        def bl(b):
            return "[" + ";".join(str(v) for v in b) + "]"
        if kind == "encode":
            f, p = fields_of(x)
            return f"(0, {bl(f)}, {bl(p)})"
        if kind == "write":
            f, p = fields_of(x[1])
            return f"(4, {bl([1 if x[0] else 0] + f)}, {bl(p)})"
        k = {"parse": 1, "stuff": 2, "unstuff": 3, "crc": 5}[kind]
        return f"({k}, [], {bl(x)})"

    def obs_to_z(self, case, obs):
        kind, x = case
        if "crash" in obs:
            return [-99]
        if kind == "parse":
            return enc_frame_z(obs["frame"])
        if kind == "unstuff":
            if obs["bytes"] is None:
                return [-1]
            b = bytes.fromhex(obs["bytes"])
            return [len(b)] + list(b)
        if kind == "crc":
            b = bytes.fromhex(obs["bytes"])
            return [b[0] * 256 + b[1]]
        return list(bytes.fromhex(obs["bytes"]))

    def monitor(self, case, obs):
        kind, x = case
        if "crash" in obs:
            return f"{kind}: unexpected exception {obs['crash']}"
        if kind == "rxwire":
            want = [["ack", (x[1] + 1) % 8], ["up", bytes(x[4]).hex()]]
            if obs["events"] != want:
                w = ashref.wire(x)
                return (f"a correctly encoded DATA frame ({len(x[4])} data bytes, {len(w)} bytes on the wire) fed to the receive "
                        f"path gave {obs['events'][:3]} instead of ACK + the payload")
            return None
        if kind == "encode":
            want = ashref.encode(x)
            if bytes.fromhex(obs["bytes"]) != want:
                return f"to_bytes differs from the specified layout: {obs['bytes']} vs {want.hex()}"
        elif kind == "parse":
            want = ashref.decode(bytes(x))
            if obs["frame"] != want:
                return f"parse_frame gives {obs['frame']!r}, the specification gives {want!r}"
        elif kind == "stuff":
            want = ashref.stuff(bytes(x))
            got = bytes.fromhex(obs["bytes"])
            if got != want:
                return "stuffed output differs from the specification"
            if any(b in ashref.RESERVED and b != ashref.ESC for b in got):
                return "stuffed output contains a reserved byte other than ESC"
        elif kind == "unstuff":
            want = ashref.unstuff(bytes(x))
            got = None if obs["bytes"] is None else bytes.fromhex(obs["bytes"])
            if got != want:
                return f"unstuff gives {got!r}, the specification gives {want!r}"
        elif kind == "write":
            want = ashref.wire(x[1], prefix=bytes([ashref.CANCEL]) if x[0] else b"")
            if bytes.fromhex(obs["bytes"]) != want:
                return f"bytes written {obs['bytes']} differ from the specified {want.hex()}"
        elif kind == "crc":
            c = ashref.crc_ccitt(bytes(x))
            if bytes.fromhex(obs["bytes"]) != bytes([c >> 8, c & 0xFF]):
                return "CRC differs from CRC-CCITT(0xFFFF), big endian"
        return None

    def nontrivial(self, case, obs):
        return case[1] not in (b"", ())

    def signature(self, case, obs, why):
        return f"codec:{case[0]}:{why[:40]}"


def _flip(raw, bits):
    b = bytearray(raw)
    for i in bits:
        b[i // 8] ^= 0x80 >> (i % 8)
    return bytes(b)


def _jsonable(fr):
    return [v.hex() if isinstance(v, (bytes, bytearray)) else v for v in fr]
