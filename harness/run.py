import importlib
import sys

import logging

logging.disable(logging.CRITICAL)
logging.lastResort = None

import framework  # noqa: E402


def main():
    pid, tier = sys.argv[1], sys.argv[2]
    mod = importlib.import_module(pid.lower())
    chk = mod.Check()
    if hasattr(mod, "main"):
        sys.exit(mod.main(chk, tier, sys.argv[3:]))
    if "--replay" in sys.argv:
        sys.exit(replay(chk, sys.argv[sys.argv.index("--replay") + 1]))
    try:
        rc = framework.run_check(chk, tier)
    except Exception as e:  # noqa
        # last resort: the check itself broke (a shape of the implementation's output that no driver path expected).
        # The property is then not shown to hold: report it as an unchecked obligation instead of dying silently.
        import traceback
        import common
        tb = traceback.format_exc()
        path = common.write_replay(pid, {"property": pid, "kind": "unchecked-obligation",
                                         "broken": "the check could not be completed: " + repr(e), "detail": tb[-3000:]})
        print(f"VIOLATION property={pid} replay={path} no-failing-input-found", flush=True)
        rc = 1
    sys.exit(rc)


def replay(chk, path):
    """re-run one recorded input against the implementation only and judge it with the property predicate"""
    import json
    payload = json.load(open(path))
    if "input" not in payload or payload.get("input") is None:
        print(f"replay {path}: no concrete input recorded ({payload.get('broken') or payload.get('correspondence')})")
        return 2
    chk.setup()
    try:
        case = chk.case_from_json(payload["input"])
        obs = chk.run_impl(case)
        why = chk.monitor(case, obs)
    except Exception as e:  # noqa
        print(f"replay {path}: this input shape cannot be replayed directly ({e!r})")
        return 2
    finally:
        chk.teardown()
    if why:
        print(f"VIOLATION property={chk.pid} replay={path}")
        print("  " + why)
        return 1
    print(f"OK property={chk.pid} replay={path} holds on the current tree")
    return 0


if __name__ == "__main__":
    main()
