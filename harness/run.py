import importlib
import sys

import logging

logging.disable(logging.CRITICAL)
logging.lastResort = None

import framework  # noqa: E402


def main():
    pid, tier = sys.argv[1], sys.argv[2]
    mod = importlib.import_module(pid.lower())
    chk = mod.Check()
    if hasattr(mod, "main"):
        sys.exit(mod.main(chk, tier, sys.argv[3:]))
    sys.exit(framework.run_check(chk, tier))


if __name__ == "__main__":
    main()
