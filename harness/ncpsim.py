"""Command-level NCP simulator for C14: a stateful stand-in for EmberZNet firmware that answers the EZSP
commands used by write_network_info / reset_network_info / load_network_info in every protocol version.
It is an ASSUMPTION about firmware behaviour (see DESIGN.md, C14), written from the EZSP reference:
security state, key table, child table, frame counters, tokens, network state with stack-status callbacks."""
from __future__ import annotations

import asyncio


class NcpSim:
    def __init__(self, ez, version, *, nv3_eui64=True, key_table_size=12, eui64=None):
        import bellows.types as t
        self.t = t
        self.ez = ez
        self.version = version
        self.v14 = version >= 14
        self.factory_eui64 = eui64 or t.EUI64.convert("00:0d:6f:00:0a:90:69:e7")
        self.eui64 = self.factory_eui64     # the address in use: taken from the tokens at boot
        self.nv3_eui64 = nv3_eui64            # rewritable NV3 token for the EUI64 present?
        self.nv3_value = None
        self.config = {int(t.EzspConfigId.CONFIG_KEY_TABLE_SIZE): key_table_size,
                       int(t.EzspConfigId.CONFIG_ADDRESS_TABLE_SIZE): 4,
                       int(t.EzspConfigId.CONFIG_SECURITY_LEVEL): 5}
        self.values = {}
        self.log = []
        # non-volatile state
        self.network = None                   # EmberNetworkParameters once formed / joined
        self.security = None                  # EmberInitialSecurityState as set
        self.nwk_fc = 0
        self.aps_fc = 0
        self.key_table = {}                   # index -> (eui64, key)
        self.children = {}                    # index -> (eui64, nwk)
        self.stack_up = False
        self.staged_nwk_fc = None
        self.staged_aps_fc = None

    # ---- helpers ------------------------------------------------------------------------------------
    def st(self, ok=True, *, ember_code=None):
        t = self.t
        if self.v14:
            return t.sl_Status.OK if ok else t.sl_Status.FAIL
        return t.EmberStatus.SUCCESS if ok else (ember_code or t.EmberStatus.ERR_FATAL)

    def emit_status(self, up):
        t = self.t
        arg = (t.sl_Status.NETWORK_UP if up else t.sl_Status.NETWORK_DOWN) if self.v14 else \
            (t.EmberStatus.NETWORK_UP if up else t.EmberStatus.NETWORK_DOWN)
        asyncio.get_running_loop().call_soon(self.ez.handle_callback, "stackStatusHandler", [arg])

    def reboot(self):
        """RST: volatile state lost, non-volatile kept"""
        self.stack_up = False
        self.log.append(("reboot",))
        # RAM state: values set with setValue, frame counters staged for a network that does not exist yet and a security
        # state set but not yet used by formNetwork do not survive a reset (the library re-sends its configuration after
        # every reset for the same reason); what a formed network stored in the tokens does
        self.values = {}
        self.staged_nwk_fc = None
        self.staged_aps_fc = None
        if self.network is None:
            self.security = None
        # the EUI64 is read from the tokens at boot: the rewritable NV3 token if it holds an address, else the factory one
        nv = getattr(self, "nv3_value", None)
        if self.nv3_eui64 and nv is not None and bytes(nv) != b"\xff" * 8:
            self.eui64, _ = self.t.EUI64.deserialize(bytes(nv))
        else:
            self.eui64 = self.factory_eui64

    def bind(self, name, args, kwargs):
        tx = self.ez._protocol.COMMANDS[name][1]
        keys = list(tx.keys()) if isinstance(tx, dict) else []
        d = dict(zip(keys, args))
        d.update(kwargs)
        return d

    # ---- dispatch -----------------------------------------------------------------------------------
    async def command(self, name, *args, **kwargs):
        a = self.bind(name, args, kwargs)
        self.log.append((name, a))
        h = getattr(self, "c_" + name, None)
        if h is None:
            raise NotImplementedError(f"NcpSim: command {name} not simulated")
        await asyncio.sleep(0)
        return h(a)

    # configuration / values / tokens
    def c_getConfigurationValue(self, a):
        v = self.config.get(int(a["configId"]))
        if v is None:
            return [self.t.EzspStatus.ERROR_INVALID_ID if not self.v14 else self.t.sl_Status.INVALID_PARAMETER, 0]
        return [self.t.EzspStatus.SUCCESS if not self.v14 else self.t.sl_Status.OK, self.t.uint16_t(v)]

    def c_setConfigurationValue(self, a):
        self.config[int(a["configId"])] = int(a["value"])
        return [self.t.EzspStatus.SUCCESS if not self.v14 else self.t.sl_Status.OK]

    def c_getValue(self, a):
        t = self.t
        vid = int(a["valueId"])
        ok = t.EzspStatus.SUCCESS if not self.v14 else t.sl_Status.OK
        if vid == int(t.EzspValueId.VALUE_VERSION_INFO):
            return [ok, bytes([0x2c, 0x01, 7, 4, 1, 0, 0])]
        if vid == int(t.EzspValueId.VALUE_FREE_BUFFERS):
            return [ok, b"\xf0"]
        return [ok, self.values.get(vid, b"\x00")]

    def c_setValue(self, a):
        t = self.t
        vid = int(a["valueId"])
        raw = bytes(a["value"])
        self.values[vid] = raw
        if vid == int(t.EzspValueId.VALUE_NWK_FRAME_COUNTER):
            if self.network is None:
                self.staged_nwk_fc = int.from_bytes(raw, "little")     # taken over when the network is formed
            else:
                self.nwk_fc = int.from_bytes(raw, "little")
        elif vid == int(t.EzspValueId.VALUE_APS_FRAME_COUNTER):
            if self.network is None:
                self.staged_aps_fc = int.from_bytes(raw, "little")
            else:
                self.aps_fc = int.from_bytes(raw, "little")
        return [t.EzspStatus.SUCCESS if not self.v14 else t.sl_Status.OK]

    def c_getMfgToken(self, a):
        t = self.t
        tok = int(a["tokenId"])
        if tok == int(t.EzspMfgTokenId.MFG_STRING):
            return [b"Sim Labs\xff\xff"]
        if tok == int(t.EzspMfgTokenId.MFG_BOARD_NAME):
            return [b"SIM-1\xff\xff"]
        if tok == int(t.EzspMfgTokenId.MFG_CUSTOM_EUI_64):
            return [b"\xff" * 8]
        return [b""]

    def c_getTokenData(self, a):
        t = self.t
        rsp_cls = self.ez._protocol.COMMANDS["getTokenData"][2]
        ok = self.nv3_eui64 and int(a["token"]) == int(t.NV3KeyId.CREATOR_STACK_RESTORED_EUI64)
        if ok:
            val = self.nv3_value if self.nv3_value is not None else b"\xff" * 8
            return rsp_cls(status=self.st(True), value=t.LVBytes32(val))
        return rsp_cls(status=self.st(False), value=None)

    def c_setTokenData(self, a):
        data = bytes(a["token_data"])
        self.nv3_value = data           # takes effect at the next boot
        return [self.st(True)]

    def c_getEui64(self, a):
        return [self.eui64]

    def c_getNodeId(self, a):
        return [self.t.EmberNodeId(0x0000 if self.network is not None else 0xFFFE)]

    # stack / network
    def c_networkState(self, a):
        t = self.t
        return [t.EmberNetworkStatus.JOINED_NETWORK if self.stack_up else t.EmberNetworkStatus.NO_NETWORK]

    def _init(self):
        t = self.t
        if self.network is None:
            return [t.sl_Status.NOT_JOINED if self.v14 else t.EmberStatus.NOT_JOINED]
        self.stack_up = True
        self.emit_status(True)
        return [self.st(True)]

    def c_networkInit(self, a):
        return self._init()

    def c_networkInitExtended(self, a):
        return self._init()

    def c_leaveNetwork(self, a):
        self.network = None
        self.stack_up = False
        self.security = None
        self.children = {}          # the child table belongs to the network that is left
        self.emit_status(False)
        return [self.st(True)]

    def c_formNetwork(self, a):
        if self.security is None:
            return [self.st(False)]
        self.network = a["parameters"]
        if getattr(self, "staged_nwk_fc", None) is not None:
            self.nwk_fc, self.staged_nwk_fc = self.staged_nwk_fc, None
        if getattr(self, "staged_aps_fc", None) is not None:
            self.aps_fc, self.staged_aps_fc = self.staged_aps_fc, None
        self.stack_up = True
        self.emit_status(True)
        return [self.st(True)]

    def c_getNetworkParameters(self, a):
        t = self.t
        if self.network is None:
            return [self.st(False), t.EmberNodeType.UNKNOWN_DEVICE, t.EmberNetworkParameters()]
        return [self.st(True), t.EmberNodeType.COORDINATOR, self.network]

    # security
    def c_setInitialSecurityState(self, a):
        self.security = a["state"]
        # the stack resets its outgoing frame counters (NWK and APS) at this call unless NO_FRAME_COUNTER_RESET is set
        # (documented with the bit in bellows/types/named.py, from the EmberZNet API reference)
        if self.t.EmberInitialSecurityBitmask.NO_FRAME_COUNTER_RESET not in a["state"].bitmask:
            self.staged_nwk_fc = self.staged_aps_fc = None
            self.nwk_fc = self.aps_fc = 0
        return [self.st(True)]

    def c_getCurrentSecurityState(self, a):
        t = self.t
        cur = t.EmberCurrentSecurityState()
        bm = t.EmberCurrentSecurityBitmask(0)
        if self.security is not None:
            ib = self.security.bitmask
            if t.EmberInitialSecurityBitmask.TRUST_CENTER_USES_HASHED_LINK_KEY in ib:
                bm |= t.EmberCurrentSecurityBitmask.TRUST_CENTER_USES_HASHED_LINK_KEY
            if t.EmberInitialSecurityBitmask.TRUST_CENTER_GLOBAL_LINK_KEY in ib:
                bm |= t.EmberCurrentSecurityBitmask.GLOBAL_LINK_KEY
            if t.EmberInitialSecurityBitmask.HAVE_TRUST_CENTER_EUI64 in ib:
                bm |= t.EmberCurrentSecurityBitmask.HAVE_TRUST_CENTER_LINK_KEY
            cur.trustCenterLongAddress = self.security.preconfiguredTrustCenterEui64
        else:
            cur.trustCenterLongAddress = t.EUI64.convert("00:00:00:00:00:00:00:00")
        cur.bitmask = bm
        return [self.st(True), cur]

    def c_getKey(self, a):
        t = self.t
        kt = a["keyType"]
        ks = t.EmberKeyStruct()
        if self.security is None:
            return [t.EmberStatus.KEY_INVALID if hasattr(t.EmberStatus, "KEY_INVALID") else t.EmberStatus.ERR_FATAL, ks]
        if kt == t.EmberKeyType.CURRENT_NETWORK_KEY:
            ks.bitmask = (t.EmberKeyStructBitmask.KEY_HAS_SEQUENCE_NUMBER
                          | t.EmberKeyStructBitmask.KEY_HAS_OUTGOING_FRAME_COUNTER)
            ks.type = t.EmberKeyType.CURRENT_NETWORK_KEY
            ks.key = self.security.networkKey
            ks.outgoingFrameCounter = t.uint32_t(self.nwk_fc)
            ks.incomingFrameCounter = t.uint32_t(0)
            ks.sequenceNumber = t.uint8_t(self.security.networkKeySequenceNumber)
            ks.partnerEUI64 = t.EUI64.convert("00:00:00:00:00:00:00:00")
        else:
            ks.bitmask = (t.EmberKeyStructBitmask.KEY_HAS_OUTGOING_FRAME_COUNTER
                          | t.EmberKeyStructBitmask.KEY_HAS_PARTNER_EUI64)
            ks.type = t.EmberKeyType.TRUST_CENTER_LINK_KEY
            ks.key = self.security.preconfiguredKey
            ks.outgoingFrameCounter = t.uint32_t(self.aps_fc)
            ks.incomingFrameCounter = t.uint32_t(0)
            ks.sequenceNumber = t.uint8_t(0)
            ks.partnerEUI64 = t.EUI64.convert("ff:ff:ff:ff:ff:ff:ff:ff")
        return [t.EmberStatus.SUCCESS, ks]

    def c_exportKey(self, a):
        t = self.t
        ctx = a["context"]
        if self.security is None:
            key = t.KeyData(b"\x00" * 16)
        elif ctx.core_key_type == t.SecurityManagerKeyType.NETWORK:
            key = self.security.networkKey
        else:
            key = self.security.preconfiguredKey
        if self.v14:
            return [t.sl_Status.OK, key, ctx]
        return [key, t.sl_Status.OK if self.version >= 14 else t.EmberStatus.SUCCESS]

    def c_getNetworkKeyInfo(self, a):
        t = self.t
        info = t.SecurityManagerNetworkKeyInfo()
        info.network_key_set = t.Bool(self.security is not None)
        info.alternate_network_key_set = t.Bool(False)
        info.network_key_sequence_number = t.uint8_t(self.security.networkKeySequenceNumber if self.security else 0)
        info.alt_network_key_sequence_number = t.uint8_t(0)
        info.network_key_frame_counter = t.uint32_t(self.nwk_fc)
        return [self.st(True), info]

    # key table
    def c_clearKeyTable(self, a):
        self.key_table = {}
        return [self.st(True)]

    def c_tokenFactoryReset(self, a):
        self.network = None
        self.security = None
        self.stack_up = False
        self.key_table = {}
        self.children = {}
        self.nwk_fc = self.aps_fc = 0
        return []

    def c_addOrUpdateKeyTableEntry(self, a):
        size = self.config[int(self.t.EzspConfigId.CONFIG_KEY_TABLE_SIZE)]
        for i, (e, k) in self.key_table.items():
            if e == a["address"]:
                self.key_table[i] = (a["address"], a["keyData"])
                return [self.st(True)]
        for i in range(size):
            if i not in self.key_table:
                self.key_table[i] = (a["address"], a["keyData"])
                return [self.st(True)]
        return [self.t.EmberStatus.TABLE_FULL]

    def c_importLinkKey(self, a):
        size = self.config[int(self.t.EzspConfigId.CONFIG_KEY_TABLE_SIZE)]
        if int(a["index"]) >= size:
            return [self.st(False)]
        self.key_table[int(a["index"])] = (a["address"], a["key"])
        return [self.st(True)]

    def c_getKeyTableEntry(self, a):
        t = self.t
        i = int(a["index"])
        size = self.config[int(t.EzspConfigId.CONFIG_KEY_TABLE_SIZE)]
        ks = t.EmberKeyStruct()
        ks.bitmask = t.EmberKeyStructBitmask(0)
        ks.type = t.EmberKeyType.APPLICATION_LINK_KEY
        ks.key = t.KeyData(b"\x00" * 16)
        ks.outgoingFrameCounter = t.uint32_t(0)
        ks.incomingFrameCounter = t.uint32_t(0)
        ks.sequenceNumber = t.uint8_t(0)
        ks.partnerEUI64 = t.EUI64.convert("00:00:00:00:00:00:00:00")
        if i >= size:
            return [t.EmberStatus.INDEX_OUT_OF_RANGE, ks]
        if i not in self.key_table:
            return [t.EmberStatus.TABLE_ENTRY_ERASED, ks]
        e, k = self.key_table[i]
        ks.bitmask = (t.EmberKeyStructBitmask.KEY_HAS_PARTNER_EUI64 | t.EmberKeyStructBitmask.KEY_HAS_OUTGOING_FRAME_COUNTER
                      | t.EmberKeyStructBitmask.KEY_HAS_INCOMING_FRAME_COUNTER)
        ks.key = k
        ks.partnerEUI64 = e
        return [t.EmberStatus.SUCCESS, ks]

    def c_exportLinkKeyByIndex(self, a):
        t = self.t
        i = int(a["index"])
        meta = t.SecurityManagerAPSKeyMetadata()
        meta.bitmask = t.EmberKeyStructBitmask(0)
        meta.outgoing_frame_counter = t.uint32_t(0)
        meta.incoming_frame_counter = t.uint32_t(0)
        meta.ttl_in_seconds = t.uint16_t(0)
        present = i in self.key_table
        e, k = self.key_table.get(i, (t.EUI64.convert("00:00:00:00:00:00:00:00"), t.KeyData(b"\x00" * 16)))
        if self.v14:
            ctx = t.SecurityManagerContextV13(
                core_key_type=t.SecurityManagerKeyType.APP_LINK, key_index=i,
                derived_type=t.SecurityManagerDerivedKeyTypeV13.NONE, eui64=e, multi_network_index=0,
                flags=t.SecurityManagerContextFlags.NONE, psa_key_alg_permission=0)
            return [t.sl_Status.OK if present else t.sl_Status.NOT_FOUND, ctx, k, meta]
        return [e, k, meta, t.sl_Status.OK if present else t.sl_Status.NOT_FOUND]

    # child table
    def c_setChildData(self, a):
        cd = a["child_data"] if "child_data" in a else a.get("childData")
        self.children[int(a["index"])] = (cd.eui64, cd.id)
        return [self.st(True)]

    def c_getChildData(self, a):
        t = self.t
        i = int(a["index"])
        rx = self.ez._protocol.COMMANDS["getChildData"][2]
        present = i in self.children
        status = (self.st(True) if present else (t.sl_Status.NOT_JOINED if self.v14 else t.EmberStatus.NOT_JOINED))
        if "childData" in rx or "child_data" in rx:
            cls = rx.get("childData", rx.get("child_data"))
            e, n = self.children.get(i, (t.EUI64.convert("00:00:00:00:00:00:00:00"), 0xFFFF))
            kw = dict(eui64=e, type=t.EmberNodeType.SLEEPY_END_DEVICE, id=t.EmberNodeId(n), phy=0, power=0, timeout=0)
            if "timeout_remaining" in [f.name for f in cls.fields]:
                kw["timeout_remaining"] = 0
            return [status, cls(**kw)]
        e, n = self.children.get(i, (t.EUI64.convert("00:00:00:00:00:00:00:00"), 0xFFFF))
        return [status, t.EmberNodeId(n), e, t.EmberNodeType.SLEEPY_END_DEVICE]

    # address table
    def c_getAddressTableRemoteNodeId(self, a):
        return [self.t.EmberNodeId(0xFFFF)]

    def c_getAddressTableRemoteEui64(self, a):
        return [self.t.EUI64.convert("ff:ff:ff:ff:ff:ff:ff:ff")]

    def c_getAddressTableInfo(self, a):
        t = self.t
        return [t.sl_Status.NOT_FOUND, t.NWK(0xFFFF), t.EUI64.convert("ff:ff:ff:ff:ff:ff:ff:ff")]

    def c_setManufacturerCode(self, a):
        return []

    def c_setPolicy(self, a):
        return [self.st(True)]
