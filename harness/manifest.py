"""Writes MANIFEST.json from the table below (keeps it valid at all times)."""
import json
from pathlib import Path

VERIF = Path(__file__).resolve().parent.parent

TB = ("Coq 8.16.1 kernel (vm_compute, no native_compute); translators harness/gen.py (tables from the live modules) and "
      "harness/pysrc.py (Python source text -> Gallina for the byte-level functions, the synchronous methods and the coroutines as segments between suspension points); correspondence harness "
      "(CPython 3.12.1, real bellows classes); zigpy/asyncio/NCP firmware modelled not verified; see DESIGN.md section 7")

CHECKS = {
    "C18": dict(
        category="proof",
        text=("Coq theorems over the status table regenerated from the live module on every run: OK iff success code for "
              "all 2x256 legacy codes (vm_compute sweep lifted to a forall), unified statuses unchanged, pinned retry/"
              "start-up codes; the control flow of from_ember_status is tied by an exhaustive correspondence over both "
              "8-bit families plus all defined and sampled undefined unified values. from_ember_status and the SL_STATUS_MAP definition are additionally emitted from their Python source and proved equal to the model's normalise for every class and integer; the per-version wrappers' return statements and every status comparison site are emitted as tables and proved to go through the conversion (c18_source_conversion, c18_source_wrappers_convert, c18_source_compare_sites)."),
        design_ref="DESIGN.md section 6 C18",
        technique="Coq proof over translator-generated table + exhaustive model/implementation correspondence",
    ),
}

CHECKS["C19"] = dict(
    category="proof",
    text=("Coq theorem for every outcome history of any length and every version: a feed raises iff it failed and the run of "
          "consecutive failures ending with it exceeds MAX_WATCHDOG_FAILURES (constants regenerated from the module), success "
          "clears the count, keep-alive command selection incl. the clear period; tied to the real "
          "ControllerApplication._watchdog_feed by correspondence over all outcome sequences up to a bound on v4 and v8 and "
          "long runs over the period boundary."),
    design_ref="DESIGN.md section 6 C19",
    technique="Coq proof by induction over outcome histories + model/implementation correspondence",
)

CHECKS["C15"] = dict(
    category="proof",
    text=("Coq model of Multicast._initialize/startup/subscribe/unsubscribe with the NCP table; theorems for every table size, every admissible "
          "initial table and every call sequence: index partition invariant under every answer incl. timeouts, host view = NCP table "
          "when writes are answered, idempotent subscribe, full table, failed call keeps the free count. Multicast.startup(coordinator) is an "
          "operation of the model (Startup: scan, then one subscribe per listed group, all writes answered alike, ended by a timeout); the "
          "invariants are proved by induction over operation sequences of any length with start-ups and scans anywhere (c15_xrun_partition, "
          "c15_xrun_answered), plus what one start-up does with its writes (c15_startup_writes_once, c15_startup_fail_keeps_free). Tied to the real Multicast "
          "class by correspondence (exhaustive short sequences x sizes x answers, random long ones, start-up calls included: every table write of the call is compared; "
          "Python's set.pop choice fed to the model). __init__, _initialize and startup are additionally emitted from their Python source and proved to be the model's Init / Startup "
          "for every table and answer sequence (c15_source_initialize, c15_source_startup, c15_source_startup_op, c15_source_scan_entry)."),
    design_ref="DESIGN.md section 6 C15",
    technique="Coq proof (invariants by induction over call sequences) + model/implementation correspondence",
)

CHECKS["C04"] = dict(
    category="proof",
    text=("Coq theorems for every expected-number state and every frame list of any length: payload handed up iff frmNum is the expected "
          "one, exactly one ACK/NAK per DATA frame with the post-state number, deliveries = what an in-sequence receiver accepts (a "
          "sublist of arrivals, consecutive numbers mod 8 between RSTACKs), RSTACK/ERROR/ACK/NAK/RST effects. Tied to the real "
          "AshProtocol.frame_received and data_received by correspondence (exhaustive short sequences from all 8 states, long random runs)."),
    design_ref="DESIGN.md section 6 C04",
    technique="Coq proof by induction over frame lists + model/implementation correspondence",
)
CHECKS["C02"] = dict(
    category="proof",
    text=("Coq refinement theorem: for every byte stream and every partition into reads whose unterminated residue stays within the "
          "buffer, the transliterated receive loop produces exactly the outputs and state of a specification-derived per-byte reference "
          "decoder; chunking independence; buffer bound for any input; frames with invalid escape or CRC never deliver. Tied to the "
          "real AshProtocol.data_received by correspondence (exhaustive reserved-byte alphabet under all chunkings, mutated frame "
          "streams, oversized reads, garbage with tracemalloc). AshProtocol.data_received itself is additionally emitted from its Python source on every run and proved equal to the model's receive loop for every state and read (c02_source_receive_loop, c02_source_loop_fuel, c02_source_refines_reference)."),
    design_ref="DESIGN.md section 6 C02",
    technique="Coq refinement proof (loop vs per-byte automaton) + model/implementation correspondence",
)

CHECKS["C03"] = dict(
    category="proof",
    text=("Coq theorems over a transliteration of the frame classes, parse_frame, stuffing and _write_frame with constants regenerated "
          "from the module: parse(encode f) = f for every class, field value, reset code and payload of 0..256 bytes; classification of "
          "all 256 control bytes; stuffed output free of reserved bytes; unstuff inverse of stuff; randomisation = the specified LFSR and "
          "involutive; and, for frames up to 4095 bytes, EVERY 1- or 2-bit corruption fails the CRC check (CRC linearity + orbit of x modulo "
          "the generator swept by vm_compute). Tied to the code by correspondence incl. binascii.crc_hqx vs the bitwise CRC."),
    design_ref="DESIGN.md section 6 C03",
    technique="Coq proof (round trip, finite sweeps, CRC algebra) + model/implementation correspondence",
)
CHECKS["C16"] = dict(
    category="proof",
    text=("Coq theorems generic in the default table (instantiated on the tables regenerated from the module for all 11 versions): each "
          "setting written at most once, user values exact, disabled settings silent, grow-only settings never lowered when bellows' own "
          "defaults (table or schema default) apply, packet-buffer count last, defaults written independently of answers. Tied to the real "
          "EZSP.write_config by correspondence over versions x current values x override sets x answers. write_config is additionally emitted from its Python source on every run and proved to issue exactly the model's write plan whatever the writes return (c16_source_*)."),
    design_ref="DESIGN.md section 6 C16",
    technique="Coq proof over translator-generated tables + model/implementation correspondence",
)

CHECKS["C05"] = dict(
    category="proof",
    text=("Coq state machine of the host's ASH sender/receiver with IEEE binary64 time (PrimFloat, bit-exact with the implementation's "
          "adaptive timeout). Theorems for every event list: at most ACK_TIMEOUTS transmissions per send with fixed frame number/payload "
          "and the retransmit flag exactly on repeats; timeout always within [MIN, MAX]; repeats only on NAK or timeout; normal return only "
          "on a covering acknowledgement; failed link silent until RSTACK, waiting sends fail, upper layer told; one DATA frame outstanding; "
          "consecutive numbers; the same for runs in which frames race the timeout in one loop iteration. Tied to the real AshProtocol on a "
          "virtual-time loop by correspondence over exhaustive reaction scripts, and to the source text of the receive-side methods by translation. _send_data_frame, _change_ack_timeout and send_data are additionally emitted from their Python source (segments between suspension points, PrimFloat arithmetic as written) and proved to be the model's transitions for every state, attempt and outcome (c05_source_attempt*, c05_source_timeout*, c05_source_queue)."),
    design_ref="DESIGN.md section 6 C05",
    technique="Coq proof (invariants over event lists, PrimFloat model) + model/implementation correspondence in virtual time",
    note=TB + "; Print Assumptions lists only the PrimFloat/Uint63 kernel primitives; frames racing the acknowledgement timeout in one loop iteration are modelled (AshRace.v, c05_race_*); the frame handler is proved equal to the methods emitted from the source (c05_source_frame_handler)",
)
CHECKS["C07"] = dict(
    category="proof",
    text=("Translator flattens every request/response schema of all 11 versions (2,957 lines of generated tables) into wire descriptors; Coq "
          "theorems: decode(encode vs) = vs with nothing left for every decodable schema and every value tuple, header reader inverts "
          "header writer for the three layouts, positional = keyword binding, and by vm_compute over the generated tables: unique frame ids "
          "and names, ids within the layout's range, every response/callback schema decodable; whole-frame round trip for every version and "
          "command. Tied to the real _ezsp_frame/__call__/zigpy serialisers by correspondence over every version x command x value tuples."),
    design_ref="DESIGN.md section 6 C07",
    technique="Coq proof over translator-generated command tables + model/implementation correspondence",
)

CHECKS["C06"] = dict(
    category="proof",
    text=("Coq state machine of ProtocolHandler.command/__call__ with the priority semaphore's contract; theorems for every event list "
          "with distinct callers: a call returns only the payload of a frame that carried its own sequence number and frame id after its "
          "request was sent; no frame completes another call; non-pending frames go to callbacks exactly once; at most one command in "
          "flight and it holds the slot; queue always sorted by (priority, arrival) and the head starts; no slot leak; sequence numbers "
          "consecutive mod 256; priority classes pinned over every command name of every version (generated). Tied to the real EZSP + "
          "zigpy semaphore on a virtual loop by correspondence over exhaustive two-caller scripts and random multi-caller scripts. The send and receive paths (ProtocolHandler.command, __call__, _get_command_priority) are additionally emitted from their Python source on every run and proved to make the model's state changes (c06_source_*). Runs in which a reply is handled in the very loop iteration in which the command timeout expires are modelled (EzspRace.v) and the results extended to them (c06_race_*)."),
    design_ref="DESIGN.md section 6 C06",
    technique="Coq proof (global invariant over event lists) + model/implementation correspondence in virtual time",
)
CHECKS["C08"] = dict(
    category="proof",
    text=("Coq byte-level model of EZSP.frame_received over the generated tables; theorems for ANY byte string and any table: a pending "
          "command is completed only by a frame with its own sequence number and frame id whose payload decodes fully; callbacks only for "
          "fully decoding known frames; malformed frames change nothing; id mismatch completes nobody; later commands still complete; a "
          "received frame never starts/cancels/times out commands. 'Never raises' is decided by the correspondence: real frame_received on "
          "every truncation, byte flips, id/sequence substitution and random strings, versions 4/7/8/13/14 (thorough: all), inside try/except. EZSP.frame_received and ProtocolHandler.__call__ are additionally emitted from their Python source on every run and proved equal to the byte-level model (c08_source_receive)."),
    design_ref="DESIGN.md section 6 C08",
    technique="Coq proof over translator-generated tables + model/implementation correspondence on malformed frames",
)

CHECKS["C09"] = dict(
    category="proof",
    text=("Coq model of startup_reset/reset/version/_switch_protocol_version over the generated version lists, header kinds and default-"
          "config tables; theorems for EVERY reported version number: first query legacy asking for v4, reported version adopted with its "
          "own tables when supported else the newest, second query in the new layout iff the version differs, later frames in the adopted "
          "layout, a default-config table exists for the adopted handler (incl. unknown newer versions), legacy again after every reset. "
          "Tied to the code by correspondence on the FULL stack (real ASH, Gateway, EZSP, virtual time) against a simulated NCP for versions "
          "4..14, 15, 16, 200 x serial / socket paths x second reset; single link faults explored with the property predicate. The bring-up methods are additionally emitted from their Python source on every run and proved to produce the model's commands and handlers for every reported version (c09_source_*)."),
    design_ref="DESIGN.md section 6 C09",
    technique="Coq proof over translator-generated tables + full-stack model/implementation correspondence",
    note=TB + "; link faults during bring-up are explored (exploration level), not proved here: the link is C01/C05's subject; the NCP simulator is an assumption about firmware",
)

CHECKS["C11"] = dict(
    category="proof",
    text=("Coq model of Gateway.reset/reset_received/wait_for_startup_reset/connection_lost/eof_received with upward calls delivered singly or "
          "back to back in one loop iteration; theorems for every history: the reset request writes CANCEL+RST (bytes computed from the codec "
          "model); a reset() returns normally only in a step that delivered RSTACK(software) while pending (all codes), and then does; any "
          "other code goes to the failure path and completes no waiter; the timeout ends it; unsolicited RSTACKs change nothing; a loss or "
          "EOF releases every pending waiter and leaves nothing pending; frame numbers are zero after RSTACK. Tied to the real Gateway/EZSP by "
          "correspondence (all 256 codes in time, before/after/twice, losses at each step, batches), and to the real AshProtocol for the RST "
          "bytes and counters from all 64 prior values. Gateway.reset, wait_for_startup_reset and AshProtocol.send_reset are additionally emitted from their Python source as segments between suspension points and proved to be the model's request / start-up / timer transitions, with the RST bytes (c11_source_reset_*, c11_source_startup_*, c11_source_timer)."),
    design_ref="DESIGN.md section 6 C11",
    technique="Coq proof over event histories with same-iteration batches + model/implementation correspondence in virtual time",
)
CHECKS["C10"] = dict(
    category="proof",
    text=("Same gateway/facade model: for every state with an application callback and every batch containing a failure (reset code other than "
          "software incl. ERROR and retry exhaustion, connection loss with an error, EOF) a controller-reset request is produced, EZSP is "
          "stopped, the gateway released and the transport closed, commands raise at once; stays stopped; deliberate close and the "
          "connection_lost(None) after it are silent; waiting commands end by their timeout (C06 model) and link sends by the retry budget "
          "(C05). Correspondence with the real Gateway+EZSP at gateway level; the FULL stack (real ASH, virtual time) is explored with each "
          "failure kind injected before and after every wire event of four workloads and judged by the property predicate. Gateway.send_data and the closed-transport path of Gateway.reset are additionally emitted from source (c10_source_send_data, c10_source_reset_closed)."),
    design_ref="DESIGN.md section 6 C10",
    technique="Coq proof (gateway/facade model) + correspondence + full-stack fault injection at every wire event",
    note=TB + "; the full-stack half is exploration (fault_enumeration level): positions sampled in the quick tier, all in thorough; threaded mode not covered",
)

CHECKS["C13"] = dict(
    category="proof",
    text=("Coq model of ezsp_callback_handler/_handle_frame/_handle_tc_join_handler on decoded callback values; theorems: in every one of "
          "the 11 versions the positions the code unpacks carry the right fields of the generated incomingMessageHandler / "
          "trustCenterJoinHandler schemas (both field orders; vm_compute over generated tables); unicast/multicast/broadcast yield exactly "
          "one packet with all fields equal to the callback's and the destination by type, other types none; join/leave/denied triage. Tied "
          "to the code by correspondence: frames built by an independent byte-level encoder pushed through the real EZSP.frame_received "
          "into the real ControllerApplication for every version, model = decode over generated tables + translate. The dispatch, both unpackings, _handle_frame and the join handler are additionally emitted from their Python source on every run and proved equal to the model's translation (c13_source_*)."),
    design_ref="DESIGN.md section 6 C13",
    technique="Coq proof over translator-generated callback schemas + byte-level model/implementation correspondence",
)

CHECKS["C20"] = dict(
    category="other",
    text=("PARTIAL by nature. Proved in Coq: the five dispatch rules of ThreadsafeProxy over all 16 input combinations and, over a queue "
          "model of the owner's loop, that bodies are only ever executed by the owner, results/exceptions of coroutine methods are relayed, "
          "plain methods are queued and must return nothing, closed loops drop without executing. NOT provable in Coq: which OS thread "
          "runs a body and what happens while the owner loop is stopping -- those are explored with real threads (thread identity recorded "
          "inside the wrapped method) for every method kind x caller loop x owner state x burst size; running/closed outcomes are also "
          "compared with the model. The decision tree of __getattr__ / func_wrapper is additionally emitted from its Python source and proved equal to the model's dispatch (c20_source_decision)."),
    design_ref="DESIGN.md section 6 C20",
    technique="Coq proof of the dispatch/relay logic + runtime exploration with real threads (partial)",
    note=TB + "; thread scheduling is not controlled, the runtime half has exploration-level assurance only",
)

CHECKS["C17"] = dict(
    category="proof",
    text=("Coq model of wait_for_stack_status/stack_status_callback/formNetwork/leaveNetwork/_list_command/_ensure_network_running with "
          "callbacks delivered singly or back to back; theorems for every event history of an operation: completion needs an accepted "
          "command AND the matching status event after the start, in order; the event is observed whether it comes before or after the "
          "command's reply; refusal / not-joined / timeout raise; a scan returns exactly the results between start and completion, in "
          "order, none from before; after any history, when no operation is active no listener or callback remains. Tied to the real EZSP "
          "and ControllerApplication by correspondence over all event orders up to a bound, batches and repeated operations. The listener registry, the wait_for_stack_status context manager and the scan callback are additionally emitted from their Python source and proved to refine the model's registry operations on every exit path (c17_source_*)."),
    design_ref="DESIGN.md section 6 C17",
    technique="Coq proof (operation invariant over event histories) + model/implementation correspondence in virtual time",
)

CHECKS["C01"] = dict(
    category="proof",
    text=("Coq theorem about the composed system: the host (the C05 host model itself, evolving only through host_step) joined to a "
          "specification-conforming nondeterministic NCP with transmit window K <= 7 by two FIFO queues whose head can be delivered, dropped, "
          "duplicated, detectably corrupted, or stalled past the timeout: for EVERY label list, the payloads handed up on each side are a "
          "PREFIX of what the other side submitted (exactly once, in order), a send that completed OK was delivered exactly once, any send at "
          "most once, and removing caller cancellations changes no delivery, wire frame or other completion; K = 8 is shown to break it. "
          "Refinement of an abstract sliding-window invariant (3-bit numbers) in 1 700 lines. The host half is tied to the real AshProtocol "
          "by co-simulation against a spec-derived NCP over faulty FIFO lines (random label schedules, windows 1..3, cancellations, "
          "timeouts), replayed event by event in the host model; end-to-end delivery is also judged on every run. The host's sender and receive loop are additionally emitted from their Python source (GenAshTxFn, GenAshLoopFn, GenAshRxFn) and proved to be the model's steps (see C02/C05)."),
    design_ref="DESIGN.md section 6 C01",
    technique="Coq refinement proof (sliding-window invariant over all label sequences) + host-half co-simulation correspondence",
    note=TB + "; FIFO lines, one epoch per run; the NCP of the theorem is a relation, the NCP of the experiment a Python simulator; Print Assumptions lists PrimFloat kernel primitives only",
)

CHECKS["C14"] = dict(
    category="proof",
    text=("PARTIAL for the firmware side. Coq model of util.zha_security, the per-version write plan of write_network_info, an abstract NCP "
          "store and the read-back of load_network_info: the security state carries exactly the supplied keys with presence flags matching "
          "the supplied fields (all inputs); for every version 4..14 and every admissible input (distinct link-key partners, table size, "
          "well-known trust-centre key from v5) the read-back equals what was written on PAN ids, channel/mask, update id, network key + "
          "sequence, trust-centre key + hashed form, link keys, frame counter (v5+), children (v9+). The non-well-known TCLK case is proved "
          "refuted (c14_tclk_refuted) and listed as a known finding. Tied to the real application and per-version accessors by "
          "correspondence against a simulated NCP for every version; the NCP store is an assumption about firmware. zha_security, the key conversions, the per-version write accessors and the order of steps of write_network_info are additionally emitted from their Python source and proved equal to the model (c14_source_security_state, c14_source_write_order, c14_source_staged_after_restart_before_form, c14_source_key_*)."),
    design_ref="DESIGN.md section 6 C14",
    technique="Coq proof about the model (plan / store / read-back) + correspondence with the real code on a simulated NCP (partial)",
    note=TB + "; the NCP (harness/ncpsim.py and the Coq store) is a specification-derived assumption, not EmberZNet",
)

CHECKS["C12"] = dict(
    category="proof",
    text=("Coq model of send_packet/_handle_frame_sent (pending table keyed by destination+tag, FIFO request lock, busy retries spaced by the "
          "generated RETRY_DELAYS, confirmation wait); theorems with a global invariant over every event history with distinct requests: a "
          "unicast returns normally only with an accepted enqueue AND a successful confirmation for its own destination and tag, both after "
          "its submission (trace theorem); refusal / confirmed failure / no confirmation / still busy after the last retry raise; foreign, "
          "duplicate and unsolicited confirmations complete nothing; no bookkeeping remains; commands are only ever issued by the unique "
          "holder of the request lock (set-up + send atomic); busy statuses pinned through the C18 tables. Tied to the real "
          "ControllerApplication.send_packet and the real per-version wrappers by correspondence (versions 4/8/13/14, thorough 4..14). _handle_frame_sent and the messageSentHandler unpacking are additionally emitted from their Python source and proved to be the model's confirmation step (c12_source_*). send_packet itself is additionally emitted from its Python source from the limiter on, and every execution of the emitted script is proved to be a path of the model with the same commands, lock scope, pending-entry scope and outcome (c12_source_send_packet, c12_source_lock_scope, c12_source_pending_scope, c12_source_busy_statuses)."),
    design_ref="DESIGN.md section 6 C12",
    technique="Coq proof (global invariant over event histories) + model/implementation correspondence in virtual time",
    note=TB + "; zigpy.util.Requests is the harness re-implementation; the extended-timeout set-up is one command in the harness",
)

NOT_YET = {}


def main():
    props = [json.loads(l) for l in (VERIF / "properties.jsonl").read_text().splitlines() if l.strip()]
    checks = []
    na = []
    for p in props:
        pid = p["id"]
        if pid in CHECKS:
            c = CHECKS[pid]
            checks.append({
                "property_id": pid,
                "quick_cmd": f"bin/check {pid} quick",
                "thorough_cmd": f"bin/check {pid} thorough",
                "evidence_file": f"evidence/{pid}.json",
                "replay_cmd_template": f"bin/check {pid} quick --replay {{path}}",
                "engine": "coq-bellows",
                "level_claimed": {"category": c["category"], "text": c["text"], "design_ref": c["design_ref"]},
                "level_note": c.get("note", TB),
                "technique": c["technique"],
            })
        else:
            na.append({"property_id": pid, "reason": NOT_YET.get(pid, "check not built yet in this round (planned: see DESIGN.md section 9); not claimed until it exists")})
    m = {
        "version": 1,
        "setup_cmd": "bin/setup",
        "hooks": {
            "guard": "BELLOWS_VERIF",
            "enable": "no instrumentation is compiled into /repo; checks import /repo's working tree directly (PYTHONPATH=/repo)",
            "baseline_off_cmd": "cd /repo && /venv/bin/python -m pytest -ra -q -p no:cacheprovider --timeout=900 --continue-on-collection-errors",
            "source_commits": [],
            "add_only": True,
        },
        "engines": [{
            "name": "coq-bellows", "path": "coq/",
            "serves_properties": sorted(CHECKS),
            "kind_free_text": "Coq 8.16.1 development: generated tables (coq/gen), hand models (coq/model), proofs, property theorems (coq/props); tied to /repo by translator + correspondence harness (harness/)",
        }],
        "checks": checks,
        "not_applicable": na,
        "notes": "Every check: bin/check <id> <tier>. See DESIGN.md for models, theorems, trusted base and per-property limits.",
    }
    (VERIF / "MANIFEST.json").write_text(json.dumps(m, indent=1) + "\n")


if __name__ == "__main__":
    main()
